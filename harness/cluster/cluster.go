//go:build verif

// Package cluster runs N real olric members inside the test process (real RESP servers and
// real memberlist on loopback) and gives the drivers step-level control over routing-table
// pushes, balancer runs, stops and crashes.
package cluster

import (
	"context"
	"fmt"
	"io"
	"log"
	"net"
	"os"
	"sort"
	"strconv"
	"strings"
	"sync"
	"time"

	"github.com/hashicorp/memberlist"
	"github.com/olric-data/olric"
	"github.com/olric-data/olric/config"
	"github.com/olric-data/olric/internal/cluster/partitions"
)

type Options struct {
	Replicas          int
	ReadQuorum        int
	WriteQuorum       int
	MemberCountQuorum int
	ReadRepair        bool
	Partitions        uint64
	TableSize         int           // bytes; 0 = default (1 MiB)
	Manual            bool          // TRUE: push/balancer/janitor/compaction timers at one hour, the driver calls Sync()
	IdleTables        time.Duration // > 0: storage tables that compaction emptied are freed after this time (default 15 minutes)
	Housekeeping      time.Duration // > 0: the janitor (empty fragments) and the compaction trigger run at this interval, also in manual mode
	DMaps             func(*config.DMaps)
	Tweak             func(*config.Config)
	LogTo             io.Writer
}

type Member struct {
	DB      *olric.Olric
	Cfg     *config.Config
	Name    string // host:port of the RESP server = member name
	V       *olric.VerifAccess
	Stopped bool
	Index   int
	done    chan error
}

type Cluster struct {
	mu      sync.Mutex
	Opts    Options
	Members []*Member
	started time.Time
}

var (
	portMu   sync.Mutex
	portUsed = map[int]bool{}
)

// freePort asks the kernel for a free TCP port and never hands out the same one twice in this
// process (several clusters are started side by side).
func freePort() int {
	portMu.Lock()
	defer portMu.Unlock()
	for i := 0; i < 200; i++ {
		l, err := net.Listen("tcp", "127.0.0.1:0")
		if err != nil {
			continue
		}
		p := l.Addr().(*net.TCPAddr).Port
		// memberlist needs the same port on UDP
		u, uerr := net.ListenPacket("udp", net.JoinHostPort("127.0.0.1", strconv.Itoa(p)))
		l.Close()
		if uerr != nil {
			continue
		}
		u.Close()
		if portUsed[p] {
			continue
		}
		portUsed[p] = true
		return p
	}
	panic("no free port")
}

func New(o Options) *Cluster {
	if o.Replicas == 0 {
		o.Replicas = 1
	}
	if o.ReadQuorum == 0 {
		o.ReadQuorum = 1
	}
	if o.WriteQuorum == 0 {
		o.WriteQuorum = 1
	}
	if o.MemberCountQuorum == 0 {
		o.MemberCountQuorum = 1
	}
	if o.Partitions == 0 {
		o.Partitions = 7
	}
	return &Cluster{Opts: o, started: time.Now()}
}

func (c *Cluster) newConfig() *config.Config {
	o := c.Opts
	cfg := config.New("local")
	cfg.PartitionCount = o.Partitions
	cfg.ReplicaCount = o.Replicas
	cfg.ReadQuorum = o.ReadQuorum
	cfg.WriteQuorum = o.WriteQuorum
	cfg.MemberCountQuorum = int32(o.MemberCountQuorum)
	cfg.ReadRepair = o.ReadRepair
	cfg.BindAddr = "127.0.0.1"
	cfg.BindPort = freePort()
	cfg.LeaveTimeout = 300 * time.Millisecond
	cfg.BootstrapTimeout = 5 * time.Second
	cfg.JoinRetryInterval = 50 * time.Millisecond
	cfg.MaxJoinAttempts = 40
	w := o.LogTo
	if w == nil {
		w = io.Discard
		if p := os.Getenv("VERIF_OLRIC_LOG"); p != "" {
			f, err := os.OpenFile(p, os.O_CREATE|os.O_APPEND|os.O_WRONLY, 0o644)
			if err == nil {
				w = f
			}
		}
	}
	cfg.LogOutput = w
	cfg.Logger = log.New(w, "", log.LstdFlags)
	cfg.LogLevel = "ERROR"
	cfg.LogVerbosity = 1
	if os.Getenv("VERIF_OLRIC_LOG") != "" {
		cfg.LogLevel = "DEBUG"
		cfg.LogVerbosity = 6
	}
	mc := memberlist.DefaultLocalConfig()
	mc.BindAddr = "127.0.0.1"
	mc.BindPort = freePort()
	mc.AdvertisePort = mc.BindPort
	// sub-second failure detection so that abrupt stops are noticed quickly
	// (not more aggressive than this: under CPU load a live member must not be declared dead)
	mc.ProbeInterval = 250 * time.Millisecond
	mc.ProbeTimeout = 200 * time.Millisecond
	mc.SuspicionMult = 3
	mc.IndirectChecks = 3
	mc.GossipInterval = 20 * time.Millisecond
	mc.PushPullInterval = 2 * time.Second
	mc.TCPTimeout = 500 * time.Millisecond
	mc.DeadNodeReclaimTime = 10 * time.Millisecond
	cfg.MemberlistConfig = mc
	if o.Manual {
		cfg.RoutingTablePushInterval = time.Hour
		cfg.TriggerBalancerInterval = time.Hour
	} else {
		cfg.RoutingTablePushInterval = 200 * time.Millisecond
		cfg.TriggerBalancerInterval = 100 * time.Millisecond
	}
	cfg.DMaps = &config.DMaps{}
	if o.Manual {
		cfg.DMaps.CheckEmptyFragmentsInterval = time.Hour
		cfg.DMaps.TriggerCompactionInterval = time.Hour
	} else {
		cfg.DMaps.CheckEmptyFragmentsInterval = 300 * time.Millisecond
		cfg.DMaps.TriggerCompactionInterval = 200 * time.Millisecond
	}
	if o.Housekeeping > 0 {
		cfg.DMaps.CheckEmptyFragmentsInterval = o.Housekeeping
		cfg.DMaps.TriggerCompactionInterval = o.Housekeeping
	}
	if o.TableSize > 0 {
		cfg.DMaps.Engine = config.NewEngine()
		cfg.DMaps.Engine.Config["tableSize"] = uint64(o.TableSize)
		if o.IdleTables > 0 {
			cfg.DMaps.Engine.Config["maxIdleTableTimeout"] = o.IdleTables
		}
	}
	if o.DMaps != nil {
		o.DMaps(cfg.DMaps)
	}
	// the members' internal clients must not re-send a command that is parked at a gate
	cfg.Client = config.NewClient()
	cfg.Client.MaxRetries = -1
	cfg.Client.ReadTimeout = 30 * time.Second
	cfg.Client.WriteTimeout = 30 * time.Second
	cfg.Client.DialTimeout = 1 * time.Second
	if o.Tweak != nil {
		o.Tweak(cfg)
	}
	return cfg
}

// Live returns the members that have not been stopped.
func (c *Cluster) Live() []*Member {
	var out []*Member
	for _, m := range c.Members {
		if !m.Stopped {
			out = append(out, m)
		}
	}
	return out
}

// StartTogether starts n members at once (needed when MemberCountQuorum > 1: a member does not
// finish starting before it sees enough peers) and waits for all of them.
func StartTogether(o Options, n int) (*Cluster, error) {
	c := New(o)
	type res struct {
		m   *Member
		err error
	}
	first := c.newConfig()
	seed := net.JoinHostPort("127.0.0.1", strconv.Itoa(first.MemberlistConfig.BindPort))
	ch := make(chan res, n)
	for i := 0; i < n; i++ {
		cfg := first
		if i > 0 {
			cfg = c.newConfig()
			cfg.Peers = []string{seed}
		}
		go func(cfg *config.Config) {
			m, err := c.startMember(cfg)
			ch <- res{m, err}
		}(cfg)
		if i == 0 {
			time.Sleep(150 * time.Millisecond) // let the seed's memberlist come up first
		}
	}
	for i := 0; i < n; i++ {
		r := <-ch
		if r.err != nil {
			return nil, r.err
		}
	}
	sort.Slice(c.Members, func(i, j int) bool {
		return c.Members[i].Cfg.MemberlistConfig.BindPort == first.MemberlistConfig.BindPort && i != j
	})
	for i, m := range c.Members {
		m.Index = i
	}
	if err := c.WaitStable(15*time.Second, true); err != nil {
		return nil, err
	}
	return c, nil
}

// AddMember starts one more member, lets it join and waits until it is bootstrapped.
func (c *Cluster) AddMember() (*Member, error) {
	cfg := c.newConfig()
	c.mu.Lock()
	for _, m := range c.Live() {
		cfg.Peers = append(cfg.Peers, net.JoinHostPort("127.0.0.1", strconv.Itoa(m.Cfg.MemberlistConfig.BindPort)))
	}
	c.mu.Unlock()
	return c.startMember(cfg)
}

// Rejoin starts a new member under the address of a stopped one (new birthdate, same name).
func (c *Cluster) Rejoin(old *Member) (*Member, error) {
	cfg := c.newConfig()
	cfg.BindPort = old.Cfg.BindPort
	cfg.MemberlistConfig.BindPort = old.Cfg.MemberlistConfig.BindPort
	cfg.MemberlistConfig.AdvertisePort = old.Cfg.MemberlistConfig.BindPort
	c.mu.Lock()
	for _, m := range c.Live() {
		cfg.Peers = append(cfg.Peers, net.JoinHostPort("127.0.0.1", strconv.Itoa(m.Cfg.MemberlistConfig.BindPort)))
	}
	c.mu.Unlock()
	return c.startMember(cfg)
}

func (c *Cluster) startMember(cfg *config.Config) (*Member, error) {
	started := make(chan struct{})
	var once sync.Once
	cfg.Started = func() { once.Do(func() { close(started) }) }
	db, err := olric.New(cfg)
	if err != nil {
		return nil, err
	}
	m := &Member{DB: db, Cfg: cfg, Name: net.JoinHostPort(cfg.BindAddr, strconv.Itoa(cfg.BindPort)), V: db.Verif(),
		Index: len(c.Members), done: make(chan error, 1)}
	go func() { m.done <- db.Start() }()
	deadline := time.After(15 * time.Second)
	tick := time.NewTicker(5 * time.Millisecond)
	defer tick.Stop()
wait:
	for {
		select {
		case <-started:
			break wait
		case err := <-m.done:
			return nil, fmt.Errorf("member did not start: %v", err)
		case <-deadline:
			return nil, fmt.Errorf("member did not start in 10s")
		case <-tick.C:
			// the Started callback relies on a process-wide checkpoint counter; with several
			// members in one process the routing table's own flag is the reliable signal
			if m.V.RoutingTable.IsBootstrapped() && m.V.Server != nil {
				select {
				case <-m.V.Server.StartedCtx.Done():
					break wait
				default:
				}
			}
		}
	}
	c.mu.Lock()
	m.Index = len(c.Members)
	c.Members = append(c.Members, m)
	c.mu.Unlock()
	return m, nil
}

// Sync makes the coordinator compute and push the routing table and runs the balancer once on
// every live member (one table per fragment moves per run, as in production).
func (c *Cluster) Sync() {
	c.Push()
	c.Balance()
}

func (c *Cluster) Push() {
	for _, m := range c.Live() {
		if m.V.RoutingTable.Discovery().IsCoordinator() {
			m.V.RoutingTable.UpdateEagerly()
		}
	}
}

func (c *Cluster) Balance() {
	for _, m := range c.Live() {
		m.V.Balancer.BalanceEagerly()
	}
}

// Coordinator returns the live member that believes to be the coordinator.
func (c *Cluster) Coordinator() *Member {
	for _, m := range c.Live() {
		if m.V.RoutingTable.Discovery().IsCoordinator() {
			return m
		}
	}
	return nil
}

// Table is one member's view of the routing table: partition -> owner names.
type Table struct {
	Owners  [][]string
	Backups [][]string
	Members []string
}

func (m *Member) Table(parts uint64) Table { return m.table(parts, false) }

// TableByIncarnation is Table with every member written as name#id: a member restarted under its old address has the
// old name and a new id, and a table may list the incarnation that is gone.
func (m *Member) TableByIncarnation(parts uint64) Table { return m.table(parts, true) }

// Incarnation is the identity of this member as TableByIncarnation writes it.
func (m *Member) Incarnation() string {
	return fmt.Sprintf("%s#%d", m.Name, m.V.RoutingTable.This().ID)
}

func (m *Member) table(parts uint64, ids bool) Table {
	ident := func(name string, id uint64) string {
		if ids {
			return fmt.Sprintf("%s#%d", name, id)
		}
		return name
	}
	t := Table{}
	for p := uint64(0); p < parts; p++ {
		var os, bs []string
		for _, o := range m.V.Primary.PartitionByID(p).Owners() {
			os = append(os, ident(o.Name, o.ID))
		}
		for _, o := range m.V.Backup.PartitionByID(p).Owners() {
			bs = append(bs, ident(o.Name, o.ID))
		}
		t.Owners = append(t.Owners, os)
		t.Backups = append(t.Backups, bs)
	}
	for _, x := range m.V.RoutingTable.Discovery().GetMembers() {
		t.Members = append(t.Members, ident(x.Name, x.ID))
	}
	sort.Strings(t.Members)
	return t
}

func (t Table) String() string {
	var sb strings.Builder
	for p := range t.Owners {
		fmt.Fprintf(&sb, "%d:%v/%v;", p, t.Owners[p], t.Backups[p])
	}
	fmt.Fprintf(&sb, "M%v", t.Members)
	return sb.String()
}

// StableState describes why the cluster is (not) stable.
func (c *Cluster) stableOnce(requireBalanced bool) (string, bool) {
	live := c.Live()
	names := map[string]bool{}
	for _, m := range live {
		names[m.Name] = true
	}
	var first string
	for i, m := range live {
		t := m.Table(c.Opts.Partitions)
		if len(t.Members) != len(live) {
			return fmt.Sprintf("%s sees %d members, want %d", m.Name, len(t.Members), len(live)), false
		}
		for _, x := range t.Members {
			if !names[x] {
				return fmt.Sprintf("%s still lists departed member %s", m.Name, x), false
			}
		}
		for p := range t.Owners {
			if len(t.Owners[p]) == 0 {
				return fmt.Sprintf("%s has no owner for partition %d", m.Name, p), false
			}
			if requireBalanced {
				// (whether a departed member is still listed in a table that no longer changes is for the
				// specification to judge, not a precondition)
				for _, o := range append(append([]string{}, t.Owners[p]...), t.Backups[p]...) {
					if !names[o] {
						return fmt.Sprintf("%s lists departed owner %s for partition %d", m.Name, o, p), false
					}
				}
			}
			if requireBalanced && len(t.Owners[p]) != 1 {
				return fmt.Sprintf("partition %d still has %d primary owners on %s", p, len(t.Owners[p]), m.Name), false
			}
			want := c.Opts.Replicas
			if len(live) < want {
				want = len(live)
			}
			if requireBalanced && len(t.Backups[p]) != want-1 {
				return fmt.Sprintf("partition %d has %d backup owners on %s, want %d", p, len(t.Backups[p]), m.Name, want-1), false
			}
		}
		s := t.String()
		if i == 0 {
			first = s
		} else if s != first {
			return fmt.Sprintf("%s and %s disagree", live[0].Name, m.Name), false
		}
	}
	return first, true
}

// holdings is a signature of which member holds how many entries for which partition.
func (c *Cluster) holdings() string {
	var sb strings.Builder
	for _, m := range c.Live() {
		for p := uint64(0); p < c.Opts.Partitions; p++ {
			fmt.Fprintf(&sb, "%d/%d:%d,%d;", m.Index, p, m.V.Primary.PartitionByID(p).Length(), m.V.Backup.PartitionByID(p).Length())
		}
	}
	return sb.String()
}

// WaitStable waits until every live member reports the same member list and routing table and no
// departed member is listed.  requireBalanced: additionally every partition has exactly one primary
// owner and min(R, N)-1 backup owners (every hand-over completed) on two consecutive polls.  Otherwise
// a fixpoint is awaited: three consecutive push+balance rounds change neither the tables nor which
// member holds how much data.  In manual mode it keeps calling Sync.
func (c *Cluster) WaitStable(timeout time.Duration, requireBalanced bool) error {
	deadline := time.Now().Add(timeout)
	prev, why := "", ""
	same := 0
	for time.Now().Before(deadline) {
		if c.Opts.Manual {
			c.Sync()
		}
		s, ok := c.stableOnce(requireBalanced)
		if ok && !requireBalanced {
			s += "#" + c.holdings()
		}
		if ok && s == prev {
			same++
			// free-running clusters: the picture must stay the same for several periods of the push and balancer timers
			need := 3
			if !c.Opts.Manual {
				need = 20
			}
			if requireBalanced || same >= need {
				return nil
			}
		} else {
			same = 0
		}
		if ok {
			prev = s
		} else {
			prev, why = "", s
		}
		time.Sleep(40 * time.Millisecond)
	}
	return fmt.Errorf("cluster did not stabilise in %v: %s", timeout, why)
}

// WaitPushFixpoint (manual mode) pushes the routing table - WITHOUT running the balancer - until nothing changes any more:
// every live member sees every live member, and five consecutive pushes change no member's table.  The hand-over of the data
// has not begun then; partitions may have previous owners.  Whether the members' tables AGREE at that fixpoint is for the
// specification to judge: it is not a precondition here.
func (c *Cluster) WaitPushFixpoint(timeout time.Duration) error {
	deadline := time.Now().Add(timeout)
	prev, same := "", 0
	for time.Now().Before(deadline) {
		c.Push()
		live := c.Live()
		var sb strings.Builder
		ready := true
		for _, m := range live {
			t := m.Table(c.Opts.Partitions)
			if len(t.Members) != len(live) {
				ready = false
			}
			sb.WriteString(m.Name + "=" + t.String() + "|")
		}
		if s := sb.String(); ready && s == prev {
			same++
			if same >= 5 {
				return nil
			}
		} else {
			same = 0
			prev = s
		}
		time.Sleep(40 * time.Millisecond)
	}
	return fmt.Errorf("pushing the routing table did not reach a fixpoint in %v", timeout)
}

// Stop stops a member: gracefully (Shutdown: leave broadcast, then stop) or abruptly (the member
// disappears without telling anyone: memberlist is shut down without the leave message and the
// RESP server closed).
func (c *Cluster) Stop(m *Member, graceful bool) error {
	m.Stopped = true
	if !graceful {
		if err := m.V.RoutingTable.Discovery().VerifShutdownNoLeave(); err != nil {
			return err
		}
	}
	ctx, cancel := context.WithTimeout(context.Background(), 5*time.Second)
	defer cancel()
	return m.DB.Shutdown(ctx)
}

func (c *Cluster) Shutdown() {
	var wg sync.WaitGroup
	for _, m := range c.Live() {
		wg.Add(1)
		go func(m *Member) {
			defer wg.Done()
			ctx, cancel := context.WithTimeout(context.Background(), 5*time.Second)
			defer cancel()
			m.Stopped = true
			_ = m.DB.Shutdown(ctx)
		}(m)
	}
	wg.Wait()
}

var bg sync.WaitGroup

// ShutdownAsync shuts the cluster down in the background (drivers that start dozens of clusters do
// not wait for every leave broadcast); WaitBackground waits for all of them.
func (c *Cluster) ShutdownAsync() {
	bg.Add(1)
	go func() {
		defer bg.Done()
		c.Shutdown()
	}()
}

// WaitBackground waits (bounded) for the clusters shut down with ShutdownAsync.
func WaitBackground(d time.Duration) {
	done := make(chan struct{})
	go func() { bg.Wait(); close(done) }()
	select {
	case <-done:
	case <-time.After(d):
	}
}

// OwnerOf returns the live member that owns the key's partition according to m's own view, and
// the partition id.
func (c *Cluster) OwnerOf(view *Member, dmap, key string) (*Member, uint64) {
	hkey := partitions.HKey(dmap, key)
	part := view.V.Primary.PartitionByHKey(hkey)
	owner := part.Owner().Name
	for _, m := range c.Members {
		if m.Name == owner {
			return m, part.ID()
		}
	}
	return nil, part.ID()
}

// BackupsOf returns the backup owners of the key's partition according to view.
func (c *Cluster) BackupsOf(view *Member, dmap, key string) []*Member {
	hkey := partitions.HKey(dmap, key)
	var out []*Member
	for _, o := range view.V.Backup.PartitionOwnersByHKey(hkey) {
		for _, m := range c.Members {
			if m.Name == o.Name {
				out = append(out, m)
			}
		}
	}
	return out
}

// ByName finds a member.
func (c *Cluster) ByName(name string) *Member {
	for _, m := range c.Members {
		if m.Name == name {
			return m
		}
	}
	return nil
}

// Start creates a cluster with n members, stabilised.
func Start(o Options, n int) (*Cluster, error) {
	c := New(o)
	for i := 0; i < n; i++ {
		if _, err := c.AddMember(); err != nil {
			c.Shutdown()
			return nil, err
		}
		if err := c.WaitStable(10*time.Second, true); err != nil {
			c.Shutdown()
			return nil, err
		}
	}
	return c, nil
}
