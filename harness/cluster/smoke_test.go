//go:build verif

package cluster

import (
	"context"
	"fmt"
	"testing"
	"time"
)

func TestClusterSmoke(t *testing.T) {
	t0 := time.Now()
	c, err := Start(Options{Replicas: 2, Manual: true, Partitions: 7}, 3)
	if err != nil {
		t.Fatal(err)
	}
	defer c.Shutdown()
	t.Logf("3 members up in %v", time.Since(t0))
	ctx := context.Background()
	e := c.Members[0].DB.NewEmbeddedClient()
	dm, err := e.NewDMap("d")
	if err != nil {
		t.Fatal(err)
	}
	for i := 0; i < 50; i++ {
		if err := dm.Put(ctx, fmt.Sprintf("k%d", i), i); err != nil {
			t.Fatal(err)
		}
	}
	t1 := time.Now()
	if err := c.Stop(c.Members[2], false); err != nil {
		t.Fatal(err)
	}
	if err := c.WaitStable(10*time.Second, true); err != nil {
		t.Fatal(err)
	}
	t.Logf("abrupt stop detected and stabilised in %v", time.Since(t1))
	for i := 0; i < 50; i++ {
		g, err := dm.Get(ctx, fmt.Sprintf("k%d", i))
		if err != nil {
			t.Fatalf("k%d: %v", i, err)
		}
		v, _ := g.Int()
		if v != i {
			t.Fatalf("k%d = %d", i, v)
		}
	}
	t2 := time.Now()
	if _, err := c.AddMember(); err != nil {
		t.Fatal(err)
	}
	if err := c.WaitStable(10*time.Second, true); err != nil {
		t.Fatal(err)
	}
	t.Logf("join stabilised in %v", time.Since(t2))
}
