module github.com/olric-data/olric/verifharness

go 1.23.0

require (
	github.com/hashicorp/memberlist v0.5.3
	github.com/olric-data/olric v0.0.0
	github.com/redis/go-redis/v9 v9.7.3
	github.com/vmihailenco/msgpack/v5 v5.4.1
)

require (
	github.com/RoaringBitmap/roaring v1.9.4 // indirect
	github.com/armon/go-metrics v0.4.1 // indirect
	github.com/bits-and-blooms/bitset v1.22.0 // indirect
	github.com/buraksezer/consistent v0.10.0 // indirect
	github.com/cespare/xxhash/v2 v2.3.0 // indirect
	github.com/dgryski/go-rendezvous v0.0.0-20200823014737-9f7001d12a5f // indirect
	github.com/google/btree v1.1.3 // indirect
	github.com/hashicorp/errwrap v1.1.0 // indirect
	github.com/hashicorp/go-immutable-radix v1.3.1 // indirect
	github.com/hashicorp/go-metrics v0.5.4 // indirect
	github.com/hashicorp/go-msgpack/v2 v2.1.3 // indirect
	github.com/hashicorp/go-multierror v1.1.1 // indirect
	github.com/hashicorp/go-sockaddr v1.0.7 // indirect
	github.com/hashicorp/golang-lru v1.0.2 // indirect
	github.com/hashicorp/logutils v1.0.0 // indirect
	github.com/miekg/dns v1.1.65 // indirect
	github.com/pkg/errors v0.9.1 // indirect
	github.com/sean-/seed v0.0.0-20170313163322-e2103e2c3529 // indirect
	github.com/tidwall/btree v1.7.0 // indirect
	github.com/tidwall/match v1.1.1 // indirect
	github.com/tidwall/redcon v1.6.2 // indirect
	github.com/vmihailenco/tagparser/v2 v2.0.0 // indirect
	golang.org/x/net v0.38.0 // indirect
	golang.org/x/sync v0.13.0 // indirect
	golang.org/x/sys v0.32.0 // indirect
	gopkg.in/yaml.v2 v2.4.0 // indirect
)

replace github.com/olric-data/olric => /repo
