module github.com/olric-data/olric/verifharness

go 1.23.0

require github.com/olric-data/olric v0.0.0

require (
	github.com/RoaringBitmap/roaring v1.9.4 // indirect
	github.com/bits-and-blooms/bitset v1.22.0 // indirect
	github.com/pkg/errors v0.9.1 // indirect
	github.com/vmihailenco/msgpack/v5 v5.4.1 // indirect
	github.com/vmihailenco/tagparser/v2 v2.0.0 // indirect
)

replace github.com/olric-data/olric => /repo
