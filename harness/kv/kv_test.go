// Package kv drives the real internal/kvstore through programs and records, for TLC, what the
// storage.Engine interface answers (KVStoreTrace.tla validates it against KVStoreAbs).
//
// Programs come from three sources: operation paths exported by TLC from KVStore.tla (one per
// distinct model state), seeded random programs, and long churn programs.
package kv

import (
	"bufio"
	"crypto/sha1"
	"encoding/json"
	"errors"
	"fmt"
	"io"
	"math/rand"
	"os"
	"path/filepath"
	"regexp"
	"sort"
	"strconv"
	"strings"
	"testing"
	"time"

	"github.com/olric-data/olric/internal/kvstore"
	"github.com/olric-data/olric/internal/kvstore/entry"
	"github.com/olric-data/olric/pkg/storage"
	"github.com/olric-data/olric/verifharness/trace"
)

type op struct {
	Op string `json:"op"`
	K  string `json:"k,omitempty"`
	Sz int    `json:"sz,omitempty"`
}

type program struct {
	Src      string   `json:"src"`
	T        int      `json:"T"`
	IdleMs   int      `json:"idle"`
	Keys     []string `json:"keys"`
	Ops      []op     `json:"ops"`
	ObsEvery int      `json:"obs_every"`
	Pattern  string   `json:"pattern"`
	DstT     int      `json:"dst_T"` // table size of the store that receives transferred tables (0: 1 MiB); a small one refuses large entries
	Walk     int      `json:"walk"`  // > 0: a cursor walk with this COUNT is under way all the time, one page after every operation
}

const minEntry = 38 // 29 bytes of metadata + 1 byte key + 8 bytes carrying the value id

func hkeyOf(k string) uint64 {
	var h uint64 = 1469598103934665603
	for i := 0; i < len(k); i++ {
		h ^= uint64(k[i])
		h *= 1099511628211
	}
	return h
}

func valueFor(id, n int) []byte {
	if n < 0 {
		n = 0
	}
	pat := fmt.Sprintf("%08d", id)
	b := make([]byte, n)
	for i := range b {
		b[i] = pat[i%8]
	}
	return b
}

// idOf recovers the value id; -1 if the bytes are not an intact value written by valueFor.
func idOf(v []byte) int {
	if len(v) < 8 {
		return -1
	}
	id, err := strconv.Atoi(string(v[:8]))
	if err != nil {
		return -1
	}
	w := valueFor(id, len(v))
	if string(w) != string(v) {
		return -1
	}
	return id
}

func newStore(T int, idle time.Duration) (storage.Engine, error) {
	c := storage.NewConfig(nil)
	c.Add("tableSize", uint64(T))
	c.Add("maxIdleTableTimeout", idle)
	parent, err := kvstore.New(c)
	if err != nil {
		return nil, err
	}
	// this is how a DMap fragment obtains its store (dmap.newFragment)
	child, err := parent.Fork(nil)
	if err != nil {
		return nil, err
	}
	if err := child.Start(); err != nil {
		return nil, err
	}
	return child, nil
}

type runner struct {
	w        *trace.Writer
	nextID   int
	evals    int
	nontriv  map[string]bool
	distinct map[string]bool
	samples  []any
	wedged   []string
	abort    bool // a storage call never returned: its goroutine still runs, stop here
}

func errName(err error) string {
	switch {
	case err == nil:
		return "ok"
	case errors.Is(err, storage.ErrEntryTooLarge):
		return "toolarge"
	case errors.Is(err, storage.ErrKeyTooLarge):
		return "keytoolarge"
	case errors.Is(err, storage.ErrKeyNotFound):
		return "nf"
	case errors.Is(err, io.EOF):
		return "eof"
	}
	return "other:" + err.Error()
}

// call runs f under a watchdog: a storage call that does not return (D6: an entry exactly as
// large as a table makes Put allocate tables forever) is reported as "hang" and the store is
// abandoned.
func call(f func() error) (err error, hung bool) {
	done := make(chan error, 1)
	go func() {
		defer func() {
			if r := recover(); r != nil {
				done <- fmt.Errorf("panic: %v", r)
			}
		}()
		done <- f()
	}()
	select {
	case err = <-done:
		return err, false
	case <-time.After(300 * time.Millisecond):
		return nil, true
	}
}

func (r *runner) observe(p *program, s, dst storage.Engine, hk map[uint64]string) {
	var get []trace.Ev
	for _, k := range p.Keys {
		h := hkeyOf(k)
		g := trace.Ev{"k": k, "id": 0, "ttl": 0, "ts": 0, "sz": 0, "key": "", "ttl2": 0, "key2": "", "rawid": 0}
		g["chk"] = s.Check(h)
		e, err := s.Get(h)
		if err == nil {
			g["id"] = idOf(e.Value())
			g["ttl"] = int(e.TTL())
			g["ts"] = int(e.Timestamp())
			g["sz"] = 29 + len(e.Key()) + len(e.Value())
			g["key"] = e.Key()
			if ttl, err := s.GetTTL(h); err == nil {
				g["ttl2"] = int(ttl)
			} else {
				g["ttl2"] = -1
			}
			if key, err := s.GetKey(h); err == nil {
				g["key2"] = key
			} else {
				g["key2"] = "?" + errName(err)
			}
			if raw, err := s.GetRaw(h); err == nil {
				d := entry.New()
				d.Decode(raw)
				g["rawid"] = idOf(d.Value())
			} else {
				g["rawid"] = -1
			}
		} else if !errors.Is(err, storage.ErrKeyNotFound) {
			g["id"] = -2
		}
		get = append(get, g)
	}
	var dget []trace.Ev
	for _, k := range p.Keys {
		g := trace.Ev{"k": k, "id": 0, "ttl": 0, "ts": 0}
		if e, err := dst.Get(hkeyOf(k)); err == nil {
			g["id"] = idOf(e.Value())
			g["ttl"] = int(e.TTL())
			g["ts"] = int(e.Timestamp())
		}
		dget = append(dget, g)
	}
	rng := []string{}
	s.Range(func(h uint64, e storage.Entry) bool {
		rng = append(rng, e.Key())
		return true
	})
	rngh := []string{}
	s.RangeHKey(func(h uint64) bool {
		if k, ok := hk[h]; ok {
			rngh = append(rngh, k)
		} else {
			rngh = append(rngh, fmt.Sprintf("?%d", h))
		}
		return true
	})
	st := s.Stats()
	var scans []trace.Ev
	var re *regexp.Regexp
	want := []string{}
	if p.Pattern != "" {
		re = regexp.MustCompile(p.Pattern)
		for _, k := range p.Keys {
			if re.MatchString(k) {
				want = append(want, k)
			}
		}
	}
	for _, cnt := range []int{1, 2, 10} {
		for _, pat := range []string{"", p.Pattern} {
			if pat == "" && re != nil && cnt == 2 {
				// keep the line short: the unfiltered walk with COUNT 2 is covered by 1 and 10
			}
			if pat != "" && cnt == 2 {
				continue
			}
			if pat == "" || re != nil {
				keys := []string{}
				cursor := uint64(0)
				calls := 0
				fin := false
				limit := 4*(len(p.Keys)+st.NumTables) + 50
				for calls < limit {
					var err error
					f := func(e storage.Entry) bool {
						keys = append(keys, e.Key())
						return true
					}
					if pat == "" {
						cursor, err = s.Scan(cursor, cnt, f)
					} else {
						cursor, err = s.ScanRegexMatch(cursor, pat, cnt, f)
					}
					calls++
					if err != nil {
						break
					}
					if cursor == 0 {
						fin = true
						break
					}
				}
				w := []string{}
				if pat != "" {
					w = want
				}
				scans = append(scans, trace.Ev{"c": cnt, "pat": pat, "keys": keys, "fin": fin, "calls": calls, "want": w})
			}
		}
	}
	r.w.Emit(trace.Ev{"t": "obs", "get": get, "dst": dget, "range": rng, "rangeh": rngh,
		"stats": trace.Ev{"allocated": st.Allocated, "inuse": st.Inuse, "garbage": st.Garbage, "length": st.Length, "numtables": st.NumTables},
		"scan":  scans})
}

// run executes one program on a fresh store and writes its trace.  It returns false when the
// store wedged (the trace then ends with the event that reports it).
func (r *runner) run(p *program, seq int) {
	idle := time.Duration(p.IdleMs) * time.Millisecond
	s, err := newStore(p.T, idle)
	if err != nil {
		panic(err)
	}
	dstT := 1 << 20
	if p.DstT > 0 {
		dstT = p.DstT
	}
	dst, err := newStore(dstT, time.Hour)
	if err != nil {
		panic(err)
	}
	hk := map[uint64]string{}
	maxe := minEntry
	for _, k := range p.Keys {
		hk[hkeyOf(k)] = k
	}
	for _, o := range p.Ops {
		if o.Sz > maxe && o.Sz < p.T {
			maxe = o.Sz
		}
	}
	r.w.Emit(trace.Ev{"t": "reset", "seq": seq, "T": p.T, "idle": p.IdleMs, "keys": p.Keys, "maxe": maxe, "src": p.Src})
	r.observe(p, s, dst, hk)
	obsEvery := p.ObsEvery
	if obsEvery <= 0 {
		obsEvery = 1
	}
	maxTables, moved := 1, false
	// a cursor walk that is interleaved with the program: one page after every operation; when it ends the next begins.
	// The trace specification knows which keys were present all the time (wbegin / wend events).
	var wkeys []string
	wcursor, wcalls, walking := uint64(0), 0, false
	wpage := func(final bool) {
		if p.Walk <= 0 {
			return
		}
		for {
			if !walking {
				if final {
					return
				}
				r.w.Emit(trace.Ev{"t": "wbegin", "c": p.Walk})
				wkeys, wcursor, wcalls, walking = []string{}, 0, 0, true
			}
			var err error
			wcursor, err = s.Scan(wcursor, p.Walk, func(e storage.Entry) bool {
				wkeys = append(wkeys, e.Key())
				return true
			})
			wcalls++
			limit := 4*(len(p.Keys)+maxTables) + 50 + 2*len(p.Ops)
			if err != nil || wcursor == 0 || wcalls > limit {
				r.w.Emit(trace.Ev{"t": "wend", "keys": wkeys, "fin": err == nil && wcursor == 0, "calls": wcalls, "err": errName(err)})
				walking = false
				r.evals++
			}
			if !final || !walking {
				return
			}
		}
	}
	for n, o := range p.Ops {
		r.evals++
		switch o.Op {
		case "put", "putraw":
			r.nextID++
			id := r.nextID
			e := entry.New()
			e.SetKey(o.K)
			e.SetValue(valueFor(id, o.Sz-29-len(o.K)))
			e.SetTTL(0)
			e.SetTimestamp(int64(id))
			sz := 29 + len(o.K) + len(e.Value())
			err, hung := call(func() error {
				if o.Op == "put" {
					return s.Put(hkeyOf(o.K), e)
				}
				return s.PutRaw(hkeyOf(o.K), e.Encode())
			})
			name := errName(err)
			if hung {
				name = "hang"
			}
			r.w.Emit(trace.Ev{"t": "put", "k": o.K, "klen": len(o.K), "id": id, "sz": sz, "raw": o.Op == "putraw", "ttl": 0, "ts": id, "err": name})
			if hung {
				r.wedged = append(r.wedged, fmt.Sprintf("seq %d op %d: %s never returned", seq, n, o.Op))
				r.abort = true
				return
			}
		case "del":
			err := s.Delete(hkeyOf(o.K))
			r.w.Emit(trace.Ev{"t": "del", "k": o.K, "err": errName(err)})
		case "uttl":
			r.nextID++
			id := r.nextID
			e := entry.New()
			e.SetTTL(int64(id))
			e.SetTimestamp(int64(id))
			err := s.UpdateTTL(hkeyOf(o.K), e)
			r.w.Emit(trace.Ev{"t": "uttl", "k": o.K, "ttl": id, "ts": id, "err": errName(err)})
		case "compact":
			before := s.Stats()
			done, err := s.Compaction()
			if !done {
				moved = true
			}
			r.w.Emit(trace.Ev{"t": "compact", "done": done, "err": errName(err), "ntab": before.NumTables, "len": before.Length})
		case "compactall":
			// run compaction to completion, as the DMap's compaction worker does
			st0 := s.Stats()
			// the specification's bound is tables + entries/1000 + 2 calls; a few more are
			// logged so that TLC sees the bound exceeded, then the loop gives up
			limit := st0.NumTables + st0.Length/1000 + 12
			for j := 0; j < limit; j++ {
				before := s.Stats()
				done, err := s.Compaction()
				r.w.Emit(trace.Ev{"t": "compact", "done": done, "err": errName(err), "ntab": before.NumTables, "len": before.Length})
				if !done {
					moved = true
				}
				if done || err != nil {
					break
				}
			}
		case "xfer":
			it := s.TransferIterator()
			arr := []trace.Ev{}
			name := "ok"
			if !it.Next() {
				name = "eof"
			} else {
				data, index, err := it.Export()
				if err != nil {
					name = errName(err)
				} else {
					// dmap.fragmentMergeFunction
					merge := func(h uint64, e storage.Entry) error {
						cur, err := dst.Get(h)
						if errors.Is(err, storage.ErrKeyNotFound) {
							return dst.Put(h, e)
						}
						if err != nil {
							return err
						}
						if cur.Timestamp() > e.Timestamp() {
							return nil
						}
						return dst.Put(h, e)
					}
					err = dst.Import(data, func(h uint64, e storage.Entry) error {
						err := merge(h, e)
						// "ok": the receiver has stored (or already held a newer version of) this entry
						arr = append(arr, trace.Ev{"k": e.Key(), "id": idOf(e.Value()), "ttl": int(e.TTL()), "ts": int(e.Timestamp()), "ok": err == nil})
						return err
					})
					if err != nil {
						name = errName(err)
					} else if err := it.Drop(index); err != nil {
						name = errName(err)
					}
				}
			}
			r.w.Emit(trace.Ev{"t": "xfer", "arr": arr, "err": name})
		default:
			panic("unknown op " + o.Op)
		}
		if st := s.Stats(); st.NumTables > maxTables {
			maxTables = st.NumTables
		}
		wpage(false)
		if (n+1)%obsEvery == 0 || n == len(p.Ops)-1 || o.Op == "compactall" {
			r.observe(p, s, dst, hk)
		}
	}
	wpage(true) // the walk that is under way is brought to its end
	b, _ := json.Marshal(p.Ops)
	key := fmt.Sprintf("%d/%x", p.T, sha1.Sum(b))
	if !r.distinct[key] {
		r.distinct[key] = true
		if maxTables >= 2 || moved {
			r.nontriv[key] = true
		}
	}
	if len(r.samples) < 3 && (maxTables >= 2 || moved) && len(p.Ops) <= 12 {
		r.samples = append(r.samples, p)
	}
}

func keysN(n int) []string {
	ks := make([]string, n)
	for i := range ks {
		ks[i] = string(rune('a'+i%26)) + strings.Repeat("x", i/26)
	}
	return ks
}

func randomProgram(rng *rand.Rand, n int) *program {
	Ts := []int{200, 200, 1024, 65536}
	T := Ts[rng.Intn(len(Ts))]
	nk := 3 + rng.Intn(10)
	keys := keysN(nk)
	p := &program{Src: "random", T: T, IdleMs: []int{0, 3600000}[rng.Intn(2)], Keys: keys, Pattern: "^[abc]"}
	if rng.Intn(3) == 0 {
		p.Walk = []int{1, 2, 3, 10}[rng.Intn(4)]
	}
	if T >= 1024 && rng.Intn(3) == 0 {
		// the receiver of transferred tables has smaller tables than the sender: it cannot store the larger entries, the
		// import must fail and the sender must keep its table
		p.DstT = 200
	}
	maxSz := T - 1
	if maxSz > 400 {
		maxSz = 400
	}
	for i := 0; i < n; i++ {
		k := keys[rng.Intn(nk)]
		x := rng.Intn(100)
		switch {
		case x < 35:
			p.Ops = append(p.Ops, op{Op: "put", K: k, Sz: minEntry + len(k) + rng.Intn(maxSz-minEntry-len(k)+1)})
		case x < 45:
			p.Ops = append(p.Ops, op{Op: "putraw", K: k, Sz: minEntry + len(k) + rng.Intn(maxSz-minEntry-len(k)+1)})
		case x < 48 && T <= 1024:
			// boundary sizes: T-1 fits an empty table, T and T+1 never fit
			p.Ops = append(p.Ops, op{Op: []string{"put", "putraw"}[rng.Intn(2)], K: k, Sz: T - 1 + rng.Intn(3)})
		case x < 68:
			p.Ops = append(p.Ops, op{Op: "del", K: k})
		case x < 75:
			p.Ops = append(p.Ops, op{Op: "uttl", K: k})
		case x < 90:
			p.Ops = append(p.Ops, op{Op: "compact"})
		case x < 93:
			p.Ops = append(p.Ops, op{Op: "compactall"})
		default:
			p.Ops = append(p.Ops, op{Op: "xfer"})
		}
	}
	return p
}

// churnProgram keeps overwriting and deleting a fixed key set, with compaction run to completion
// every so often and ten times at the end (C20).
func churnProgram(rng *rand.Rand, n int, big bool, variant int) *program {
	// the variants cycle through small/large tables x uniform/skewed key choice, so that a handful of programs covers all four
	T := []int{1024, 65536, 1024, 1024, 65536, 1024, 65536, 1024}[variant%8]
	nk := 4 + rng.Intn(61)
	if big {
		T, nk = 65536, 2500
	}
	keys := keysN(nk)
	p := &program{Src: "churn", T: T, IdleMs: 0, Keys: keys, ObsEvery: 97, Pattern: "^[abc]"}
	if !big {
		// half of the churn programs have a cursor walk under way all the time: tables are emptied and recycled between its pages
		p.Walk = []int{0, 3, 0, 1, 10, 0, 2, 0}[variant%8]
	}
	if !big && []bool{true, false, false, false, true, true, false, false}[variant%8] {
		// recycled tables are kept for an hour (the default is 15 minutes): they have to be re-used, not piled up
		p.IdleMs = 3600000
	}
	if big {
		p.ObsEvery = 2500
	}
	maxSz := T / 4
	if maxSz > 300 {
		maxSz = 300
	}
	raw := []bool{false, true, true, false, true, false, false, true}[variant%8] // a backup fragment receives raw entries only
	round := 150 + rng.Intn(200)
	if big {
		round = 4000
	}
	// every second program is skewed: all keys are written once, then only a hot third of them is churned, so that the
	// oldest tables stay full of live, never rewritten entries while tables behind them are emptied, recycled and re-used
	hot := nk
	if !big && []bool{true, false, false, true, true, false, false, true}[variant%8] {
		hot = 1 + nk/3
		for _, k := range keys {
			o := "put"
			if raw {
				o = "putraw"
			}
			p.Ops = append(p.Ops, op{Op: o, K: k, Sz: minEntry + len(k) + rng.Intn(maxSz/2-minEntry-len(k)+1)})
		}
	}
	for i := 0; i < n; i++ {
		k := keys[nk-1-rng.Intn(hot)]
		x := rng.Intn(100)
		switch {
		case x < 65:
			o := "put"
			if raw {
				o = "putraw"
			}
			p.Ops = append(p.Ops, op{Op: o, K: k, Sz: minEntry + len(k) + rng.Intn(maxSz-minEntry-len(k)+1)})
		case x < 92:
			p.Ops = append(p.Ops, op{Op: "del", K: k})
		default:
			p.Ops = append(p.Ops, op{Op: "uttl", K: k})
		}
		if (i+1)%round == 0 {
			p.Ops = append(p.Ops, op{Op: "compactall"})
		}
	}
	for i := 0; i < 10; i++ {
		p.Ops = append(p.Ops, op{Op: "compactall"})
	}
	return p
}

// manyProgram fills tables with well over a thousand small live entries each (compaction moves at most a thousand entries per
// step), deletes every second key and compacts: nothing that was not deleted may disappear.
func manyProgram(rng *rand.Rand) *program {
	// short keys, so that an entry takes about 40 bytes and a table of 128 KiB holds some 3200 of them; with 45 % of them
	// deleted a table is over the garbage threshold and still holds some 1750 live entries
	keys := make([]string, 6400)
	for i := range keys {
		keys[i] = string([]byte{byte('a' + i%26), byte('a' + (i/26)%26), byte('a' + i/676)})
	}
	p := &program{Src: "many", T: 131072, IdleMs: 0, Keys: keys, ObsEvery: 100000, Pattern: "^[abc]"}
	raw := rng.Intn(2) == 0
	o := "put"
	if raw {
		o = "putraw"
	}
	for _, k := range keys {
		p.Ops = append(p.Ops, op{Op: o, K: k, Sz: minEntry + len(k)})
	}
	for i, k := range keys {
		if i%20 < 9 {
			p.Ops = append(p.Ops, op{Op: "del", K: k})
		}
	}
	p.Ops = append(p.Ops, op{Op: "compactall"}, op{Op: "compactall"})
	for i := 0; i < 300; i++ {
		k := keys[rng.Intn(len(keys))]
		p.Ops = append(p.Ops, op{Op: o, K: k, Sz: minEntry + len(k) + 6})
	}
	p.Ops = append(p.Ops, op{Op: "compactall"})
	return p
}

// mixedProgram alternates tiny and nearly table-sized entries: tables are sealed almost empty (the next entry did not fit), and
// their few entries die with the next overwrite.  A table without live entries must not survive a completed compaction.
func mixedProgram(rng *rand.Rand, rounds int) *program {
	keys := keysN(4)
	T := 4096
	p := &program{Src: "mixed", T: T, IdleMs: 0, Keys: keys, ObsEvery: 5, Pattern: "^[abc]"}
	raw := rng.Intn(2) == 0
	o := "put"
	if raw {
		o = "putraw"
	}
	for i := 0; i < rounds; i++ {
		p.Ops = append(p.Ops, op{Op: o, K: keys[rng.Intn(2)], Sz: 100 + rng.Intn(60)})
		p.Ops = append(p.Ops, op{Op: o, K: keys[2+rng.Intn(2)], Sz: T - 150 - rng.Intn(400)})
		if rng.Intn(4) == 0 {
			p.Ops = append(p.Ops, op{Op: "del", K: keys[rng.Intn(4)]})
		}
		p.Ops = append(p.Ops, op{Op: "compactall"})
	}
	return p
}

// keylenProgram uses keys at the limit of what a table can represent (the key length is stored in one byte): a key is either
// refused or stored and read back like any other.
func keylenProgram(rng *rand.Rand, n int) *program {
	keys := []string{"a", "b" + strings.Repeat("k", 253), "c" + strings.Repeat("l", 254), "a" + strings.Repeat("m", 255), "b" + strings.Repeat("n", 299)}
	T := []int{4096, 65536}[rng.Intn(2)]
	p := &program{Src: "keylen", T: T, IdleMs: 0, Keys: keys, ObsEvery: 1, Pattern: "^[abc]"}
	for i := 0; i < n; i++ {
		k := keys[rng.Intn(len(keys))]
		switch x := rng.Intn(20); {
		case x < 10:
			p.Ops = append(p.Ops, op{Op: "put", K: k, Sz: minEntry + len(k) + rng.Intn(300)})
		case x < 13:
			p.Ops = append(p.Ops, op{Op: "del", K: k})
		case x < 15:
			p.Ops = append(p.Ops, op{Op: "uttl", K: k})
		case x < 18:
			p.Ops = append(p.Ops, op{Op: "compactall"})
		default:
			p.Ops = append(p.Ops, op{Op: "xfer"})
		}
	}
	return p
}

// largeProgram uses the default table size (1 MiB) and entries of tens to hundreds of KiB: what compaction moves in one
// step, and what fits a table, is counted in bytes as well as in entries.
func largeProgram(rng *rand.Rand, n int) *program {
	keys := keysN(8)
	p := &program{Src: "large", T: 1 << 20, IdleMs: 0, Keys: keys, ObsEvery: 7, Pattern: "^[abc]"}
	sizes := []int{40 << 10, 150 << 10, 200 << 10, 300 << 10, 520 << 10}
	raw := rng.Intn(2) == 0
	for i := 0; i < n; i++ {
		k := keys[rng.Intn(len(keys))]
		switch x := rng.Intn(10); {
		case x < 6:
			o := "put"
			if raw {
				o = "putraw"
			}
			p.Ops = append(p.Ops, op{Op: o, K: k, Sz: sizes[rng.Intn(len(sizes))] + rng.Intn(1000)})
		default:
			p.Ops = append(p.Ops, op{Op: "del", K: k})
		}
		if (i+1)%9 == 0 {
			p.Ops = append(p.Ops, op{Op: "compactall"})
		}
	}
	p.Ops = append(p.Ops, op{Op: "compactall"}, op{Op: "compactall"})
	return p
}

func loadBehaviours(path string, T int) ([]*program, error) {
	f, err := os.Open(path)
	if err != nil {
		return nil, err
	}
	defer f.Close()
	var out []*program
	sc := bufio.NewScanner(f)
	sc.Buffer(make([]byte, 1<<20), 1<<24)
	for sc.Scan() {
		line := strings.TrimSpace(sc.Text())
		if line == "" {
			continue
		}
		var ops []op
		if err := json.Unmarshal([]byte(line), &ops); err != nil {
			return nil, fmt.Errorf("behaviour %q: %w", line, err)
		}
		ks := map[string]bool{"a": true, "b": true, "c": true}
		for _, o := range ops {
			if o.K != "" {
				ks[o.K] = true
			}
		}
		var keys []string
		for k := range ks {
			keys = append(keys, k)
		}
		sort.Strings(keys)
		out = append(out, &program{Src: "tlc", T: T, IdleMs: 0, Keys: keys, Ops: ops, Pattern: "^[ab]"})
	}
	return out, sc.Err()
}

func envInt(name string, def int) int {
	if v := os.Getenv(name); v != "" {
		if n, err := strconv.Atoi(v); err == nil {
			return n
		}
	}
	return def
}

// TestKV is the driver entry point.  VERIF_OUT: output directory; VERIF_BEH: behaviours exported
// by TLC (optional); VERIF_KV_RANDOM / VERIF_KV_RANDOM_LEN / VERIF_KV_CHURN / VERIF_KV_CHURN_LEN /
// VERIF_KV_BIG: numbers of generated programs; VERIF_SEED.
func TestKV(t *testing.T) {
	out := os.Getenv("VERIF_OUT")
	if out == "" {
		t.Skip("VERIF_OUT not set")
	}
	seed := int64(envInt("VERIF_SEED", 1))
	rng := rand.New(rand.NewSource(seed))
	w, err := trace.New(filepath.Join(out, "kv.ndjson"))
	if err != nil {
		t.Fatal(err)
	}
	r := &runner{w: w, nontriv: map[string]bool{}, distinct: map[string]bool{}}
	var progs []*program
	if beh := os.Getenv("VERIF_BEH"); beh != "" {
		ps, err := loadBehaviours(beh, envInt("VERIF_KV_T", 200))
		if err != nil {
			t.Fatal(err)
		}
		progs = append(progs, ps...)
	}
	nbeh := len(progs)
	for i := 0; i < envInt("VERIF_KV_RANDOM", 0); i++ {
		progs = append(progs, randomProgram(rng, envInt("VERIF_KV_RANDOM_LEN", 120)))
	}
	for i := 0; i < envInt("VERIF_KV_CHURN", 0); i++ {
		progs = append(progs, churnProgram(rng, envInt("VERIF_KV_CHURN_LEN", 3000), false, i))
	}
	for i := 0; i < envInt("VERIF_KV_MANY", 0); i++ {
		progs = append(progs, manyProgram(rng))
	}
	for i := 0; i < envInt("VERIF_KV_MIXED", 0); i++ {
		progs = append(progs, mixedProgram(rng, 60))
	}
	for i := 0; i < envInt("VERIF_KV_KEYLEN", 0); i++ {
		progs = append(progs, keylenProgram(rng, 40))
	}
	for i := 0; i < envInt("VERIF_KV_LARGE", 0); i++ {
		progs = append(progs, largeProgram(rng, 60))
	}
	for i := 0; i < envInt("VERIF_KV_BIG", 0); i++ {
		progs = append(progs, churnProgram(rng, 20000, true, i))
	}
	for i, p := range progs {
		r.run(p, i+1)
		if r.abort {
			break
		}
	}
	if err := w.Close(); err != nil {
		t.Fatal(err)
	}
	sum := map[string]any{
		"programs": len(progs), "from_tlc": nbeh, "evaluations": r.evals, "distinct": len(r.distinct),
		"distinct_nontrivial": len(r.nontriv), "samples": r.samples, "lines": w.Lines, "wedged": r.wedged,
	}
	b, _ := json.MarshalIndent(sum, "", " ")
	if err := os.WriteFile(filepath.Join(out, "kv.summary.json"), b, 0o644); err != nil {
		t.Fatal(err)
	}
}
