//go:build verif

// Package proto sends request vectors and raw byte streams to a real olric member that runs in a
// child process (the test binary re-executes itself), so that a crash is a real process exit and a
// wedged handler a really unanswered connection.  Outcomes are validated by ProtocolTrace.tla.
package proto

import (
	"bufio"
	"context"
	"encoding/json"
	"fmt"
	"io"
	"math/rand"
	"net"
	"os"
	"os/exec"
	"path/filepath"
	"strconv"
	"strings"
	"sync"
	"testing"
	"time"

	"github.com/olric-data/olric/internal/cluster/partitions"
	"github.com/olric-data/olric/internal/kvstore"
	"github.com/olric-data/olric/internal/kvstore/entry"
	"github.com/olric-data/olric/pkg/storage"
	"github.com/olric-data/olric/verifharness/cluster"
	"github.com/olric-data/olric/verifharness/trace"
	"github.com/vmihailenco/msgpack/v5"
)

func envInt(name string, def int) int {
	if v := os.Getenv(name); v != "" {
		if n, err := strconv.Atoi(v); err == nil {
			return n
		}
	}
	return def
}

// TestChildMember is the child: a two-member cluster inside this process; prints the addresses and
// serves until stdin is closed.
func TestChildMember(t *testing.T) {
	if os.Getenv("VERIF_CHILD") == "" {
		t.Skip("not a child")
	}
	c, err := cluster.Start(cluster.Options{Replicas: 2, Partitions: 7, Manual: true}, 2)
	if err != nil {
		fmt.Println("CHILD-ERROR", err)
		os.Exit(3)
	}
	// some data so that reads, scans and moves have something to chew on
	dm, _ := c.Members[0].DB.NewEmbeddedClient().NewDMap("d")
	for i := 0; i < 200; i++ {
		dm.Put(context.Background(), fmt.Sprintf("k%d", i), "v") // every partition of every member holds a fragment of "d"
	}
	// the id of the coordinator: internal.node.updaterouting looks at its table only when the request names it
	coord := uint64(0)
	if ms, err := c.Members[0].DB.NewEmbeddedClient().Members(context.Background()); err == nil {
		for _, m := range ms {
			if m.Coordinator {
				coord = m.ID
			}
		}
	}
	fmt.Printf("READY %s %s\n", c.Members[0].Name, c.Members[1].Name)
	fmt.Printf("COORD %d\n", coord)
	io.Copy(io.Discard, os.Stdin)
	os.Exit(0)
}

type child struct {
	cmd    *exec.Cmd
	stdin  io.WriteCloser
	addrs  []string
	coord  string // id of the coordinator, substituted for the token "@COORD"
	exited chan struct{}
	out    *strings.Builder
	mu     sync.Mutex
}

func startChild() (*child, error) {
	cmd := exec.Command(os.Args[0], "-test.run", "^TestChildMember$", "-test.timeout", "60m")
	cmd.Env = append(os.Environ(), "VERIF_CHILD=1")
	stdin, err := cmd.StdinPipe()
	if err != nil {
		return nil, err
	}
	stdout, err := cmd.StdoutPipe()
	if err != nil {
		return nil, err
	}
	ch := &child{cmd: cmd, stdin: stdin, exited: make(chan struct{}), out: &strings.Builder{}}
	cmd.Stderr = &lockedWriter{ch}
	if err := cmd.Start(); err != nil {
		return nil, err
	}
	ready := make(chan error, 1)
	go func() {
		sc := bufio.NewScanner(stdout)
		got := false
		for sc.Scan() {
			line := sc.Text()
			if strings.HasPrefix(line, "READY ") && !got {
				ch.addrs = strings.Fields(line)[1:]
			} else if strings.HasPrefix(line, "COORD ") && !got {
				ch.coord = strings.TrimPrefix(line, "COORD ")
				got = true
				ready <- nil
			} else if strings.HasPrefix(line, "CHILD-ERROR") {
				ready <- fmt.Errorf("%s", line)
			} else {
				ch.mu.Lock()
				ch.out.WriteString(line + "\n")
				ch.mu.Unlock()
			}
		}
		if !got {
			ready <- fmt.Errorf("child ended before it was ready")
		}
	}()
	go func() { cmd.Wait(); close(ch.exited) }()
	select {
	case err := <-ready:
		if err != nil {
			return nil, err
		}
	case <-time.After(20 * time.Second):
		cmd.Process.Kill()
		return nil, fmt.Errorf("child did not become ready")
	}
	return ch, nil
}

type lockedWriter struct{ c *child }

func (l *lockedWriter) Write(p []byte) (int, error) {
	l.c.mu.Lock()
	defer l.c.mu.Unlock()
	if l.c.out.Len() < 1<<16 {
		l.c.out.Write(p)
	}
	return len(p), nil
}

func (c *child) dead() bool {
	select {
	case <-c.exited:
		return true
	default:
		return false
	}
}

func (c *child) stop() {
	c.stdin.Close()
	select {
	case <-c.exited:
	case <-time.After(3 * time.Second):
		c.cmd.Process.Kill()
		select {
		case <-c.exited:
		case <-time.After(3 * time.Second):
		}
	}
}

func frame(args []string) []byte {
	var sb strings.Builder
	fmt.Fprintf(&sb, "*%d\r\n", len(args))
	for _, a := range args {
		fmt.Fprintf(&sb, "$%d\r\n%s\r\n", len(a), a)
	}
	return []byte(sb.String())
}

// readReply reads one RESP reply and classifies it: reply / error; closed / timeout on failure.
func readReply(r *bufio.Reader, c net.Conn, d time.Duration) string {
	c.SetReadDeadline(time.Now().Add(d))
	var rd func(depth int) (string, error)
	rd = func(depth int) (string, error) {
		line, err := r.ReadString('\n')
		if err != nil {
			return "", err
		}
		if len(line) < 3 {
			return "", fmt.Errorf("short line")
		}
		switch line[0] {
		case '+', ':':
			return "reply", nil
		case '-':
			return "error", nil
		case '$':
			n, err := strconv.Atoi(strings.TrimSpace(line[1:]))
			if err != nil {
				return "", err
			}
			if n >= 0 {
				buf := make([]byte, n+2)
				if _, err := io.ReadFull(r, buf); err != nil {
					return "", err
				}
			}
			return "reply", nil
		case '*':
			n, err := strconv.Atoi(strings.TrimSpace(line[1:]))
			if err != nil {
				return "", err
			}
			for i := 0; i < n; i++ {
				if _, err := rd(depth + 1); err != nil {
					return "", err
				}
			}
			return "reply", nil
		}
		return "", fmt.Errorf("bad reply")
	}
	out, err := rd(0)
	if err == nil {
		return out
	}
	if ne, ok := err.(net.Error); ok && ne.Timeout() {
		return "timeout"
	}
	return "closed"
}

func ping(addr string) bool {
	c, err := net.DialTimeout("tcp", addr, time.Second)
	if err != nil {
		return false
	}
	defer c.Close()
	c.SetWriteDeadline(time.Now().Add(time.Second))
	if _, err := c.Write(frame([]string{"ping"})); err != nil {
		return false
	}
	o := readReply(bufio.NewReader(c), c, 10*time.Second)
	return o == "reply"
}

// replenish writes keys into the DMap the vectors name, over a connection of its own: earlier vectors (DM.DESTROY, DM.DEL,
// fragment packs) empty it, and what a request does depends on whether the member holds data for it.
func replenish(addr string, round int) {
	c, err := net.DialTimeout("tcp", addr, time.Second)
	if err != nil {
		return
	}
	defer c.Close()
	r := bufio.NewReader(c)
	for i := 0; i < 40; i++ {
		c.SetWriteDeadline(time.Now().Add(time.Second))
		if _, err := c.Write(frame([]string{"dm.put", "d", fmt.Sprintf("k%d", (round*40+i)%240), "v"})); err != nil {
			return
		}
		if readReply(r, c, 2*time.Second) != "reply" {
			return
		}
	}
}

type vector struct {
	pre    [][]string // requests sent first on the same connection (they put it into a state, e.g. subscriber mode); one reply each
	args   []string
	raw    []byte // raw bytes instead of a framed command
	pubsub bool   // turns the connection into a pub/sub connection
}

type result struct {
	outcome string
	pingok  bool
	otherok bool
}

func (ch *child) send(v vector, member int) result {
	addr := ch.addrs[member%len(ch.addrs)]
	c, err := net.DialTimeout("tcp", addr, time.Second)
	if err != nil {
		if ch.dead() {
			return result{outcome: "crash"}
		}
		return result{outcome: "closed"}
	}
	defer c.Close()
	payload := v.raw
	if payload == nil {
		args := v.args
		for i, a := range args {
			if a == "@COORD" {
				args = append([]string{}, args...)
				args[i] = ch.coord
			}
		}
		payload = frame(args)
	}
	r := bufio.NewReader(c)
	for _, pre := range v.pre {
		c.SetWriteDeadline(time.Now().Add(2 * time.Second))
		c.Write(frame(pre))
		if o := readReply(r, c, 5*time.Second); o != "reply" && o != "error" {
			if ch.dead() {
				return result{outcome: "crash"}
			}
			return result{outcome: o}
		}
	}
	c.SetWriteDeadline(time.Now().Add(2 * time.Second))
	c.Write(payload)
	res := result{outcome: readReply(r, c, 1500*time.Millisecond)}
	if res.outcome == "timeout" && v.raw == nil && !v.pubsub && r.Buffered() == 0 && !ch.dead() {
		// nothing has arrived within the watchdog's 1.5 s.  A busy machine is not a wedged member: a framed request
		// gets another 20 s before it counts as unanswered (a request that really hangs costs that once)
		c.SetReadDeadline(time.Now().Add(20 * time.Second))
		if _, err := r.Peek(1); err == nil {
			res.outcome = readReply(r, c, 5*time.Second)
		}
	}
	if res.outcome == "closed" || res.outcome == "timeout" {
		time.Sleep(30 * time.Millisecond)
		if ch.dead() {
			res.outcome = "crash"
			return res
		}
	}
	if res.outcome == "reply" || res.outcome == "error" {
		if v.pubsub || v.raw != nil {
			res.pingok = true
		} else {
			c.SetWriteDeadline(time.Now().Add(time.Second))
			c.Write(frame([]string{"ping"}))
			res.pingok = readReply(r, c, 10*time.Second) == "reply"
		}
	}
	res.otherok = !ch.dead()
	return res
}

// ---------------------------------------------------------------- vector generation
var (
	numbers = []string{"", "0", "1", "-1", "1e400", "9223372036854775808", "abc", "0.01", "18446744073709551616", "-9223372036854775809", "NaN", "1.5"}
	partIDs = []string{"0", "6", "7", "8", "18446744073709551615", "-1", "x", ""}
	words   = []string{"EX", "ex", "PX", "px", "EXAT", "PXAT", "pxat", "NX", "XX", "nx", "MATCH", "COUNT", "RC", "match", "count", "rc", "RW", "FOO", "", "\x00\xff\r\n"}
	names   = []string{"d", "nosuch", "", "\x00\xff"}
	keys    = []string{"k1", "nokey", "", strings.Repeat("K", 300)}
)

type slot int

const (
	sD slot = iota // dmap name
	sK             // key
	sV             // value
	sN             // number
	sP             // partition id
	sT             // token / hex
	sW             // option word
	sX             // structured payload
)

type cmdSpec struct {
	name   string
	slots  []slot
	pubsub bool
}

// every command with the slot types of a long well-formed request (options repeated so that every prefix -
// "an option pair followed by a keyword without its value" included - is enumerated) and the valid token per slot
var commands = []cmdSpec{
	{"dm.put", []slot{sD, sK, sV, sW, sN, sW, sN, sW, sW}, false}, {"dm.get", []slot{sD, sK, sW}, false}, {"dm.del", []slot{sD, sK, sK}, false},
	{"dm.delentry", []slot{sD, sK, sW}, false}, {"dm.getentry", []slot{sD, sK, sW}, false}, {"dm.putentry", []slot{sD, sK, sX}, false},
	{"dm.expire", []slot{sD, sK, sN}, false}, {"dm.pexpire", []slot{sD, sK, sN}, false}, {"dm.destroy", []slot{sD, sW}, false},
	{"dm.scan", []slot{sP, sD, sN, sW, sN, sW, sN, sW, sW}, false}, {"dm.incr", []slot{sD, sK, sN}, false}, {"dm.decr", []slot{sD, sK, sN}, false},
	{"dm.getput", []slot{sD, sK, sV, sW}, false}, {"dm.incrbyfloat", []slot{sD, sK, sN}, false},
	{"dm.lock", []slot{sD, sK, sN, sW, sN, sW, sN, sW}, false}, {"dm.unlock", []slot{sD, sK, sT}, false},
	{"dm.locklease", []slot{sD, sK, sT, sN}, false}, {"dm.plocklease", []slot{sD, sK, sT, sN}, false},
	{"publish", []slot{sK, sV}, false}, {"publish.internal", []slot{sK, sV}, false},
	{"subscribe", []slot{sK, sK}, true}, {"psubscribe", []slot{sK, sK}, true},
	{"pubsub", []slot{sW, sK, sK}, false},
	{"internal.node.movefragment", []slot{sX}, false}, {"internal.node.updaterouting", []slot{sX, sN}, false},
	{"internal.node.lengthofpart", []slot{sP, sW}, false},
	{"ping", []slot{sV, sV}, false}, {"stats", []slot{sW, sW}, false}, {"cluster.routingtable", []slot{sW}, false}, {"cluster.members", []slot{sW}, false},
}

// validWord is the well-formed option keyword for the i-th option slot of a command.
func validWord(cmd string, nth int) string {
	switch strings.ToLower(cmd) {
	case "dm.put":
		return []string{"EX", "PX", "NX", "XX"}[nth%4]
	case "dm.lock":
		return []string{"EX", "PX", "EX"}[nth%3]
	case "dm.scan":
		return []string{"MATCH", "COUNT", "RC", "RC"}[nth%4]
	case "pubsub":
		return "numsub"
	case "dm.get", "dm.getput":
		return "RW"
	case "dm.delentry", "dm.getentry", "internal.node.lengthofpart":
		return "RC"
	case "dm.destroy":
		return "LOCAL"
	case "stats":
		return "CR"
	}
	return "FOO"
}

func fragmentPack(allocated uint64, partID uint64, name string) []byte {
	// a well-formed fragment pack whose table claims `allocated` bytes
	type pack struct {
		Offset, Allocated, Inuse, Garbage uint64
		RecycledAt                        int64
		State                             uint8
		HKeys                             map[uint64]uint64
		OffsetIndex                       []byte
		Memory                            []byte
	}
	c := storage.NewConfig(nil)
	c.Add("tableSize", uint64(1024))
	c.Add("maxIdleTableTimeout", time.Hour)
	kv, _ := kvstore.New(c)
	st, _ := kv.Fork(nil)
	e := entry.New()
	e.SetKey("mk")
	e.SetValue([]byte("mv"))
	e.SetTimestamp(time.Now().UnixNano())
	st.Put(uint64(123456789), e)
	data, _, _ := st.(*kvstore.KVStore).TransferIterator().Export()
	var p pack
	msgpack.Unmarshal(data, &p)
	p.Allocated = allocated
	payload, _ := msgpack.Marshal(p)
	type fp struct {
		PartID  uint64
		Kind    partitions.Kind
		Name    string
		Payload []byte
	}
	b, _ := msgpack.Marshal(fp{PartID: partID, Kind: partitions.PRIMARY, Name: name, Payload: payload})
	return b
}

func structured() []string {
	rt, _ := msgpack.Marshal(map[uint64]any{0: map[string]any{"Owners": []any{}, "Backups": []any{}}})
	return []string{"", "garbage", string(rt), string(fragmentPack(1024, 0, "d")), string(fragmentPack(1<<62, 0, "d")),
		string(fragmentPack(1024, 1<<40, "d")), string(fragmentPack(0, 0, "d"))}
}

var xs []string

// routingTables are payloads of internal.node.updaterouting that carry the right number of partitions (7) and must still
// be refused: the handler dereferences every route and every partition id once the coordinator id and the count match.
func routingTables() []string {
	member := map[string]any{"Name": "127.0.0.1:1", "NameHash": 1, "ID": 1, "Birthdate": 1}
	route := map[string]any{"Owners": []any{member}, "Backups": []any{}}
	mk := func(f func(i uint64) (uint64, any)) string {
		m := map[uint64]any{}
		for i := uint64(0); i < 7; i++ {
			k, v := f(i)
			m[k] = v
		}
		b, _ := msgpack.Marshal(m)
		return string(b)
	}
	return []string{
		mk(func(i uint64) (uint64, any) { return i, nil }),                                                      // no route
		mk(func(i uint64) (uint64, any) { return i + 100, route }),                                             // ids outside the table
		mk(func(i uint64) (uint64, any) { return i << 60, route }),                                             // huge ids
		mk(func(i uint64) (uint64, any) { return i, map[string]any{"Owners": []any{}, "Backups": []any{}} }), // nobody owns the partition
		mk(func(i uint64) (uint64, any) { return i, map[string]any{} }),
		mk(func(i uint64) (uint64, any) { return i, map[string]any{"Owners": nil, "Backups": nil} }),
		mk(func(i uint64) (uint64, any) {
			if i == 3 {
				return i, nil
			}
			return i, route
		}),
	}
}

func alphabet(s slot, lockKey *int) []string {
	switch s {
	case sD:
		return names
	case sK:
		return keys
	case sV:
		return []string{"v", "", "\x00\xff\r\n"}
	case sN:
		return numbers
	case sP:
		return partIDs
	case sT:
		return []string{"00ff", "zz", "", "6c6f636b"}
	case sW:
		return words
	case sX:
		return xs
	}
	return nil
}

func valid(s slot) string {
	switch s {
	case sD:
		return "d"
	case sK:
		return "k1"
	case sV:
		return "v"
	case sN:
		return "0"
	case sP:
		return "0"
	case sT:
		return "00ff"
	case sW:
		return "FOO"
	case sX:
		return xs[1]
	}
	return ""
}

// vectorsFor enumerates, for one command, every prefix of its slots with at most `maxAnom` positions
// set to each member of the position's alphabet (the others hold the valid token).
func vectorsFor(c cmdSpec, maxAnom int, uniq *int) []vector {
	var out []vector
	n := len(c.slots)
	for l := 0; l <= n; l++ {
		base := make([]string, l)
		nw := 0
		for i := 0; i < l; i++ {
			base[i] = valid(c.slots[i])
			if c.slots[i] == sW {
				base[i] = validWord(c.name, nw)
				nw++
			}
			if c.slots[i] == sN && i > 0 && c.slots[i-1] == sW {
				base[i] = "10" // an option's value
			}
		}
		var rec func(pos, anomalies int, cur []string)
		rec = func(pos, anomalies int, cur []string) {
			if pos == l {
				args := append([]string{c.name}, cur...)
				// a lock on a key somebody holds waits for its deadline: every lock vector gets a fresh key
				if strings.EqualFold(c.name, "dm.lock") && len(args) > 2 && len(args[2]) < 100 {
					*uniq++
					args[2] = fmt.Sprintf("lk%d%s", *uniq, args[2])
				}
				out = append(out, vector{args: args, pubsub: c.pubsub})
				if len(c.slots) > 0 && c.slots[0] == sP {
					// a request that addresses a partition goes to both members (consecutive vectors alternate between them):
					// what it does depends on whether the member holds a fragment of that partition
					out = append(out, vector{args: append([]string{}, args...), pubsub: c.pubsub})
				}
				return
			}
			rec(pos+1, anomalies, append(append([]string{}, cur...), base[pos]))
			if anomalies < maxAnom {
				for _, a := range alphabet(c.slots[pos], nil) {
					if a == base[pos] {
						continue
					}
					rec(pos+1, anomalies+1, append(append([]string{}, cur...), a))
				}
			}
		}
		rec(0, 0, nil)
	}
	return out
}

func classOf(a string) string {
	switch {
	case a == "":
		return "empty"
	case strings.ContainsAny(a, "\x00\xff\r\n"):
		return "bin"
	}
	if _, err := strconv.ParseFloat(a, 64); err == nil {
		return "num"
	}
	return "word"
}

// TestC16 is the driver.
func TestC16(t *testing.T) {
	out := os.Getenv("VERIF_OUT")
	if out == "" {
		t.Skip("VERIF_OUT not set")
	}
	rng := rand.New(rand.NewSource(int64(envInt("VERIF_SEED", 1))))
	maxAnom := envInt("VERIF_C16_ANOMALIES", 2)
	nrandom := envInt("VERIF_C16_RANDOM", 2000)
	nraw := envInt("VERIF_C16_RAW", 500)
	xs = structured()
	tw, err := trace.New(filepath.Join(out, "c16.ndjson"))
	if err != nil {
		t.Fatal(err)
	}
	uniq := 0
	var vs []vector
	for _, c := range commands {
		vs = append(vs, vectorsFor(c, maxAnom, &uniq)...)
		// the same command name in upper case
		up := c
		up.name = strings.ToUpper(c.name)
		vs = append(vs, vectorsFor(up, 0, &uniq)...)
	}
	// unknown commands and an empty command
	vs = append(vs, vector{args: []string{"nosuch"}}, vector{args: []string{""}}, vector{args: []string{"dm.nosuch", "d", "k"}},
		vector{args: []string{"pubsub"}}, vector{args: []string{"PUBSUB"}}, vector{args: []string{"pubsub", "nosuch"}})
	// a connection in subscriber mode: what (P)UNSUBSCRIBE, (P)SUBSCRIBE, PING, PUBLISH and anything else do there depends on
	// the subscriptions the connection holds
	for _, pre := range [][][]string{{{"subscribe", "news"}}, {{"psubscribe", "n*"}}, {{"subscribe", "news"}, {"psubscribe", "n*"}},
		{{"subscribe", "news"}, {"unsubscribe", "news"}}} {
		for _, cmd := range []string{"unsubscribe", "punsubscribe", "subscribe", "psubscribe", "UNSUBSCRIBE", "ping", "publish", "quit", "dm.get", "pubsub"} {
			for _, a := range [][]string{{}, {"news"}, {"other"}, {"n*"}, {""}, {"\x00\xff"}, {"news", "other"}, {"other", "other"}, {"numpat"}, {"d", "k1"}} {
				vs = append(vs, vector{pre: pre, args: append([]string{cmd}, a...), pubsub: true})
			}
		}
	}
	// a key that IS locked: what DM.LOCK does with its deadline (and DM.UNLOCK / leases with a wrong token) is decided in the
	// retry loop, which a free key never enters.  The request sent first on the connection makes sure somebody holds the key.
	// Only deadlines that are small or not numbers: waiting for a long deadline is what the command is for.
	holdKey := [][]string{{"dm.lock", "d", "held", "0.02"}}
	for _, n := range []string{"", "0", "-1", "-0.5", "abc", "NaN", "0.01", "0.3", "0.000000001", "1e-12", "0.0000000001", "-9223372036854775809", "1e-400"} {
		for _, cmd := range []string{"dm.lock", "DM.LOCK"} {
			vs = append(vs, vector{pre: holdKey, args: []string{cmd, "d", "held", n}},
				vector{pre: holdKey, args: []string{cmd, "d", "held", n, "PX", "10"}},
				vector{pre: holdKey, args: []string{cmd, "d", "held", n, "EX", "0.01"}},
				vector{pre: holdKey, args: []string{cmd, "d", "held", n, "px"}})
		}
		vs = append(vs, vector{pre: holdKey, args: []string{"dm.locklease", "d", "held", "00ff", n}},
			vector{pre: holdKey, args: []string{"dm.plocklease", "d", "held", "6c6f636b", n}})
	}
	for _, tok := range []string{"00ff", "zz", "", "6c6f636b"} {
		vs = append(vs, vector{pre: holdKey, args: []string{"dm.unlock", "d", "held", tok}})
	}
	for _, rt := range routingTables() {
		vs = append(vs, vector{args: []string{"internal.node.updaterouting", rt, "@COORD"}}, vector{args: []string{"INTERNAL.NODE.UPDATEROUTING", rt, "@COORD"}})
	}
	exhaustive := len(vs)
	// the order matters: a request may leave something behind (a stored entry, a subscription, a lock) that a later request
	// stumbles over.  The second half of the run repeats a seeded sample of the vectors in shuffled order.
	again := make([]vector, 0, len(vs)/2)
	for _, j := range rng.Perm(len(vs))[:len(vs)/2] {
		again = append(again, vs[j])
	}
	// random vectors over the union of the alphabets
	var pool []string
	pool = append(pool, numbers...)
	pool = append(pool, partIDs...)
	pool = append(pool, words...)
	pool = append(pool, names...)
	pool = append(pool, keys...)
	for i := 0; i < nrandom; i++ {
		c := commands[rng.Intn(len(commands))]
		n := rng.Intn(7)
		args := []string{c.name}
		for j := 0; j < n; j++ {
			if j < len(c.slots) && rng.Intn(3) > 0 {
				al := alphabet(c.slots[j], nil)
				args = append(args, al[rng.Intn(len(al))])
			} else {
				args = append(args, pool[rng.Intn(len(pool))])
			}
		}
		if c.name == "dm.lock" && len(args) > 2 && len(args[2]) < 100 {
			uniq++
			args[2] = fmt.Sprintf("lk%d%s", uniq, args[2])
		}
		vs = append(vs, vector{args: args, pubsub: c.pubsub})
	}
	// raw byte streams
	for i := 0; i < nraw; i++ {
		n := 1 + rng.Intn(64)
		b := make([]byte, n)
		switch rng.Intn(3) {
		case 0:
			rng.Read(b)
		case 1:
			// RESP-looking garbage
			b = []byte(fmt.Sprintf("*%d\r\n$%d\r\n%s\r\n", rng.Intn(5)-1, rng.Intn(10)-2, strings.Repeat("x", rng.Intn(6))))
		default:
			b = []byte(strings.Repeat("*1\r\n$4\r\nping\r\n", 1+rng.Intn(3)) + "*2\r\n$6\r\ndm.get\r\n")
		}
		b = append(b, '\r', '\n')
		vs = append(vs, vector{raw: b})
	}
	for _, v := range again {
		if strings.EqualFold(v.args[0], "dm.lock") && len(v.args) > 2 {
			uniq++
			v.args = append([]string{}, v.args...)
			v.args[2] = fmt.Sprintf("lk%dr", uniq) // a lock vector needs a key nobody holds
		}
		vs = append(vs, v)
	}
	ch, err := startChild()
	if err != nil {
		t.Fatal(err)
	}
	defer func() { ch.stop() }()
	tw.Emit(trace.Ev{"t": "reset", "seq": 0})
	crashes, restarts := 0, 0
	outcomes := map[string]int{}
	var samples []any
	nontrivial := 0
	unanswered := map[int]int{} // per member: framed requests that got no answer since the child was started
	wedged, sent := 0, 0
	for n, v := range vs {
		if unanswered[0]+unanswered[1] >= 3 && !ch.dead() {
			// three framed requests went unanswered - each after more than 20 s: (a part of) the member is wedged (each of
			// them is in the trace).  A
			// fresh child lets the remaining vectors be judged on their own instead of waiting 20 s each.
			ch.stop()
			unanswered = map[int]int{}
			wedged++
			if wedged > 8 {
				t.Logf("the member was wedged %d times, stopping after %d vectors", wedged, n)
				break
			}
		}
		if ch.dead() {
			restarts++
			if restarts > 60 {
				t.Logf("too many restarts, stopping after %d vectors", n)
				break
			}
			ch, err = startChild()
			if err != nil {
				t.Fatal(err)
			}
		}
		if n%80 == 0 {
			replenish(ch.addrs[(n/80)%len(ch.addrs)], n/80)
		}
		res := ch.send(v, n)
		sent++
		// periodically make sure the other member still serves
		if res.outcome != "crash" && n%25 == 0 {
			res.otherok = res.otherok && ping(ch.addrs[(n+1)%len(ch.addrs)])
		}
		outcomes[res.outcome]++
		if res.outcome == "timeout" && v.raw == nil && !v.pubsub {
			unanswered[n%len(ch.addrs)]++
		}
		cmdName, nargs, framed := "raw", 0, false
		classes := []string{}
		if v.raw == nil {
			framed = true
			cmdName = strings.ToLower(v.args[0])
			nargs = len(v.args) - 1
			for _, a := range v.args[1:] {
				classes = append(classes, classOf(a))
			}
			if len(v.args) > 1 {
				nontrivial++
			}
		} else {
			nontrivial++
		}
		ev := trace.Ev{"t": "req", "n": n + 1, "cmd": cmdName, "nargs": nargs, "framed": framed, "outcome": res.outcome,
			"pingok": res.pingok, "otherok": res.otherok, "classes": classes, "stateful": len(v.pre) > 0}
		if res.outcome != "reply" && res.outcome != "error" || !res.pingok {
			// keep the exact bytes of a request that was not answered
			if v.raw == nil {
				ev["args"] = fmt.Sprintf("%q", v.args)
				if len(v.pre) > 0 {
					ev["args"] = fmt.Sprintf("after %q: %q", v.pre, v.args)
				}
			} else {
				ev["args"] = fmt.Sprintf("%q", v.raw)
			}
			if res.outcome == "crash" {
				crashes++
				ch.mu.Lock()
				s := ch.out.String()
				ch.mu.Unlock()
				if len(s) > 1500 {
					s = s[:1500]
				}
				ev["child_output"] = s
			}
		}
		tw.Emit(ev)
		if len(samples) < 4 && n%977 == 5 {
			samples = append(samples, map[string]any{"request": fmt.Sprintf("%q", v.args), "outcome": res.outcome})
		}
	}
	if err := tw.Close(); err != nil {
		t.Fatal(err)
	}
	sum := map[string]any{"evaluations": sent, "vectors_built": len(vs), "exhaustive_vectors": exhaustive, "random_vectors": nrandom, "raw_streams": nraw,
		"distinct_nontrivial": nontrivial, "outcomes": outcomes, "crashes": crashes, "samples": samples, "max_anomalies_per_vector": maxAnom}
	b, _ := json.MarshalIndent(sum, "", " ")
	os.WriteFile(filepath.Join(out, "c16.summary.json"), b, 0o644)
}
