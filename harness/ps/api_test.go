//go:build verif

package ps

import (
	"bufio"
	"context"
	"encoding/json"
	"fmt"
	"math/rand"
	"os"
	"path/filepath"
	"sort"
	"testing"
	"time"

	"github.com/olric-data/olric"
	"github.com/olric-data/olric/verifharness/cluster"
	"github.com/olric-data/olric/verifharness/trace"
	"github.com/redis/go-redis/v9"
)

// apiConn is one subscriber connection obtained through olric's Go client API (PubSub.Subscribe /
// PSubscribe of an embedded or a cluster client), as opposed to the raw RESP connections of TestPubSub.
type apiConn struct {
	name   string
	member int
	ps     *olric.PubSub
	sub    *redis.PubSub
	alive  bool
}

func (a *apiConn) ack(ctx context.Context) error {
	c, cancel := context.WithTimeout(ctx, 5*time.Second)
	defer cancel()
	for {
		x, err := a.sub.Receive(c)
		if err != nil {
			return err
		}
		if _, ok := x.(*redis.Subscription); ok {
			return nil
		}
		return fmt.Errorf("unexpected %T while waiting for an acknowledgement on %s", x, a.name)
	}
}

// TestPubSubAPI runs the same kind of programs through the Go client API and records the same events.
func TestPubSubAPI(t *testing.T) {
	out := os.Getenv("VERIF_OUT")
	if out == "" {
		t.Skip("VERIF_OUT not set")
	}
	ctx := context.Background()
	rng := rand.New(rand.NewSource(int64(envInt("VERIF_SEED", 1)) + 77))
	tw, err := trace.New(filepath.Join(out, "psapi.ndjson"))
	if err != nil {
		t.Fatal(err)
	}
	c, err := cluster.Start(cluster.Options{Replicas: 1, Partitions: 7, Manual: true}, 2)
	if err != nil {
		t.Fatal(err)
	}
	defer c.Shutdown()
	emb := c.Members[0].DB.NewEmbeddedClient()
	cc, err := olric.NewClusterClient([]string{c.Members[1].Name})
	if err != nil {
		t.Fatal(err)
	}
	defer cc.Close(ctx)
	newPS := func(conn string, member int) (*olric.PubSub, error) {
		addr := olric.ToAddress(c.Members[member-1].Name)
		if conn == "c2" {
			return cc.NewPubSub(addr) // one subscriber goes through the cluster client
		}
		return emb.NewPubSub(addr)
	}
	memberOf := map[string]int{"c1": 1, "c2": 1, "c3": 2}
	names := []string{"c1", "c2", "c3"}
	var programs [][]step
	if beh := os.Getenv("VERIF_BEH"); beh != "" {
		f, err := os.Open(beh)
		if err != nil {
			t.Fatal(err)
		}
		sc := bufio.NewScanner(f)
		sc.Buffer(make([]byte, 1<<20), 1<<24)
		n := 0
		for sc.Scan() {
			n++
			if n%envInt("VERIF_PSAPI_EVERY", 7) != 0 {
				continue // a sample of the exported paths
			}
			var p []step
			if err := json.Unmarshal([]byte(sc.Text()), &p); err != nil {
				t.Fatal(err)
			}
			programs = append(programs, append(p, probes(rng, false)...))
		}
		f.Close()
	}
	for i := 0; i < envInt("VERIF_PSAPI_RANDOM", 10); i++ {
		programs = append(programs, append(randomProgram(rng, 20), probes(rng, true)...))
	}
	pubs := map[int]*olric.PubSub{}
	for m := 1; m <= 2; m++ {
		p, err := emb.NewPubSub(olric.ToAddress(c.Members[m-1].Name))
		if err != nil {
			t.Fatal(err)
		}
		pubs[m] = p
	}
	evals, nbar, nmsg := 0, 0, 0
	for i, prog := range programs {
		conns := map[string]*apiConn{}
		var cl []trace.Ev
		for _, n := range names {
			ps, err := newPS(n, memberOf[n])
			if err != nil {
				t.Fatal(err)
			}
			a := &apiConn{name: n, member: memberOf[n], ps: ps, alive: true}
			a.sub = ps.Subscribe(ctx, barrier)
			if err := a.ack(ctx); err != nil {
				t.Fatal(err)
			}
			conns[n] = a
			cl = append(cl, trace.Ev{"c": n, "m": memberOf[n]})
		}
		tw.Emit(trace.Ev{"t": "reset", "seq": i + 1, "conns": cl, "via": "go client API"})
		drain := func() map[string][]trace.Ev {
			nbar++
			payload := fmt.Sprintf("B%d", nbar)
			got := map[string][]trace.Ev{}
			for _, n := range names {
				a := conns[n]
				if !a.alive {
					continue
				}
				if err := a.sub.Ping(ctx, payload); err != nil {
					t.Fatal(err)
				}
				got[n] = []trace.Ev{}
				for {
					rc, cancel := context.WithTimeout(ctx, 5*time.Second)
					x, err := a.sub.Receive(rc)
					cancel()
					if err != nil {
						t.Fatalf("waiting for the pong on %s: %v", n, err)
					}
					if p, ok := x.(*redis.Pong); ok {
						if p.Payload == payload {
							break
						}
						continue
					}
					m, ok := x.(*redis.Message)
					if !ok {
						t.Fatalf("unexpected %T on %s", x, n)
					}
					kind := "message"
					if m.Pattern != "" {
						kind = "pmessage"
					}
					got[n] = append(got[n], trace.Ev{"kind": kind, "pat": m.Pattern, "ch": aliasOf(m.Channel), "msg": m.Payload})
				}
			}
			return got
		}
		for _, st := range prog {
			evals++
			switch st.Op {
			case "sub", "unsub":
				a := conns[st.C]
				if !a.alive {
					continue
				}
				var err error
				switch {
				case st.Op == "sub" && !st.Pat:
					err = a.sub.Subscribe(ctx, st.Name)
				case st.Op == "sub" && st.Pat:
					err = a.sub.PSubscribe(ctx, st.Name)
				case st.Op == "unsub" && !st.Pat:
					err = a.sub.Unsubscribe(ctx, st.Name)
				default:
					err = a.sub.PUnsubscribe(ctx, st.Name)
				}
				if err == nil {
					err = a.ack(ctx)
				}
				if err != nil {
					t.Fatal(err)
				}
				tw.Emit(trace.Ev{"t": st.Op, "c": st.C, "pat": st.Pat, "name": st.Name})
			case "disc":
				a := conns[st.C]
				if !a.alive {
					continue
				}
				a.sub.Close()
				a.alive = false
				// the member notices the close asynchronously: wait until it no longer counts the connection
				// among the barrier channel's subscribers
				want := 0
				for _, o := range conns {
					if o.alive && o.member == a.member {
						want++
					}
				}
				deadline := time.Now().Add(5 * time.Second)
				for {
					r, err := pubs[a.member].PubSubNumSub(ctx, barrier)
					if err != nil {
						t.Fatal(err)
					}
					if int(r[barrier]) == want {
						break
					}
					if time.Now().After(deadline) {
						t.Fatalf("the member did not drop the closed connection %s", st.C)
					}
					time.Sleep(2 * time.Millisecond)
				}
				tw.Emit(trace.Ev{"t": "disc", "c": st.C})
			case "pub":
				nmsg++
				msg := fmt.Sprintf("m%d", nmsg)
				count, err := pubs[st.M].Publish(ctx, realName(st.Ch), msg)
				if err != nil {
					t.Fatal(err)
				}
				got := drain()
				tw.Emit(trace.Ev{"t": "pub", "m": st.M, "ch": st.Ch, "msg": msg, "count": int(count), "got": gotList(got)})
			case "chans":
				list, err := pubs[st.M].PubSubChannels(ctx, st.Name)
				if err != nil {
					t.Fatal(err)
				}
				l2 := []string{}
				for _, x := range list {
					if x != barrier {
						l2 = append(l2, x)
					}
				}
				sort.Strings(l2)
				tw.Emit(trace.Ev{"t": "chans", "m": st.M, "pattern": st.Name, "list": l2})
			case "numsub":
				r, err := pubs[st.M].PubSubNumSub(ctx, st.Ch)
				if err != nil {
					t.Fatal(err)
				}
				tw.Emit(trace.Ev{"t": "numsub", "m": st.M, "ch": st.Ch, "n": int(r[st.Ch])})
			case "numpat":
				n, err := pubs[st.M].PubSubNumPat(ctx)
				if err != nil {
					t.Fatal(err)
				}
				tw.Emit(trace.Ev{"t": "numpat", "m": st.M, "n": int(n)})
			default:
				// unsuball / reopen are exercised by the raw RESP driver only
				evals--
			}
		}
		for _, a := range conns {
			if a.alive {
				a.sub.Close()
			}
		}
		// wait until both members have dropped this program's connections (they notice a close asynchronously)
		for m := 1; m <= 2; m++ {
			deadline := time.Now().Add(10 * time.Second)
			for {
				r, err := pubs[m].PubSubNumSub(ctx, barrier)
				if err != nil {
					t.Fatal(err)
				}
				if r[barrier] == 0 {
					break
				}
				if time.Now().After(deadline) {
					t.Fatalf("connections of program %d were not dropped by member %d", i+1, m)
				}
				time.Sleep(time.Millisecond)
			}
		}
	}
	if err := tw.Close(); err != nil {
		t.Fatal(err)
	}
	b, _ := json.MarshalIndent(map[string]any{"evaluations": evals, "programs": len(programs)}, "", " ")
	os.WriteFile(filepath.Join(out, "psapi.summary.json"), b, 0o644)
}
