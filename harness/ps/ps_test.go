//go:build verif

// Package ps drives the Pub/Sub service of real olric clusters over raw RESP connections and records,
// for TLC (PubSubTrace.tla), what every connection received after each step.
package ps

import (
	"bufio"
	"encoding/json"
	"fmt"
	"math/rand"
	"net"
	"os"
	"path/filepath"
	"sort"
	"strconv"
	"strings"
	"sync"
	"testing"
	"time"

	"github.com/olric-data/olric/verifharness/cluster"
	"github.com/olric-data/olric/verifharness/trace"
)

// ---------------------------------------------------------------- minimal RESP client
type rconn struct {
	c   net.Conn
	r   *bufio.Reader
	rto time.Duration // read time-out of the next read (5 s when zero)
}

func dial(addr string) (*rconn, error) {
	c, err := net.DialTimeout("tcp", addr, 2*time.Second)
	if err != nil {
		return nil, err
	}
	return &rconn{c: c, r: bufio.NewReaderSize(c, 1<<16)}, nil
}

func (r *rconn) send(args ...string) error {
	var sb strings.Builder
	fmt.Fprintf(&sb, "*%d\r\n", len(args))
	for _, a := range args {
		fmt.Fprintf(&sb, "$%d\r\n%s\r\n", len(a), a)
	}
	r.c.SetWriteDeadline(time.Now().Add(5 * time.Second))
	_, err := r.c.Write([]byte(sb.String()))
	return err
}

// read returns one reply: string (simple/bulk), int, error (as error value in the slot), []any, nil.
func (r *rconn) read() (any, error) {
	rto := r.rto
	if rto == 0 {
		rto = 5 * time.Second
	}
	r.c.SetReadDeadline(time.Now().Add(rto))
	line, err := r.r.ReadString('\n')
	if err != nil {
		return nil, err
	}
	line = strings.TrimRight(line, "\r\n")
	if line == "" {
		return nil, fmt.Errorf("empty reply line")
	}
	switch line[0] {
	case '+':
		return line[1:], nil
	case '-':
		return fmt.Errorf("%s", line[1:]), nil
	case ':':
		n, err := strconv.Atoi(line[1:])
		return n, err
	case '$':
		n, err := strconv.Atoi(line[1:])
		if err != nil {
			return nil, err
		}
		if n < 0 {
			return nil, nil
		}
		buf := make([]byte, n+2)
		if _, err := readFull(r.r, buf); err != nil {
			return nil, err
		}
		return string(buf[:n]), nil
	case '*':
		n, err := strconv.Atoi(line[1:])
		if err != nil {
			return nil, err
		}
		if n < 0 {
			return nil, nil
		}
		out := make([]any, 0, n)
		for i := 0; i < n; i++ {
			x, err := r.read()
			if err != nil {
				return nil, err
			}
			out = append(out, x)
		}
		return out, nil
	}
	return nil, fmt.Errorf("unexpected reply %q", line)
}

func readFull(r *bufio.Reader, buf []byte) (int, error) {
	n := 0
	for n < len(buf) {
		m, err := r.Read(buf[n:])
		n += m
		if err != nil {
			return n, err
		}
	}
	return n, nil
}

func (r *rconn) do(args ...string) (any, error) {
	if err := r.send(args...); err != nil {
		return nil, err
	}
	return r.read()
}

// protoErr: the member answered with a well-formed reply that the protocol does not allow at this point (as opposed to
// an I/O error or a time-out, which say nothing about the code under test)
type protoErr string

func (e protoErr) Error() string { return string(e) }

// ---------------------------------------------------------------- the world under test
const barrier = "!barrier" // sorts before every channel and pattern of the programs: a subscription that sorts after them would end every ordered walk over the subscriptions early

type sub struct {
	name   string
	conn   *rconn
	member int
	alive  bool
}

type world struct {
	c     *cluster.Cluster
	ctl   []*rconn // one control connection per member
	subs  map[string]*sub
	names []string
	nbar  int
	nmsg  int
	w     *trace.Writer
	evals int
}

type step struct {
	Op   string `json:"op"`
	C    string `json:"c,omitempty"`
	Pat  bool   `json:"pat,omitempty"`
	Name string `json:"name,omitempty"`
	M    int    `json:"m,omitempty"`
	Ch   string `json:"ch,omitempty"`
}

func (w *world) open(memberOf map[string]int) error {
	w.subs = map[string]*sub{}
	w.names = nil
	for name := range memberOf {
		w.names = append(w.names, name)
	}
	sort.Strings(w.names)
	for _, name := range w.names {
		m := memberOf[name]
		rc, err := dial(w.c.Members[m-1].Name)
		if err != nil {
			return err
		}
		s := &sub{name: name, conn: rc, member: m, alive: true}
		w.subs[name] = s
		if err := w.subscribeAck(s, "subscribe", barrier); err != nil {
			return err
		}
	}
	return nil
}

func (w *world) closeAll() {
	for _, s := range w.subs {
		if s.alive {
			s.conn.c.Close()
		}
	}
}

// subscribeAck sends a (p)subscribe / (p)unsubscribe for one name and consumes its acknowledgement.
func (w *world) subscribeAck(s *sub, cmd, name string) error {
	if err := s.conn.send(cmd, name); err != nil {
		return err
	}
	for {
		x, err := s.conn.read()
		if err != nil {
			return fmt.Errorf("%s %s on %s: %w", cmd, name, s.name, err)
		}
		arr, ok := x.([]any)
		if ok && len(arr) == 3 {
			if k, _ := arr[0].(string); k == cmd {
				return nil
			}
		}
		// anything else at this point is unexpected in the sequential driver
		return protoErr(fmt.Sprintf("unexpected reply to %s %s on %s: %v", cmd, name, s.name, x))
	}
}

// unsubscribeAll sends (P)UNSUBSCRIBE without arguments and consumes the acknowledgements: one per
// subscription removed (or a single one with a null name).
func (w *world) unsubscribeAll(s *sub, pat bool) error {
	cmd := "unsubscribe"
	if pat {
		cmd = "punsubscribe"
	}
	if err := s.conn.send(cmd); err != nil {
		return err
	}
	for {
		x, err := s.conn.read()
		if err != nil {
			return err
		}
		arr, ok := x.([]any)
		if !ok || len(arr) != 3 {
			return protoErr(fmt.Sprintf("unexpected reply to %s on %s: %v", cmd, s.name, x))
		}
		if n, ok := arr[2].(int); ok && n == 0 {
			return nil
		}
		if arr[1] == nil {
			return nil
		}
	}
}

// drain reads every live connection up to a PING it sends on that connection.  PUBLISH returns only
// after every delivery has been written (also on the other members), and a connection's replies are
// ordered, so everything the connection was sent precedes the pong - no time-out is involved.
func (w *world) drain() (map[string][]trace.Ev, error) {
	w.nbar++
	payload := fmt.Sprintf("B%d", w.nbar)
	got := map[string][]trace.Ev{}
	for _, name := range w.names {
		s := w.subs[name]
		if !s.alive {
			continue
		}
		if err := s.conn.send("ping", payload); err != nil {
			return nil, err
		}
		got[name] = []trace.Ev{}
		for {
			x, err := s.conn.read()
			if err != nil {
				return nil, fmt.Errorf("waiting for the pong on %s: %w", name, err)
			}
			arr, ok := x.([]any)
			if !ok || len(arr) < 2 {
				return nil, protoErr(fmt.Sprintf("unexpected push on %s: %v", name, x))
			}
			kind, _ := arr[0].(string)
			if kind == "pong" && arr[1] == payload {
				break
			}
			var ev trace.Ev
			switch {
			case kind == "message" && len(arr) == 3:
				ev = trace.Ev{"kind": "message", "pat": "", "ch": aliasOf(arr[1]), "msg": arr[2]}
			case kind == "pmessage" && len(arr) == 4:
				ev = trace.Ev{"kind": "pmessage", "pat": arr[1], "ch": aliasOf(arr[2]), "msg": arr[3]}
			default:
				return nil, protoErr(fmt.Sprintf("unexpected push on %s: %v", name, x))
			}
			got[name] = append(got[name], ev)
		}
	}
	return got, nil
}

func gotList(got map[string][]trace.Ev) []trace.Ev {
	var names []string
	for n := range got {
		names = append(names, n)
	}
	sort.Strings(names)
	out := []trace.Ev{}
	for _, n := range names {
		out = append(out, trace.Ev{"c": n, "msgs": got[n]})
	}
	return out
}

func (w *world) exec(st step) error {
	w.evals++
	switch st.Op {
	case "sub", "unsub":
		s := w.subs[st.C]
		if !s.alive {
			return nil
		}
		cmd := map[string]string{"subfalse": "subscribe", "subtrue": "psubscribe", "unsubfalse": "unsubscribe", "unsubtrue": "punsubscribe"}[st.Op+strconv.FormatBool(st.Pat)]
		if err := w.subscribeAck(s, cmd, st.Name); err != nil {
			return err
		}
		w.w.Emit(trace.Ev{"t": st.Op, "c": st.C, "pat": st.Pat, "name": st.Name})
	case "unsuball":
		s := w.subs[st.C]
		if !s.alive {
			return nil
		}
		if err := w.unsubscribeAll(s, st.Pat); err != nil {
			return err
		}
		if !st.Pat {
			// the barrier subscription went with it
			if err := w.subscribeAck(s, "subscribe", barrier); err != nil {
				return err
			}
		}
		w.w.Emit(trace.Ev{"t": "unsuball", "c": st.C, "pat": st.Pat})
	case "disc":
		s := w.subs[st.C]
		if !s.alive {
			return nil
		}
		s.alive = false
		s.conn.c.Close()
		// the server notices the close asynchronously: wait until the member no longer counts the
		// connection among the barrier channel's subscribers
		want := 0
		for _, o := range w.subs {
			if o.alive && o.member == s.member {
				want++
			}
		}
		deadline := time.Now().Add(10 * time.Second)
		for {
			x, err := w.ctl[s.member-1].do("pubsub", "numsub", barrier)
			if err != nil {
				return err
			}
			arr, _ := x.([]any)
			if len(arr) == 2 {
				if n, _ := arr[1].(int); n == want {
					break
				}
			}
			if time.Now().After(deadline) {
				return protoErr(fmt.Sprintf("10 s after connection %s was closed PUBSUB NUMSUB of the channel every connection subscribes to answers %v on member %d, expected %d", st.C, x, s.member, want))
			}
			time.Sleep(2 * time.Millisecond)
		}
		w.w.Emit(trace.Ev{"t": "disc", "c": st.C})
	case "reopen":
		s := w.subs[st.C]
		if s.alive {
			return nil
		}
		rc, err := dial(w.c.Members[s.member-1].Name)
		if err != nil {
			return err
		}
		s.conn, s.alive = rc, true
		if err := w.subscribeAck(s, "subscribe", barrier); err != nil {
			return err
		}
		w.w.Emit(trace.Ev{"t": "reopen", "c": st.C})
	case "pub":
		w.nmsg++
		msg := fmt.Sprintf("m%d", w.nmsg)
		x, err := w.ctl[st.M-1].do("publish", realName(st.Ch), msg)
		if err != nil {
			return err
		}
		count, ok := x.(int)
		if !ok {
			return fmt.Errorf("publish answered %v", x)
		}
		got, err := w.drain()
		if err != nil {
			return err
		}
		w.w.Emit(trace.Ev{"t": "pub", "m": st.M, "ch": st.Ch, "msg": msg, "count": count, "got": gotList(got)})
	case "chans":
		args := []string{"pubsub", "channels"}
		if st.Name != "" {
			args = append(args, st.Name)
		}
		x, err := w.ctl[st.M-1].do(args...)
		if err != nil {
			return err
		}
		arr, _ := x.([]any)
		list := []string{}
		for _, a := range arr {
			if s, _ := a.(string); s != barrier {
				list = append(list, s)
			}
		}
		sort.Strings(list)
		w.w.Emit(trace.Ev{"t": "chans", "m": st.M, "pattern": st.Name, "list": list})
	case "numsub":
		x, err := w.ctl[st.M-1].do("pubsub", "numsub", st.Ch)
		if err != nil {
			return err
		}
		arr, _ := x.([]any)
		n := -1
		if len(arr) == 2 {
			n, _ = arr[1].(int)
		}
		w.w.Emit(trace.Ev{"t": "numsub", "m": st.M, "ch": st.Ch, "n": n})
	case "numpat":
		x, err := w.ctl[st.M-1].do("pubsub", "numpat")
		if err != nil {
			return err
		}
		n, _ := x.(int)
		w.w.Emit(trace.Ev{"t": "numpat", "m": st.M, "n": n})
	default:
		return fmt.Errorf("unknown step %q", st.Op)
	}
	return nil
}

func envInt(name string, def int) int {
	if v := os.Getenv(name); v != "" {
		if n, err := strconv.Atoi(v); err == nil {
			return n
		}
	}
	return def
}

var channels = []string{"a", "ab", "b"}
var patterns = []string{"a*", "*", "ab", "b?"}

// channels that are only published to (nobody subscribes to them by name; patterns match them).  "b-e" stands for a channel
// whose second character is not ASCII: the trace and the specification's match table use the alias, the wire the real name.
var probeOnly = []string{"bc", "b-e"}
var alias = map[string]string{"b-e": "b\u00e9"}

func realName(ch string) string {
	if r, ok := alias[ch]; ok {
		return r
	}
	return ch
}

func aliasOf(x any) any {
	if s, ok := x.(string); ok {
		for a, r := range alias {
			if s == r {
				return a
			}
		}
	}
	return x
}

func probes(rng *rand.Rand, full bool) []step {
	var out []step
	for _, ch := range channels {
		if full {
			out = append(out, step{Op: "pub", M: 1, Ch: ch}, step{Op: "pub", M: 2, Ch: ch})
		} else {
			out = append(out, step{Op: "pub", M: 1 + rng.Intn(2), Ch: ch})
		}
	}
	for _, ch := range probeOnly {
		out = append(out, step{Op: "pub", M: 1 + rng.Intn(2), Ch: ch})
	}
	for m := 1; m <= 2; m++ {
		if !full && rng.Intn(2) == 0 {
			continue
		}
		out = append(out, step{Op: "chans", M: m}, step{Op: "numpat", M: m}, step{Op: "numsub", M: m, Ch: channels[rng.Intn(len(channels))]})
		if full || rng.Intn(3) == 0 {
			out = append(out, step{Op: "chans", M: m, Name: "a*"})
		}
	}
	return out
}

func randomProgram(rng *rand.Rand, n int) []step {
	conns := []string{"c1", "c2", "c3"}
	var out []step
	for i := 0; i < n; i++ {
		c := conns[rng.Intn(3)]
		switch x := rng.Intn(100); {
		case x < 22:
			out = append(out, step{Op: "sub", C: c, Name: channels[rng.Intn(len(channels))]})
		case x < 40:
			out = append(out, step{Op: "sub", C: c, Pat: true, Name: patterns[rng.Intn(len(patterns))]})
		case x < 50:
			out = append(out, step{Op: "unsub", C: c, Name: channels[rng.Intn(len(channels))]})
		case x < 58:
			out = append(out, step{Op: "unsub", C: c, Pat: true, Name: patterns[rng.Intn(len(patterns))]})
		case x < 62:
			out = append(out, step{Op: "unsuball", C: c, Pat: rng.Intn(2) == 0})
		case x < 64:
			out = append(out, step{Op: "disc", C: c})
		case x < 68:
			out = append(out, step{Op: "reopen", C: c})
		case x < 88:
			out = append(out, step{Op: "pub", M: 1 + rng.Intn(2), Ch: channels[rng.Intn(len(channels))]})
		default:
			out = append(out, probes(rng, false)[3:]...)
		}
	}
	return out
}

// TestPubSub replays TLC's operation paths (VERIF_BEH) followed by probes, and seeded random programs.
func TestPubSub(t *testing.T) {
	out := os.Getenv("VERIF_OUT")
	if out == "" {
		t.Skip("VERIF_OUT not set")
	}
	rng := rand.New(rand.NewSource(int64(envInt("VERIF_SEED", 1))))
	tw, err := trace.New(filepath.Join(out, "ps.ndjson"))
	if err != nil {
		t.Fatal(err)
	}
	c, err := cluster.Start(cluster.Options{Replicas: 1, Partitions: 7, Manual: true}, 2)
	if err != nil {
		t.Fatal(err)
	}
	defer c.Shutdown()
	w := &world{c: c, w: tw}
	for _, m := range c.Members {
		rc, err := dial(m.Name)
		if err != nil {
			t.Fatal(err)
		}
		w.ctl = append(w.ctl, rc)
	}
	memberOf := map[string]int{"c1": 1, "c2": 1, "c3": 2}
	var programs [][]step
	fromTLC := 0
	if beh := os.Getenv("VERIF_BEH"); beh != "" {
		f, err := os.Open(beh)
		if err != nil {
			t.Fatal(err)
		}
		sc := bufio.NewScanner(f)
		sc.Buffer(make([]byte, 1<<20), 1<<24)
		for sc.Scan() {
			var p []step
			if err := json.Unmarshal([]byte(sc.Text()), &p); err != nil {
				t.Fatal(err)
			}
			programs = append(programs, append(p, probes(rng, false)...))
			fromTLC++
		}
		f.Close()
	}
	// a pattern of single-character wildcards only, next to the catch-all, on both members
	programs = append(programs, append([]step{{Op: "sub", C: "c1", Pat: true, Name: "b?"}, {Op: "sub", C: "c3", Pat: true, Name: "b?"},
		{Op: "sub", C: "c2", Pat: true, Name: "*"}, {Op: "sub", C: "c2", Name: "b"}}, probes(rng, true)...))
	for i := 0; i < envInt("VERIF_PS_RANDOM", 0); i++ {
		programs = append(programs, append(randomProgram(rng, envInt("VERIF_PS_RANDOM_LEN", 30)), probes(rng, true)...))
	}
	nontriv := map[string]bool{}
	var samples []any
	for i, p := range programs {
		if err := w.open(memberOf); err != nil {
			t.Fatal(err)
		}
		var conns []trace.Ev
		for _, n := range w.names {
			conns = append(conns, trace.Ev{"c": n, "m": memberOf[n]})
		}
		tw.Emit(trace.Ev{"t": "reset", "seq": i + 1, "conns": conns})
		for _, st := range p {
			if err := w.exec(st); err != nil {
				if pe, ok := err.(protoErr); ok {
					// recorded, judged by the trace specification; the rest of the program is skipped
					tw.Emit(trace.Ev{"t": "anomaly", "step": fmt.Sprintf("%+v", st), "detail": string(pe)})
					break
				}
				t.Fatalf("program %d step %+v: %v", i+1, st, err)
			}
		}
		w.closeAll()
		// wait until both members dropped this program's connections
		for m := range w.ctl {
			deadline := time.Now().Add(5 * time.Second)
			for {
				x, err := w.ctl[m].do("pubsub", "numsub", barrier)
				if err != nil {
					t.Fatal(err)
				}
				arr, _ := x.([]any)
				if len(arr) == 2 {
					if n, _ := arr[1].(int); n == 0 {
						break
					}
				}
				if time.Now().After(deadline) {
					t.Fatalf("connections of program %d were not dropped", i+1)
				}
				time.Sleep(time.Millisecond)
			}
		}
		b, _ := json.Marshal(p)
		nontriv[string(b)] = true
		if len(samples) < 2 && len(p) > 6 && len(p) < 14 {
			samples = append(samples, p)
		}
	}
	// ---- concurrent publishers: per-publisher order on every subscription
	conc := envInt("VERIF_PS_CONC", 0)
	for r := 0; r < conc; r++ {
		if err := w.open(memberOf); err != nil {
			t.Fatal(err)
		}
		for _, n := range w.names {
			if err := w.subscribeAck(w.subs[n], "subscribe", "a"); err != nil {
				t.Fatal(err)
			}
		}
		if err := w.subscribeAck(w.subs["c2"], "psubscribe", "a*"); err != nil {
			t.Fatal(err)
		}
		const k = 20
		var wg sync.WaitGroup
		for pub := 1; pub <= 2; pub++ {
			wg.Add(1)
			go func(pub int) {
				defer wg.Done()
				rc, err := dial(c.Members[pub-1].Name)
				if err != nil {
					return
				}
				defer rc.c.Close()
				for j := 1; j <= k; j++ {
					rc.do("publish", "a", fmt.Sprintf("p%d-%d", pub, j))
				}
			}(pub)
		}
		wg.Wait()
		got, err := w.drain()
		if err != nil {
			t.Fatal(err)
		}
		var conns []trace.Ev
		for _, n := range w.names {
			conns = append(conns, trace.Ev{"c": n, "m": memberOf[n]})
		}
		w.evals += 2 * k
		tw.Emit(trace.Ev{"t": "reset", "seq": len(programs) + r + 1, "conns": conns})
		for _, n := range w.names {
			tw.Emit(trace.Ev{"t": "sub", "c": n, "pat": false, "name": "a"})
		}
		tw.Emit(trace.Ev{"t": "sub", "c": "c2", "pat": true, "name": "a*"})
		tw.Emit(trace.Ev{"t": "conc", "ch": "a", "publishers": []string{"p1", "p2"}, "k": k, "got": gotList(got)})
		w.closeAll()
		time.Sleep(20 * time.Millisecond)
	}
	// ---- an UNSUBSCRIBE while a publication is under way ("after UNSUBSCRIBE no further message reaches that subscription"):
	// s1 and s2 hold the channel on one member, s1 stops reading; a publisher sends large messages until one PUBLISH does not
	// return (the member is writing to s1, whose socket is full); s2 unsubscribes; s1 reads again.  Whatever the member does
	// with the two requests, s2 gets no message after the acknowledgement of its UNSUBSCRIBE and PUBLISH counts its deliveries.
	stall := envInt("VERIF_PS_STALL", 0)
	for r := 0; r < stall; r++ {
		addr := c.Members[r%2].Name
		ch := fmt.Sprintf("stall%d", r)
		s1, err := dial(addr)
		if err != nil {
			t.Fatal(err)
		}
		s2, err := dial(addr)
		if err != nil {
			t.Fatal(err)
		}
		pb, err := dial(addr)
		if err != nil {
			t.Fatal(err)
		}
		ww := &world{c: c, w: tw}
		sub1, sub2 := &sub{name: "s1", conn: s1, alive: true}, &sub{name: "s2", conn: s2, alive: true}
		for _, x := range []*sub{sub1, sub2} {
			if err := ww.subscribeAck(x, "subscribe", barrier); err != nil {
				t.Fatal(err)
			}
			if err := ww.subscribeAck(x, "subscribe", ch); err != nil {
				t.Fatal(err)
			}
		}
		pad := strings.Repeat("x", 1<<20)
		stuck := 0
		pb.rto = 700 * time.Millisecond
		for j := 1; j <= 64 && stuck == 0; j++ {
			if err := pb.send("publish", ch, fmt.Sprintf("M%d|", j)+pad); err != nil {
				t.Fatal(err)
			}
			if _, err := pb.read(); err != nil {
				stuck = j // no reply: the publication is under way
				break
			}
			s2.rto = 20 * time.Second
			if _, err := s2.read(); err != nil { // s2 keeps reading
				t.Fatalf("stall round: s2 did not get message %d: %v", j, err)
			}
		}
		if stuck == 0 {
			t.Logf("stall round %d: no PUBLISH got stuck behind the silent subscriber; nothing to judge", r)
			s1.c.Close()
			s2.c.Close()
			pb.c.Close()
			continue
		}
		if err := s2.send("unsubscribe", ch); err != nil {
			t.Fatal(err)
		}
		time.Sleep(300 * time.Millisecond)
		// s1 reads again: everything up to the stuck message
		s1got := make(chan bool, 1)
		go func() {
			s1.rto = 30 * time.Second
			for {
				x, err := s1.read()
				if err != nil {
					s1got <- false
					return
				}
				if arr, ok := x.([]any); ok && len(arr) == 3 {
					if m, _ := arr[2].(string); strings.HasPrefix(m, fmt.Sprintf("M%d|", stuck)) {
						s1got <- true
						return
					}
				}
			}
		}()
		pb.rto = 60 * time.Second
		x, err := pb.read()
		if err != nil {
			t.Fatalf("stall round: the stuck PUBLISH never returned: %v", err)
		}
		count, _ := x.(int)
		deliveries := 0
		if <-s1got {
			deliveries++
		}
		// everything s2 was sent since its UNSUBSCRIBE, up to the pong of a PING sent after PUBLISH has returned
		if err := s2.send("ping", "stall-end"); err != nil {
			t.Fatal(err)
		}
		frames := []trace.Ev{}
		s2.rto = 20 * time.Second
		for {
			x, err := s2.read()
			if err != nil {
				t.Fatalf("stall round: waiting for the pong on s2: %v", err)
			}
			arr, _ := x.([]any)
			if len(arr) < 2 {
				frames = append(frames, trace.Ev{"k": "other"})
				continue
			}
			kind, _ := arr[0].(string)
			if kind == "pong" {
				break
			}
			if kind == "message" {
				m, _ := arr[2].(string)
				if strings.HasPrefix(m, fmt.Sprintf("M%d|", stuck)) {
					deliveries++
				}
				frames = append(frames, trace.Ev{"k": "message"})
			} else {
				frames = append(frames, trace.Ev{"k": kind})
			}
		}
		w.evals += stuck + 1
		tw.Emit(trace.Ev{"t": "reset", "seq": len(programs) + conc + r + 1, "conns": []trace.Ev{{"c": "s1", "m": r%2 + 1}, {"c": "s2", "m": r%2 + 1}}})
		tw.Emit(trace.Ev{"t": "stall", "ch": ch, "stuck": stuck, "count": count, "deliveries": deliveries, "frames": frames})
		s1.c.Close()
		s2.c.Close()
		pb.c.Close()
		time.Sleep(50 * time.Millisecond)
	}
	if err := tw.Close(); err != nil {
		t.Fatal(err)
	}
	sum := map[string]any{"evaluations": w.evals, "programs": len(programs), "from_tlc": fromTLC, "concurrent_rounds": conc, "stall_rounds": stall,
		"distinct_nontrivial": len(nontriv), "samples": samples}
	b, _ := json.MarshalIndent(sum, "", " ")
	os.WriteFile(filepath.Join(out, "ps.summary.json"), b, 0o644)
}
