//go:build verif

// Package reb applies joins, leaves, abrupt stops, routing pushes and balancer runs to real clusters
// with client operations placed between those steps, and logs a ledger trace (LedgerTrace.tla).
package reb

import (
	"context"
	"encoding/json"
	"fmt"
	"github.com/olric-data/olric/config"
	"math/rand"
	"os"
	"path/filepath"
	"strconv"
	"strings"
	"sync"
	"testing"
	"time"

	"github.com/olric-data/olric"
	"github.com/olric-data/olric/internal/cluster/partitions"
	"github.com/olric-data/olric/verifharness/cluster"
	"github.com/olric-data/olric/verifharness/sched"
	"github.com/olric-data/olric/verifharness/trace"
)

func envInt(name string, def int) int {
	if v := os.Getenv(name); v != "" {
		if n, err := strconv.Atoi(v); err == nil {
			return n
		}
	}
	return def
}

type world struct {
	c          *cluster.Cluster
	w          *trace.Writer
	rng        *rand.Rand
	dm         string
	keys       []string
	R          int
	evals      int
	vseq       int
	hadB       map[string]bool // the key's current version was written while >= R members were present and no member left since
	sinceLeave map[string]bool // the key was written after the last leave: its copy counts are asserted ("after joins")
	leaves     int
	crashes    int                 // members stopped abruptly at a step of a fragment move
	forgot     map[string]bool     // debug: keys no longer asserted
	dbg        map[string][]string // debug: per key, where its copies were at each phase
	lastPut    map[string]string   // debug: last acknowledged operation per key ("" = delete)
	unsettled  bool                // a member was lost in the middle of a hand-over and the cluster has not stabilised since: reads are recorded, not judged
	dms        map[int]olric.DMap
	fragOp     bool // an operation was issued while a partition had a previous owner holding data
	disturbed  int  // operations that ended in a transport error (membership was not as stable as assumed)
	wedged     bool // a call never returned: a fragment lock is held forever
}

func (w *world) client(m *cluster.Member) olric.DMap {
	if d, ok := w.dms[m.Index]; ok {
		return d
	}
	var d olric.DMap
	var err error
	for try := 0; try < 100; try++ {
		// a member that has just joined may not have counted its peers yet
		d, err = m.DB.NewEmbeddedClient().NewDMap(w.dm)
		if err == nil {
			break
		}
		time.Sleep(20 * time.Millisecond)
	}
	if err != nil {
		panic(fmt.Sprintf("harness: cannot open the DMap on member %d: %v", m.Index, err))
	}
	w.dms[m.Index] = d
	return d
}

func classify(err error) string {
	switch {
	case err == nil:
		return "ok"
	case err == olric.ErrKeyNotFound:
		return "notfound"
	}
	return "err:" + err.Error()
}

var errHang = fmt.Errorf("hang: the call did not return within 12 s")

// guarded runs f under a watchdog: a call that never returns (a wedged fragment lock) must not take the
// driver with it.
func guarded(f func() error) error {
	done := make(chan error, 1)
	go func() { done <- f() }()
	select {
	case err := <-done:
		return err
	case <-time.After(12 * time.Second):
		return errHang
	}
}

// transport reports whether an error is a transport-level failure (the outcome of the operation is open).
func transport(err error) bool {
	if err == nil {
		return false
	}
	s := err.Error()
	for _, x := range []string{"client is closed", "connection refused", "EOF", "i/o timeout", "broken pipe", "connection reset", "use of closed", "server is gone"} {
		if strings.Contains(s, x) {
			return true
		}
	}
	return false
}

func (w *world) step(s string) { w.w.Emit(trace.Ev{"t": "step", "what": s}) }

func (w *world) fragmented() bool {
	t := w.c.Live()[0].Table(w.c.Opts.Partitions)
	for p := range t.Owners {
		if len(t.Owners[p]) > 1 {
			return true
		}
	}
	return false
}

// viewsAgree: every live member reports the same table and member list (operations are only issued then).
func (w *world) viewsAgree() bool {
	live := w.c.Live()
	first := ""
	for i, m := range live {
		t := m.Table(w.c.Opts.Partitions)
		if len(t.Members) != len(live) {
			return false
		}
		if i == 0 {
			first = t.String()
		} else if t.String() != first {
			return false
		}
	}
	return true
}

func (w *world) waitViews() bool {
	deadline := time.Now().Add(10 * time.Second)
	for time.Now().Before(deadline) {
		w.c.Push()
		if w.viewsAgree() {
			w.c.Push()
			if w.viewsAgree() {
				return true
			}
		}
		time.Sleep(30 * time.Millisecond)
	}
	return false
}

func (w *world) ops(n int, phase string) {
	ctx := context.Background()
	live := w.c.Live()
	for j := 0; j < n && !w.wedged; j++ {
		k := w.keys[w.rng.Intn(len(w.keys))]
		m := live[w.rng.Intn(len(live))]
		d := w.client(m)
		if w.fragmented() {
			w.fragOp = true
		}
		w.evals++
		if w.rng.Intn(10) < 7 {
			w.vseq++
			v := fmt.Sprintf("v%d-%040d", w.vseq, 0)
			if T := w.c.Opts.TableSize; T > 0 && T <= 8192 && w.rng.Intn(6) == 0 {
				// an entry among the 30 largest a storage table accepts (key + value + 29 bytes of metadata < table size)
				if n := T - 29 - len(k) - 1 - w.rng.Intn(30); n > len(v) {
					v += strings.Repeat("z", n-len(v))
				}
			}
			var popts []olric.PutOption
			if w.rng.Intn(3) == 0 {
				popts = append(popts, olric.EX(time.Hour)) // an expiry far away: the value must survive every hand-over like any other
			}
			err := guarded(func() error { return d.Put(ctx, k, v, popts...) })
			if err == errHang {
				w.wedged = true
			}
			if transport(err) {
				w.disturbed++
			}
			w.w.Emit(trace.Ev{"t": "op", "op": "put", "k": k, "v": v, "ret": classify(err), "indeterminate": transport(err), "via": m.Index, "phase": phase})
			if err == nil {
				w.hadB[k] = len(live) >= w.R
				w.sinceLeave[k] = true
				if w.lastPut == nil {
					w.lastPut = map[string]string{}
				}
				w.lastPut[k] = v
			}
		} else {
			err := guarded(func() error { _, e := d.Delete(ctx, k); return e })
			if err == errHang {
				w.wedged = true
			}
			if transport(err) {
				w.disturbed++
			}
			w.w.Emit(trace.Ev{"t": "op", "op": "del", "k": k, "v": "", "ret": classify(err), "indeterminate": transport(err), "via": m.Index, "phase": phase})
			if w.lastPut != nil {
				w.lastPut[k] = ""
			}
			// "a delete removes it wherever it lives": right after an acknowledged Delete no fragment of any member holds the key
			// (white box).  Not while the members move tables on their own (a Delete may overlap a move there), and not after a
			// member was lost (the statement fixes the places of the copies after joins only).
			if err == nil && w.c.Opts.Manual && w.leaves == 0 {
				p, b := w.copies(k)
				w.w.Emit(trace.Ev{"t": "copies", "k": k, "primaries": p, "backups": b, "wantb": 0, "assertb": false, "phase": "right after the Delete, " + phase})
			}
		}
	}
}

// expiring writes keys with a 40 ms time-to-live, lets them expire and runs the background eviction routine
// on every member for every partition - also on members that are previous owners of a partition.
func (w *world) plantExpiring(phase string) ([]string, time.Time) {
	ctx := context.Background()
	live := w.c.Live()
	var ks []string
	for i := 0; i < 8; i++ {
		w.vseq++
		k := fmt.Sprintf("ttl%d", w.vseq)
		ks = append(ks, k)
		found := false
		for _, x := range w.keys {
			if x == k {
				found = true
			}
		}
		if !found {
			w.keys = append(w.keys, k)
		}
		v := fmt.Sprintf("t%d", w.vseq)
		err := w.client(live[w.rng.Intn(len(live))]).Put(ctx, k, v, olric.PX(400*time.Millisecond))
		w.w.Emit(trace.Ev{"t": "op", "op": "put", "k": k, "v": v, "ret": classify(err), "indeterminate": transport(err), "via": 0, "phase": phase})
	}
	return ks, time.Now().Add(410 * time.Millisecond)
}

// rescue overwrites some of the expiring keys with a plain Put and returns the keys that are left to expire.
func (w *world) rescue(ks []string, phase string) []string {
	ctx := context.Background()
	live := w.c.Live()
	var rest []string
	for i, k := range ks {
		if i%3 != 0 {
			rest = append(rest, k)
			continue
		}
		w.vseq++
		v := fmt.Sprintf("r%d", w.vseq)
		m := live[w.rng.Intn(len(live))]
		err := guarded(func() error { return w.client(m).Put(ctx, k, v) })
		w.w.Emit(trace.Ev{"t": "op", "op": "put", "k": k, "v": v, "ret": classify(err), "indeterminate": transport(err), "via": m.Index, "phase": phase,
			"note": "overwrite of an expiring key before its table moved"})
		if err == nil {
			w.hadB[k] = len(live) >= w.R
			w.sinceLeave[k] = true
		} else {
			rest = append(rest, k)
		}
	}
	return rest
}

func (w *world) reapExpired(ks []string, deadline time.Time, phase string) {
	live := w.c.Live()
	if d := time.Until(deadline); d > 0 {
		time.Sleep(d)
	}
	for _, k := range ks {
		// expired: the same as deleted for every later operation
		w.w.Emit(trace.Ev{"t": "op", "op": "del", "k": k, "v": "", "ret": "ok", "indeterminate": false, "via": -1, "phase": phase + " (expired)"})
	}
	for _, m := range live {
		done := make(chan struct{})
		go func(m *cluster.Member) {
			for p := uint64(0); p < w.c.Opts.Partitions; p++ {
				m.V.DMap.VerifEvictOnce(p)
			}
			close(done)
		}(m)
		ret := "ok"
		select {
		case <-done:
		case <-time.After(6 * time.Second):
			ret = "hang"
		}
		w.evals++
		w.w.Emit(trace.Ev{"t": "evict", "m": m.Index, "ret": ret, "phase": phase})
		if ret != "ok" {
			<-done // the client's read time-out ends the wait eventually
		}
	}
}

// readDuringMove holds the sender of the next primary table move at the point where it has exported the table (it holds its
// fragment lock; nothing has been sent yet), starts a read of every live key of that partition through every member, lets
// the move go on and records what the reads answered.  A read that began before the table arrived at the new owner and
// reaches the previous owner after it dropped the table must still find the value.
func (w *world) readDuringMove(ctl *sched.Controller, phase string) {
	c := w.c
	names := map[string]bool{}
	for _, m := range c.Live() {
		names[m.Name] = true
	}
	g := ctl.Hold("move.exported", 0, func(kv []any) bool {
		n, _ := kv[0].(string)
		d, _ := kv[1].(string)
		kind, _ := kv[3].(string)
		return names[n] && d == w.dm && kind == "Primary"
	})
	done := make(chan struct{})
	go func() { c.Balance(); close(done) }()
	kv, hit := g.WaitArrived(2 * time.Second)
	if !hit {
		g.Release()
		<-done
		return
	}
	partID, _ := kv[2].(uint64)
	type res struct {
		k    string
		from int
		v    string
		ret  string
	}
	var wg sync.WaitGroup
	var mu sync.Mutex
	var out []res
	n := 0
	for _, k := range w.keys {
		if partitions.HKey(w.dm, k)%c.Opts.Partitions != partID || w.lastPut[k] == "" || n >= 2 {
			continue
		}
		n++
		for _, m := range c.Live() {
			d := w.client(m)
			wg.Add(1)
			go func(k string, m *cluster.Member, d olric.DMap) {
				defer wg.Done()
				var g *olric.GetResponse
				err := guarded(func() error { var e error; g, e = d.Get(context.Background(), k); return e })
				r := res{k: k, from: m.Index, v: "nil", ret: "notfound"}
				if err == nil {
					r.ret = "val"
					r.v, _ = g.String()
				} else if transport(err) || err == errHang {
					return
				} else if err != olric.ErrKeyNotFound {
					r.ret = classify(err)
				}
				mu.Lock()
				out = append(out, r)
				mu.Unlock()
			}(k, m, d)
		}
	}
	// ... and a Delete of one more live key of that partition, through a random member: it holds nobody up, it is acknowledged
	// only when the key is gone, and the table that is under way does not bring the key back
	type delres struct {
		k   string
		via int
		err error
	}
	var dels []delres
	cnt := 0
	for _, k := range w.keys {
		if partitions.HKey(w.dm, k)%c.Opts.Partitions != partID || w.lastPut[k] == "" {
			continue
		}
		cnt++
		if cnt <= 2 || len(dels) >= 1 {
			continue // the first two live keys of the partition are the ones being read
		}
		live := c.Live()
		m := live[w.rng.Intn(len(live))]
		d := w.client(m)
		dels = append(dels, delres{k: k, via: m.Index})
		wg.Add(1)
		go func(i int, k string, d olric.DMap) {
			defer wg.Done()
			err := guarded(func() error { _, e := d.Delete(context.Background(), k); return e })
			mu.Lock()
			dels[i].err = err
			mu.Unlock()
		}(len(dels)-1, k, d)
	}
	time.Sleep(40 * time.Millisecond) // the reads have looked at the new owner's fragment and wait for the previous owner's
	g.Release()
	wg.Wait()
	<-done
	w.step(phase)
	for _, r := range out {
		w.evals++
		w.w.Emit(trace.Ev{"t": "read", "k": r.k, "from": r.from, "v": r.v, "ret": r.ret, "phase": phase, "settled": !w.unsettled, "live": len(c.Live())})
	}
	for _, dl := range dels {
		w.evals++
		if dl.err == errHang {
			w.wedged = true
		}
		if transport(dl.err) {
			w.disturbed++
		}
		w.w.Emit(trace.Ev{"t": "op", "op": "del", "k": dl.k, "v": "", "ret": classify(dl.err), "indeterminate": transport(dl.err), "via": dl.via, "phase": phase})
		if w.lastPut != nil {
			w.lastPut[dl.k] = ""
		}
	}
}

func (w *world) readAll(phase string) {
	ctx := context.Background()
	if os.Getenv("VERIF_DEBUG_LOST") != "" {
		if w.dbg == nil {
			w.dbg = map[string][]string{}
		}
		tab := w.c.Live()[0].Table(w.c.Opts.Partitions)
		for _, k := range w.keys {
			line := "[" + phase + "]"
			for _, x := range w.c.Live() {
				_, p := x.V.DMap.VerifEntry(w.dm, k, partitions.PRIMARY)
				_, b := x.V.DMap.VerifEntry(w.dm, k, partitions.BACKUP)
				line += fmt.Sprintf(" m%d(p=%v,b=%v)", x.Index, p, b)
			}
			_, part := w.c.OwnerOf(w.c.Live()[0], w.dm, k)
			line += fmt.Sprintf(" part=%d owners=%v backups=%v", part, tab.Owners[part], tab.Backups[part])
			w.dbg[k] = append(w.dbg[k], line)
		}
	}
	if dk := os.Getenv("VERIF_DEBUG_KEY"); dk != "" {
		line := fmt.Sprintf("DEBUG %s [%s]:", dk, phase)
		for _, m := range w.c.Live() {
			_, p := m.V.DMap.VerifEntry(w.dm, dk, partitions.PRIMARY)
			_, b := m.V.DMap.VerifEntry(w.dm, dk, partitions.BACKUP)
			line += fmt.Sprintf(" m%d(p=%v,b=%v)", m.Index, p, b)
		}
		owner, part := w.c.OwnerOf(w.c.Live()[0], w.dm, dk)
		tab := w.c.Live()[0].Table(w.c.Opts.Partitions)
		line += fmt.Sprintf(" part=%d owner=%d owners=%v backups=%v", part, owner.Index, tab.Owners[part], tab.Backups[part])
		fmt.Println(line)
	}
	for _, k := range w.keys {
		for _, m := range w.c.Live() {
			if w.wedged {
				return
			}
			var g *olric.GetResponse
			err := guarded(func() error { var e error; g, e = w.client(m).Get(ctx, k); return e })
			if err == errHang {
				w.wedged = true
			}
			v, ret := "nil", "notfound"
			if err == nil {
				ret = "val"
				v, _ = g.String()
			} else if transport(err) {
				w.disturbed++
				continue // no answer: nothing to judge
			} else if err != olric.ErrKeyNotFound {
				ret = classify(err)
			}
			w.evals++
			if os.Getenv("VERIF_DEBUG_LOST") != "" && ret == "notfound" && !w.unsettled && w.lastPut[k] != "" && !w.forgot[k] {
				fmt.Printf("DEBUGLOST %s [%s] from m%d last=%s\n  %s\n", k, phase, m.Index, w.lastPut[k], strings.Join(w.dbg[k], "\n  "))
			}
			w.w.Emit(trace.Ev{"t": "read", "k": k, "from": m.Index, "v": v, "ret": ret, "phase": phase, "settled": !w.unsettled, "live": len(w.c.Live())})
		}
	}
}

func (w *world) copies(k string) (prim, back int) {
	for _, m := range w.c.Live() {
		if _, ok := m.V.DMap.VerifEntry(w.dm, k, partitions.PRIMARY); ok {
			prim++
		}
		if _, ok := m.V.DMap.VerifEntry(w.dm, k, partitions.BACKUP); ok {
			back++
		}
	}
	return
}

func (w *world) copyCounts(phase string, assertBackups bool) {
	n := len(w.c.Live())
	want := w.R
	if n < want {
		want = n
	}
	for _, k := range w.keys {
		p, b := w.copies(k)
		if w.leaves > 0 && !w.sinceLeave[k] {
			continue // the statement fixes the copy counts after joins; a leave does not re-replicate
		}
		w.w.Emit(trace.Ev{"t": "copies", "k": k, "primaries": p, "backups": b, "wantb": want - 1, "assertb": assertBackups && w.hadB[k], "phase": phase})
	}
}

// holders counts the distinct live members that hold the newest copy of k.
func (w *world) holders(k string) int {
	var newest int64
	type cp struct {
		m  int
		ts int64
	}
	var cs []cp
	for _, m := range w.c.Live() {
		for _, kind := range []partitions.Kind{partitions.PRIMARY, partitions.BACKUP} {
			if e, ok := m.V.DMap.VerifEntry(w.dm, k, kind); ok {
				cs = append(cs, cp{m.Index, e.Timestamp})
				if e.Timestamp > newest {
					newest = e.Timestamp
				}
			}
		}
	}
	set := map[int]bool{}
	for _, c := range cs {
		if c.ts == newest {
			set[c.m] = true
		}
	}
	return len(set)
}

// beforeLoss drops from the assertion every key that does not have its newest version on R distinct
// live members (appendix F, O2): the statement protects only those.
func (w *world) beforeLoss(present map[string]bool) {
	for _, k := range w.keys {
		if h := w.holders(k); h > 0 && h < w.R {
			if w.forgot == nil {
				w.forgot = map[string]bool{}
			}
			w.forgot[k] = true
			w.w.Emit(trace.Ev{"t": "forget", "k": k, "why": fmt.Sprintf("newest version on %d members, R=%d", h, w.R)})
		}
	}
}

type summary struct {
	Evaluations        int      `json:"evaluations"`
	Scenarios          int      `json:"scenarios"`
	DistinctNontrivial int      `json:"distinct_nontrivial"`
	NotStabilised      int      `json:"not_stabilised"`
	Crashes            int      `json:"crashes_at_move_steps"`
	Disturbed          int      `json:"transport_errors"`
	Notes              []string `json:"notes"`
	Samples            []any    `json:"samples"`
	Configs            []string `json:"configs"`
}

func writeSummary(out, name string, s *summary) {
	b, _ := json.MarshalIndent(s, "", " ")
	os.WriteFile(filepath.Join(out, name), b, 0o644)
}

// TestC03 : joins (and leaves, for R >= 2) with operations placed after the routing push but before any
// table moved, between table moves and after; every read from every member is logged at each point.
// hk: clusters with small storage tables run the real janitor and compaction timers
func hk(T int) time.Duration {
	if T > 0 {
		return 30 * time.Millisecond
	}
	return 0
}

var crashPoints = []string{"move.exported", "move.sent", "merge.locked", "merge.conflict", "merge.done"}

func TestC03(t *testing.T) {
	out := os.Getenv("VERIF_OUT")
	if out == "" {
		t.Skip("VERIF_OUT not set")
	}
	rng := rand.New(rand.NewSource(int64(envInt("VERIF_SEED", 1))))
	ctl := sched.Install(int64(envInt("VERIF_SEED", 1)))
	nscen := envInt("VERIF_SCENARIOS", 12)
	tw, err := trace.New(filepath.Join(out, "c03.ndjson"))
	if err != nil {
		t.Fatal(err)
	}
	sum := &summary{}
	var mu sync.Mutex
	var wg sync.WaitGroup
	sem := make(chan struct{}, 4)
	type res struct {
		evs []trace.Ev
	}
	for s := 0; s < nscen; s++ {
		s := s
		seed := rng.Int63()
		if only := envInt("VERIF_ONLY", -1); only >= 0 && only != s {
			continue
		}
		wg.Add(1)
		sem <- struct{}{}
		go func() {
			defer wg.Done()
			defer func() { <-sem }()
			path := filepath.Join(out, fmt.Sprintf("c03-%d.part", s))
			pw, err := trace.New(path)
			if err != nil {
				panic(err)
			}
			finished := make(chan struct{})
			go func() {
				defer close(finished)
				rng := rand.New(rand.NewSource(seed))
				R := 1 + rng.Intn(2)
				n0 := 1 + rng.Intn(3)
				T := []int{512, 512, 0}[rng.Intn(3)]
				c, err := cluster.Start(cluster.Options{Replicas: R, Partitions: 7, TableSize: T, Manual: s%4 != 3, Housekeeping: hk(T),
					DMaps: func(d *config.DMaps) {
						if s%3 == 1 {
							d.MaxIdleDuration = time.Hour // idle eviction configured, with a window nothing ever reaches
						}
					}}, n0) // every fourth scenario runs with the members' own push and balancer timers
				if err != nil {
					panic(err)
				}
				label := fmt.Sprintf("R=%d start=%d T=%d manual=%v idle-window=%v", R, n0, T, s%4 != 3, s%3 == 1)
				// every second scenario uses a DMap whose own name begins with the prefix that fragment names carry
				dmName := []string{"reb", "dmap.reb"}[s%2]
				label += " dmap=" + dmName
				w := &world{c: c, w: pw, rng: rng, dm: dmName, R: R, hadB: map[string]bool{}, sinceLeave: map[string]bool{}, dms: map[int]olric.DMap{}}
				for i := 0; i < 24; i++ {
					w.keys = append(w.keys, fmt.Sprintf("k%d", i))
				}
				// the members' views of the routing table must agree before anything is judged; a scenario in which they do not
				// (within 10 s, membership unchanged) is counted: too many of them make the run inconclusive
				var desc []string
				viewsOrNote := func() bool {
					if w.waitViews() {
						return true
					}
					mu.Lock()
					sum.NotStabilised++
					sum.Notes = append(sum.Notes, fmt.Sprintf("scenario %d %v: the members' routing tables did not agree within 10 s", s+1, desc))
					mu.Unlock()
					return false
				}
				pw.Emit(trace.Ev{"t": "reset", "seq": s + 1, "cfg": label})
				w.ops(60, "initial")
				// two more DMaps share the partitions (not asserted, they are there for the balancer to deal with): one with
				// live keys, one whose keys were all deleted again, so that its fragments exist and are empty
				if side, err := c.Members[0].DB.NewEmbeddedClient().NewDMap("side"); err == nil {
					for i := 0; i < 30; i++ {
						side.Put(context.Background(), fmt.Sprintf("s%d", i), "x")
					}
				}
				if empty, err := c.Members[0].DB.NewEmbeddedClient().NewDMap("emptied"); err == nil {
					for i := 0; i < 30; i++ {
						empty.Put(context.Background(), fmt.Sprintf("e%d", i), "x")
					}
					for i := 0; i < 30; i++ {
						empty.Delete(context.Background(), fmt.Sprintf("e%d", i))
					}
				}
				w.readAll("initial")
				events := 1 + rng.Intn(3)
				var held []*sched.Gate
				ok := true
				for e := 0; e < events && ok && !w.wedged; e++ {
					canLeave := R >= 2 && len(c.Live()) > R
					joined := false
					if canLeave && rng.Intn(3) == 0 {
						// a leave: only keys whose newest version is on R distinct members stay asserted
						if err := c.WaitStable(15*time.Second, false); err != nil {
							ok = false
							break
						}
						w.beforeLoss(nil)
						victim := c.Live()[rng.Intn(len(c.Live()))]
						graceful := rng.Intn(2) == 0
						desc = append(desc, fmt.Sprintf("leave(%d,%v)", victim.Index, graceful))
						w.step(desc[len(desc)-1])
						delete(w.dms, victim.Index)
						c.Stop(victim, graceful)
						w.leaves++
						w.sinceLeave = map[string]bool{}
						w.hadB = map[string]bool{}
						if !viewsOrNote() {
							ok = false
							break
						}
					} else if len(c.Live()) < 5 {
						desc = append(desc, "join")
						joined = true
						ttlKeys, ttlDeadline := w.plantExpiring("before the join")
						w.step("join")
						if _, err := c.AddMember(); err != nil {
							panic(err)
						}
						if !viewsOrNote() {
							ok = false
							break
						}
						// a third of the expiring keys is overwritten without expiry through the new routing table before the
						// deadline: the old, expiring version stays on the previous owner of the partition
						ttlKeys = w.rescue(ttlKeys, "after push, before any move")
						// the others expire while the previous owner of their partition still holds them
						w.reapExpired(ttlKeys, ttlDeadline, "after push, before any move")
						if len(c.Live()) < 5 && rng.Intn(2) == 0 {
							// a second join before anything was moved: partitions get two previous owners, the older of
							// which holds the data
							w.readAll("after the first of two joins")
							w.ops(8, "after the first of two joins")
							desc = append(desc, "join")
							w.step("join (second in a row)")
							if _, err := c.AddMember(); err != nil {
								panic(err)
							}
							if !viewsOrNote() {
								ok = false
								break
							}
						}
					} else {
						continue
					}
					// after the push, before any table moved
					w.readAll("after push, before any move")
					w.ops(20, "after push, before any move")
					w.readAll("after push and operations")
					for mv := 1; mv <= 2; mv++ {
						if mv == 1 && joined && R >= 2 && len(c.Live()) > R && rng.Intn(2) == 0 {
							// a crash of the sender or of the receiver at one step of a fragment move: the member that
							// reaches the chosen point first is stopped abruptly while its goroutine is held there
							point := crashPoints[rng.Intn(len(crashPoints))]
							w.beforeLoss(nil)
							names := map[string]bool{}
							for _, m := range c.Live() {
								names[m.Name] = true
							}
							g := ctl.Hold(point, rng.Intn(3), func(kv []any) bool {
								n, _ := kv[0].(string)
								return names[n]
							})
							go c.Balance()
							if kv, hit := g.WaitArrived(3 * time.Second); hit {
								victim := c.ByName(kv[0].(string))
								desc = append(desc, fmt.Sprintf("crash(%d at %s)", victim.Index, point))
								w.step(desc[len(desc)-1])
								delete(w.dms, victim.Index)
								stopped := make(chan struct{})
								go func() { c.Stop(victim, false); close(stopped) }()
								select {
								case <-stopped:
								case <-time.After(8 * time.Second):
								}
								// the goroutine that was stopped at the point stays there until the scenario is over: a crashed
								// process does not finish the merge, acknowledge the move or send what it had exported
								held = append(held, g)
								w.leaves++
								w.crashes++
								w.unsettled = true
								w.sinceLeave = map[string]bool{}
								w.hadB = map[string]bool{}
								if !viewsOrNote() {
									ok = false
									break
								}
								// how many copies of each key the surviving members hold (white box): a key whose primary and backup
								// copy both sat on the crashed member is known finding D26, told apart by this record
								for _, k := range w.keys {
									p, b := w.copies(k)
									w.w.Emit(trace.Ev{"t": "survivors", "k": k, "n": p + b, "phase": "after a crash at " + point})
								}
								w.readAll("after a crash at " + point)
							} else {
								g.Release()
							}
						}
						if joined && !w.unsettled && rng.Intn(2) == 0 {
							w.readDuringMove(ctl, fmt.Sprintf("reads that overlap a table move (balancer run %d)", mv))
						}
						c.Balance()
						if !viewsOrNote() {
							ok = false
							break
						}
						w.step(fmt.Sprintf("balancer run %d", mv))
						w.readAll(fmt.Sprintf("after balancer run %d", mv))
						w.ops(8, fmt.Sprintf("between table moves (%d)", mv))
						w.readAll(fmt.Sprintf("after operations between moves (%d)", mv))
					}
					if !ok {
						break
					}
					if err := c.WaitStable(20*time.Second, true); err != nil {
						mu.Lock()
						sum.NotStabilised++
						sum.Notes = append(sum.Notes, fmt.Sprintf("scenario %d %v: %v", s+1, desc, err))
						mu.Unlock()
						ok = false
						break
					}
					w.step("stable")
					w.unsettled = false
					w.readAll("stable")
					w.copyCounts("stable", true)
					w.ops(10, "after stabilisation")
					w.readAll("after stabilisation")
				}
				c.ShutdownAsync()
				for _, g := range held {
					g.Release()
				}
				mu.Lock()
				sum.Evaluations += w.evals
				sum.Disturbed += w.disturbed
				sum.Crashes += w.crashes
				sum.Scenarios++
				sum.Configs = append(sum.Configs, label+" "+fmt.Sprint(desc))
				if ok && w.fragOp {
					sum.DistinctNontrivial++
				}
				if len(sum.Samples) < 2 {
					sum.Samples = append(sum.Samples, map[string]any{"cfg": label, "events": desc})
				}
				mu.Unlock()
			}()
			select {
			case <-finished:
			case <-time.After(150 * time.Second):
				// some call into a member never returned (a fragment lock held forever): the scenario is over
				pw.Emit(trace.Ev{"t": "op", "op": "scenario", "k": "-", "v": "", "ret": "hang: the scenario did not finish within 150 s; a member is wedged", "indeterminate": false, "via": -1, "phase": "watchdog"})
				mu.Lock()
				sum.Scenarios++
				mu.Unlock()
			}
			pw.Close()
		}()
	}
	wg.Wait()
	for s := 0; s < nscen; s++ {
		b, err := os.ReadFile(filepath.Join(out, fmt.Sprintf("c03-%d.part", s)))
		if err == nil {
			tw.Raw(b)
		}
	}
	cluster.WaitBackground(20 * time.Second)
	tw.Close()
	writeSummary(out, "c03.summary.json", sum)
}

// TestC02 : acknowledged writes survive the stop of up to R-1 members.
func TestC02(t *testing.T) {
	out := os.Getenv("VERIF_OUT")
	if out == "" {
		t.Skip("VERIF_OUT not set")
	}
	rng := rand.New(rand.NewSource(int64(envInt("VERIF_SEED", 1))))
	nscen := envInt("VERIF_SCENARIOS", 12)
	tw, err := trace.New(filepath.Join(out, "c02.ndjson"))
	if err != nil {
		t.Fatal(err)
	}
	sum := &summary{}
	var mu sync.Mutex
	var wg sync.WaitGroup
	sem := make(chan struct{}, 4)
	for s := 0; s < nscen; s++ {
		s := s
		seed := rng.Int63()
		wg.Add(1)
		sem <- struct{}{}
		go func() {
			defer wg.Done()
			defer func() { <-sem }()
			path := filepath.Join(out, fmt.Sprintf("c02-%d.part", s))
			pw, err := trace.New(path)
			if err != nil {
				panic(err)
			}
			finished := make(chan struct{})
			go func() {
				defer close(finished)
				rng := rand.New(rand.NewSource(seed))
				R := 2 + rng.Intn(2)
				N := R + rng.Intn(3) // N = R (no spare member: after a failure fewer than R remain) .. R+2
				if N > 5 {
					N = 5
				}
				if N < 3 {
					N = 3
				}
				rr := rng.Intn(2) == 0
				// every second scenario has small storage tables, and then some values as large as a table takes
				c, err := cluster.Start(cluster.Options{Replicas: R, Partitions: 13, ReadRepair: rr, Manual: s%4 != 3, TableSize: []int{0, 4096}[s%2]}, N)
				if err != nil {
					panic(err)
				}
				label := fmt.Sprintf("N=%d R=%d read-repair=%v", N, R, rr)
				w := &world{c: c, w: pw, rng: rng, dm: "dur", R: R, hadB: map[string]bool{}, sinceLeave: map[string]bool{}, dms: map[int]olric.DMap{}}
				for i := 0; i < 30; i++ {
					w.keys = append(w.keys, fmt.Sprintf("k%d", i))
				}
				pw.Emit(trace.Ev{"t": "reset", "seq": s + 1, "cfg": label})
				// every asserted key is written after the cluster reached its final size
				w.ops(90, "healthy")
				w.readAll("healthy")
				nfail := 1 + rng.Intn(R-1)
				var desc []string
				ok := true
				heldCopy := false
				for f := 0; f < nfail && ok; f++ {
					if err := c.WaitStable(15*time.Second, false); err != nil {
						ok = false
						break
					}
					// every asserted key was acknowledged while >= R members were present, and at most R-1 members fail in
					// all: no key is dropped from the assertion here, however few copies the members hold by now
					live := c.Live()
					var victim *cluster.Member
					switch rng.Intn(3) {
					case 0:
						victim = live[0] // the oldest member is the coordinator
					default:
						victim = live[rng.Intn(len(live))]
					}
					// did the victim hold a copy of an asserted key?
					for _, k := range w.keys {
						for _, kind := range []partitions.Kind{partitions.PRIMARY, partitions.BACKUP} {
							if _, has := victim.V.DMap.VerifEntry(w.dm, k, kind); has {
								heldCopy = true
							}
						}
					}
					graceful := rng.Intn(2) == 0
					during := rng.Intn(2) == 0
					desc = append(desc, fmt.Sprintf("stop(member %d coordinator=%v graceful=%v during-workload=%v)", victim.Index, victim == live[0], graceful, during))
					w.step(desc[len(desc)-1])
					delete(w.dms, victim.Index)
					stopWorkload := make(chan struct{})
					var wl sync.WaitGroup
					if during {
						// a workload runs while the member goes away: what it touches is no longer asserted
						// (not acknowledged in a healthy cluster); everything else must be unaffected
						touched := w.keys[20:]
						for _, k := range touched {
							pw.Emit(trace.Ev{"t": "forget", "k": k, "why": "operated on while a member was stopping"})
						}
						survivors := []*cluster.Member{}
						for _, m := range live {
							if m != victim {
								survivors = append(survivors, m)
							}
						}
						clients := []olric.DMap{}
						for _, m := range survivors {
							clients = append(clients, w.client(m))
						}
						wl.Add(1)
						go func() {
							defer wl.Done()
							r2 := rand.New(rand.NewSource(seed + 7))
							ctx := context.Background()
							for {
								select {
								case <-stopWorkload:
									return
								default:
								}
								k := touched[r2.Intn(len(touched))]
								d := clients[r2.Intn(len(clients))]
								if r2.Intn(3) == 0 {
									d.Delete(ctx, k)
								} else {
									d.Put(ctx, k, fmt.Sprintf("w%d", r2.Intn(1000)))
								}
							}
						}()
						time.Sleep(time.Duration(rng.Intn(20)) * time.Millisecond)
					}
					c.Stop(victim, graceful)
					w.leaves++
					stable := w.waitViews()
					time.Sleep(time.Duration(rng.Intn(60)) * time.Millisecond)
					close(stopWorkload)
					wl.Wait()
					if stable {
						stable = c.WaitStable(20*time.Second, false) == nil
					}
					if !stable {
						mu.Lock()
						sum.NotStabilised++
						sum.Notes = append(sum.Notes, fmt.Sprintf("scenario %d %v: did not stabilise", s+1, desc))
						mu.Unlock()
						ok = false
						break
					}
					w.step("stable after the stop")
					// white box: how many copies of each key the surviving members store (tells known finding D27 - a copy that
					// is stored but cannot be read - from a copy that is gone)
					for _, k := range w.keys {
						p, b := w.copies(k)
						w.w.Emit(trace.Ev{"t": "survivors", "k": k, "n": p + b, "phase": "after the stop"})
					}
					w.readAll("after the stop")
				}
				if ok {
					// plain operations after the failure behave as in a healthy cluster
					w.ops(40, "after the failure")
					w.readAll("after operations on the surviving copies")
					if err := c.WaitStable(15*time.Second, false); err == nil {
						w.readAll("finally")
					}
				}
				c.ShutdownAsync()
				mu.Lock()
				sum.Evaluations += w.evals
				sum.Disturbed += w.disturbed
				sum.Scenarios++
				sum.Configs = append(sum.Configs, label+" "+fmt.Sprint(desc))
				if ok && heldCopy {
					sum.DistinctNontrivial++
				}
				if len(sum.Samples) < 2 {
					sum.Samples = append(sum.Samples, map[string]any{"cfg": label, "failures": desc})
				}
				mu.Unlock()
			}()
			select {
			case <-finished:
			case <-time.After(180 * time.Second):
				pw.Emit(trace.Ev{"t": "op", "op": "scenario", "k": "-", "v": "", "ret": "hang: the scenario did not finish within 180 s; a member is wedged", "indeterminate": false, "via": -1, "phase": "watchdog"})
				mu.Lock()
				sum.Scenarios++
				mu.Unlock()
			}
			pw.Close()
		}()
	}
	wg.Wait()
	for s := 0; s < nscen; s++ {
		b, err := os.ReadFile(filepath.Join(out, fmt.Sprintf("c02-%d.part", s)))
		if err == nil {
			tw.Raw(b)
		}
	}
	cluster.WaitBackground(20 * time.Second)
	tw.Close()
	writeSummary(out, "c02.summary.json", sum)
}
