//go:build verif

package reg

import (
	"context"
	"fmt"
	"math/rand"
	"sync"
	"time"

	"github.com/olric-data/olric/internal/cluster/partitions"
	"github.com/olric-data/olric/verifharness/cluster"
	"github.com/olric-data/olric/verifharness/trace"
)

// janitorRounds: the schedule of FragLife_old.cfg on the REPLICA write path, by brute force (there is no trace point between
// the lookup of the backup fragment and its lock).  Two members, two copies.  Before every attempt the backup fragment of the
// key's partition exists and is empty; then the janitor of the backup owner and a Put through the owner are started at
// (nearly) the same instant, the janitor after a random delay of up to 300 microseconds.  Whatever the schedule, an
// acknowledged Put has reached the backup copy (ReplicaTrace: Mirror); a write that waited for the lock of a fragment the
// janitor was wiping must have looked the fragment up again.
func janitorRounds(w *trace.Writer, sum *summary, seq *int, rng *rand.Rand, attempts int) error {
	c, err := cluster.Start(cluster.Options{Replicas: 2, Partitions: 7, Manual: true}, 2)
	if err != nil {
		return err
	}
	defer c.Shutdown()
	ctx := context.Background()
	cfg := "N=2 R=2, the backup owner's janitor started together with the Put (empty backup fragment)"
	sum.Configs = append(sum.Configs, cfg)
	t0 := time.Now().UnixMilli()
	// keys of one partition whose owner is member 0 and whose backup owner is member 1
	var keys []string
	part := uint64(99)
	for i := 0; len(keys) < attempts+1 && i < 100*attempts+1000; i++ {
		k := fmt.Sprintf("jr%d", i)
		o, p := c.OwnerOf(c.Live()[0], "c04j", k)
		if o == nil || o.Index != 0 {
			continue
		}
		if part == 99 {
			part = p
		}
		if p == part {
			keys = append(keys, k)
		}
	}
	if len(keys) < 2 {
		return nil
	}
	a, b := c.Members[0], c.Members[1]
	p := Embedded(a)
	defer p.Close()
	// the fragments exist and are empty
	p.Put(ctx, "c04j", keys[0], "x", PutOpts{})
	p.Delete(ctx, "c04j", keys[0])
	for i, key := range keys[1:] {
		if !b.V.DMap.VerifHasFragment("c04j", part, partitions.BACKUP) {
			// wiped by the last attempt's janitor: bring it back, empty
			p.Put(ctx, "c04j", keys[0], "x", PutOpts{})
			p.Delete(ctx, "c04j", keys[0])
		}
		var wg sync.WaitGroup
		var rep Reply
		delay := time.Duration(rng.Intn(300)) * time.Microsecond
		start := make(chan struct{})
		wg.Add(2)
		go func() {
			defer wg.Done()
			<-start
			rep = p.Put(ctx, "c04j", key, fmt.Sprintf("v%d", i), PutOpts{})
		}()
		go func() {
			defer wg.Done()
			<-start
			for t := time.Now(); time.Since(t) < delay; {
			}
			b.V.DMap.VerifJanitor()
		}()
		close(start)
		wg.Wait()
		ev := trace.Ev{"t": "op", "op": "put", "ret": rep.Ret, "path": p.Name() + "+janitor", "k": key, "expired": false,
			"detail": rep.Err, "copies": copiesOf(c, "c04j", key, t0)}
		evs := []trace.Ev{ev}
		rankTimestamps(evs)
		*seq++
		w.Emit(trace.Ev{"t": "reset", "seq": *seq, "cfg": cfg, "key": key, "kind": "str"})
		w.Emit(ev)
		sum.Evaluations++
		p.Delete(ctx, "c04j", key)
	}
	sum.Histories++
	sum.DistinctNontrivial++
	return nil
}
