//go:build verif

package reg

import (
	"context"
	"fmt"
	"math/rand"
	"os"
	"path/filepath"
	"sort"
	"strings"
	"sync"
	"testing"
	"time"

	"github.com/olric-data/olric/config"
	"github.com/olric-data/olric/internal/cluster/partitions"
	"github.com/olric-data/olric/verifharness/cluster"
	"github.com/olric-data/olric/verifharness/trace"
)

// copiesOf reads, white box, the copy of key held by every member's primary and backup fragment.
func copiesOf(c *cluster.Cluster, dm, key string, t0 int64) []trace.Ev {
	view := c.Live()[0]
	owner, _ := c.OwnerOf(view, dm, key)
	backups := map[string]bool{}
	for _, b := range c.BackupsOf(view, dm, key) {
		backups[b.Name] = true
	}
	var out []trace.Ev
	for _, m := range c.Live() {
		role := "other"
		if owner != nil && m.Name == owner.Name {
			role = "owner"
		} else if backups[m.Name] {
			role = "backup"
		}
		for _, kind := range []partitions.Kind{partitions.PRIMARY, partitions.BACKUP} {
			k := "p"
			if kind == partitions.BACKUP {
				k = "b"
			}
			e, ok := m.V.DMap.VerifEntry(dm, key, kind)
			expected := (role == "owner" && k == "p") || (role == "backup" && k == "b")
			if !ok && !expected {
				continue
			}
			ev := trace.Ev{"m": m.Index, "role": role, "kind": k, "present": ok, "v": "", "ttl": 0, "ts": 0, "rawts": int64(0)}
			if ok {
				ev["v"] = fmt.Sprintf("%q", string(e.Value))
				if e.TTL != 0 {
					ev["ttl"] = int(e.TTL - t0)
				}
				ev["rawts"] = e.Timestamp
			}
			out = append(out, ev)
		}
	}
	return out
}

// rankTimestamps replaces the nanosecond write timestamps of a sequence by their ranks (order and
// equality are all the specification looks at; TLC's integers are 32 bit).
func rankTimestamps(evs []trace.Ev) {
	set := map[int64]bool{}
	for _, e := range evs {
		cs, _ := e["copies"].([]trace.Ev)
		for _, c := range cs {
			if ts := c["rawts"].(int64); ts != 0 {
				set[ts] = true
			}
		}
	}
	var all []int64
	for ts := range set {
		all = append(all, ts)
	}
	sort.Slice(all, func(i, j int) bool { return all[i] < all[j] })
	rank := map[int64]int{}
	for i, ts := range all {
		rank[ts] = i + 1
	}
	for _, e := range evs {
		cs, _ := e["copies"].([]trace.Ev)
		for _, c := range cs {
			c["ts"] = rank[c["rawts"].(int64)]
			delete(c, "rawts")
		}
	}
}

// TestC04 issues sequences of mutating operations and logs every copy after each reply.
func TestC04(t *testing.T) {
	out := os.Getenv("VERIF_OUT")
	if out == "" {
		t.Skip("VERIF_OUT not set")
	}
	rng := rand.New(rand.NewSource(int64(envInt("VERIF_SEED", 1))))
	nseq := envInt("VERIF_SEQUENCES", 60)
	w, err := trace.New(filepath.Join(out, "c04.ndjson"))
	if err != nil {
		t.Fatal(err)
	}
	sum := &summary{Paths: map[string]int{}}
	seq := 0
	ms := func(n int) time.Duration { return time.Duration(n) * time.Millisecond }
	ctx := context.Background()
	cancelled, cancel := context.WithCancel(ctx)
	cancel()
	seen := map[string]bool{}
	for _, cfgc := range []struct {
		N, R int
		T    int
	}{{3, 2, 0}, {3, 3, 0}, {3, 2, 512}} {
		c, err := cluster.Start(cluster.Options{Replicas: cfgc.R, Partitions: 7, Manual: true, TableSize: cfgc.T, Housekeeping: housekeeping(cfgc.T),
			DMaps: func(d *config.DMaps) { d.NumEvictionWorkers = 1 }}, cfgc.N)
		if err != nil {
			t.Fatal(err)
		}
		cfg := fmt.Sprintf("N=%d R=%d T=%d", cfgc.N, cfgc.R, cfgc.T)
		sum.Configs = append(sum.Configs, cfg)
		paths := allPaths(t, c)
		if cfgc.T > 0 {
			for j := 0; j < 200; j++ {
				paths[0].Put(ctx, "c04", fmt.Sprintf("fill-%d", rng.Intn(90)), fmt.Sprintf("%070d", j), PutOpts{})
			}
		}
		for s := 0; s < nseq; s++ {
			key := fmt.Sprintf("m%d-%d-%d", cfgc.R, cfgc.T, s)
			kind := []string{"str", "str", "num", "lock"}[rng.Intn(4)]
			n := 2 + rng.Intn(3)
			t0 := time.Now().UnixMilli()
			var evs []trace.Ev
			var held Locked
			var heldPath Path
			sig := kind
			expiresAt := int64(0) // absolute ms at which the key expires, 0 = never / unknown
			for j := 0; j < n; j++ {
				if cfgc.T > 0 && j > 0 && rng.Intn(2) == 0 {
					// unrecorded filler keys of the same partition: the key's current version ends up in an older table
					_, part := c.OwnerOf(c.Live()[0], "c04", key)
					for f, wrote := 0, 0; wrote < 5 && f < 400; f++ {
						fk := fmt.Sprintf("fill-%d-%d", s, rng.Intn(100000))
						if partitions.HKey("c04", fk)%7 == part {
							paths[0].Put(ctx, "c04", fk, fmt.Sprintf("%070d", f), PutOpts{})
							wrote++
						}
					}
				}
				p := paths[rng.Intn(len(paths))]
				sum.Paths[p.Name()]++
				var rep Reply
				op := ""
				// every seventh operation is called with a context that is already cancelled (callers do that): whatever the reply,
				// it either did nothing or all of it - an acknowledged operation has reached every copy
				opctx, how := ctx, ""
				if rng.Intn(7) == 0 {
					opctx, how = cancelled, "+cancelled"
				}
				switch kind {
				case "str":
					switch x := rng.Intn(100); {
					case x < 30:
						o := PutOpts{NX: rng.Intn(4) == 0, XX: false}
						if !o.NX && rng.Intn(4) == 0 {
							o.XX = true
						}
						if rng.Intn(2) == 0 {
							o.Mode, o.D = []string{"EX", "PX"}[rng.Intn(2)], ms(60+rng.Intn(100))
						}
						op = "put"
						val := fmt.Sprintf("v%d-%s", j, key)
						if cfgc.T > 0 && rng.Intn(3) == 0 {
							// an entry about as large as a storage table can hold: stored size = key + value + 29 bytes of
							// metadata, from 34 bytes under the table size to 3 bytes over it
							if n := cfgc.T - 29 - len(key) + 3 - rng.Intn(38); n > len(val) {
								val += strings.Repeat("b", n-len(val))
							}
						}
						rep = p.Put(opctx, "c04", key, val, o)
						if rep.Ret == "ok" {
							expiresAt = 0
							if o.Mode != "" {
								expiresAt = time.Now().Add(o.D).UnixMilli()
							}
						}
					case x < 45:
						op = "expire"
						d := ms(60 + rng.Intn(100))
						rep = p.Expire(opctx, "c04", key, d, rng.Intn(2) == 0)
						if rep.Ret == "ok" {
							expiresAt = time.Now().Add(d).UnixMilli()
						}
					case x < 60:
						op = "getput"
						rep = p.GetPut(opctx, "c04", key, fmt.Sprintf("g%d-%s", j, key))
						expiresAt = 0
					case x < 75:
						op = "del"
						rep = p.Delete(opctx, "c04", key)
					default:
						// wait for the deadline, then let the background sampler's routine remove the key
						if expiresAt == 0 {
							continue
						}
						if d := time.Until(time.UnixMilli(expiresAt + 3)); d > 0 {
							time.Sleep(d)
						}
						op = "evict"
						owner, part := c.OwnerOf(c.Live()[0], "c04", key)
						// one pass of the sampler looks at a handful of keys of one storage table of the fragment: repeat until it
						// has come across this key (in a fragment with thousands of keys that takes a while)
						evicted := false
						for until := time.Now().Add(10 * time.Second); time.Now().Before(until); {
							owner.V.DMap.VerifEvictOnce(part)
							if _, ok := owner.V.DMap.VerifEntry("c04", key, partitions.PRIMARY); !ok {
								evicted = true
								break
							}
						}
						if !evicted {
							continue // the sampler has not found the key: there is no eviction to judge
						}
						rep = Reply{Ret: "ok"}
					}
				case "num":
					switch x := rng.Intn(100); {
					case x < 40:
						op = "incr"
						rep = p.Incr(opctx, "c04", key, 1+rng.Intn(4))
					case x < 60:
						op = "decr"
						rep = p.Decr(opctx, "c04", key, 1+rng.Intn(4))
					case x < 80:
						op = "expire"
						d := ms(80 + rng.Intn(100))
						rep = p.Expire(opctx, "c04", key, d, true)
						if rep.Ret == "ok" {
							expiresAt = time.Now().Add(d).UnixMilli()
						}
					default:
						op = "del"
						rep = p.Delete(opctx, "c04", key)
					}
				case "lock":
					if _, ok := p.(*pipePath); ok {
						continue
					}
					switch {
					case held == nil:
						op = "lock"
						tau := time.Duration(0)
						if rng.Intn(2) == 0 {
							tau = ms(300)
						}
						var l Locked
						rep, l = p.Lock(opctx, "c04", key, tau, ms(30))
						if rep.Ret == "ok" {
							held, heldPath = l, p
							expiresAt = 0
							if tau > 0 {
								expiresAt = time.Now().Add(tau).UnixMilli()
							}
						}
					case rng.Intn(2) == 0:
						op = "lease"
						rep = held.Lease(opctx, ms(250))
						if rep.Ret == "ok" {
							expiresAt = time.Now().Add(ms(250)).UnixMilli()
						}
						p = heldPath
					default:
						op = "unlock"
						rep = held.Unlock(opctx)
						if rep.Ret == "ok" || how == "" {
							held = nil
						}
						p = heldPath
					}
				}
				if op == "" {
					continue
				}
				sum.Evaluations++
				sig += "/" + op + how + ":" + rep.Ret + "@" + p.Name()
				expired := expiresAt != 0 && time.Now().UnixMilli() >= expiresAt-2
				evs = append(evs, trace.Ev{"t": "op", "op": op, "ret": rep.Ret, "path": p.Name() + how, "k": key, "expired": expired,
					"detail": rep.Err, "copies": copiesOf(c, "c04", key, t0)})
			}
			if len(evs) == 0 {
				continue
			}
			rankTimestamps(evs)
			seq++
			w.Emit(trace.Ev{"t": "reset", "seq": seq, "cfg": cfg, "key": key, "kind": kind})
			for _, e := range evs {
				w.Emit(e)
			}
			sum.Histories++
			if !seen[sig] {
				seen[sig] = true
				sum.DistinctNontrivial++
			}
			if len(sum.Samples) < 2 {
				sum.Samples = append(sum.Samples, map[string]any{"cfg": cfg, "key": key, "events": evs})
			}
		}
		// Mirror at quiescence (DMapKey.tla): several mutating operations on one key released at the same instant -
		// their write timestamps are taken before the fragment lock, so lock order and timestamp order differ - and, once all
		// have returned, every backup copy must equal the primary.  Also the hand-over of a lock to a waiter whose request
		// is older than the holder's last lease.
		for r := 0; r < envInt("VERIF_C04_ROUNDS", 30); r++ {
			key := fmt.Sprintf("q%d-%d-%d", cfgc.R, cfgc.T, r)
			t0 := time.Now().UnixMilli()
			var wg sync.WaitGroup
			start := make(chan struct{})
			kind := []string{"str", "num", "lock"}[r%3]
			n := 3 + rng.Intn(3)
			for j := 0; j < n; j++ {
				p := paths[rng.Intn(len(paths))]
				if _, ok := p.(*pipePath); ok && kind == "lock" {
					p = paths[0]
				}
				j, x := j, rng.Intn(100)
				wg.Add(1)
				go func() {
					defer wg.Done()
					<-start
					switch kind {
					case "str":
						switch {
						case x < 40:
							p.Put(ctx, "c04", key, fmt.Sprintf("c%d-%s", j, key), PutOpts{})
						case x < 55:
							p.Put(ctx, "c04", key, fmt.Sprintf("c%d-%s", j, key), PutOpts{Mode: "PX", D: ms(5000)})
						case x < 70:
							p.GetPut(ctx, "c04", key, fmt.Sprintf("g%d-%s", j, key))
						case x < 85:
							p.Expire(ctx, "c04", key, ms(5000), true)
						default:
							p.Delete(ctx, "c04", key)
						}
					case "num":
						if x < 70 {
							p.Incr(ctx, "c04", key, 1+j)
						} else {
							p.Decr(ctx, "c04", key, 1)
						}
					case "lock":
						// the first caller takes the lock for 120 ms and leases it once; the others wait for it
						if j == 0 {
							if rep, l := p.Lock(ctx, "c04", key, ms(120), ms(50)); rep.Ret == "ok" {
								time.Sleep(ms(40))
								l.Lease(ctx, ms(100))
							}
						} else {
							time.Sleep(ms(10))
							p.Lock(ctx, "c04", key, 0, ms(600))
						}
					}
				}()
			}
			close(start)
			wg.Wait()
			sum.Evaluations += n
			evs := []trace.Ev{{"t": "op", "op": "round", "ret": "mixed", "path": "several", "k": key, "expired": false,
				"detail": kind, "copies": copiesOf(c, "c04", key, t0)}}
			rankTimestamps(evs)
			seq++
			w.Emit(trace.Ev{"t": "reset", "seq": seq, "cfg": cfg, "key": key, "kind": "concurrent " + kind})
			w.Emit(evs[0])
			sum.Histories++
			sum.DistinctNontrivial++
		}
		for _, p := range paths {
			p.Close()
		}
		c.Shutdown()
	}
	if err := janitorRounds(w, sum, &seq, rng, envInt("VERIF_C04_JANITOR", 1500)); err != nil {
		t.Fatal(err)
	}
	if err := w.Close(); err != nil {
		t.Fatal(err)
	}
	writeSummary(t, out, "c04.summary.json", sum)
}
