//go:build verif

package reg

import (
	"context"
	"fmt"
	"math/rand"
	"os"
	"path/filepath"
	"sync"
	"testing"
	"time"

	"github.com/olric-data/olric/internal/cluster/partitions"
	"github.com/olric-data/olric/verifharness/cluster"
	"github.com/olric-data/olric/verifharness/trace"
	"github.com/redis/go-redis/v9"
)

// holders counts the members among owner+backups of key that hold a copy with the given value
// ("" = any value), optionally only reachable ones.
func holders(c *cluster.Cluster, dm, key, val string, closed map[string]bool, onlyReachable bool) int {
	view := c.Live()[0]
	owner, _ := c.OwnerOf(view, dm, key)
	n := 0
	if e, ok := owner.V.DMap.VerifEntry(dm, key, partitions.PRIMARY); ok && (val == "" || string(e.Value) == val) {
		n++
	}
	for _, b := range c.BackupsOf(view, dm, key) {
		if onlyReachable && closed[b.Name] {
			continue
		}
		if e, ok := b.V.DMap.VerifEntry(dm, key, partitions.BACKUP); ok && (val == "" || string(e.Value) == val) {
			n++
		}
	}
	return n
}

// TestC05 probes the read/write quorums for every (R, W, RQ) and every set of unreachable backups,
// and the member-count quorum.
func TestC05(t *testing.T) {
	out := os.Getenv("VERIF_OUT")
	if out == "" {
		t.Skip("VERIF_OUT not set")
	}
	rng := rand.New(rand.NewSource(int64(envInt("VERIF_SEED", 1))))
	fraction := envInt("VERIF_FRACTION", 100)
	w, err := trace.New(filepath.Join(out, "c05.ndjson"))
	if err != nil {
		t.Fatal(err)
	}
	sum := &summary{Paths: map[string]int{}}
	seq := 0
	ctx := context.Background()
	total, ran := 0, 0
	var mu sync.Mutex
	var wg sync.WaitGroup
	sem := make(chan struct{}, 8)
	for R := 1; R <= 3; R++ {
		for W := 1; W <= R; W++ {
			for RQ := 1; RQ <= R; RQ++ {
				subsets := [][]int{{}}
				if R >= 2 {
					subsets = [][]int{{}, {1}, {2}, {1, 2}}
				}
				for _, sub := range subsets {
					total++
					if rng.Intn(100) >= fraction {
						continue
					}
					ran++
					cseed := rng.Int63()
					R, W, RQ, sub := R, W, RQ, sub
					wg.Add(1)
					sem <- struct{}{}
					go func() {
						defer wg.Done()
						defer func() { <-sem }()
						rng := rand.New(rand.NewSource(cseed))
						var evs []trace.Ev
						emit := func(e trace.Ev) { evs = append(evs, e) }
						evals, nontriv := 0, 0
						pathsUsed := map[string]int{}
						tcfg := time.Now()
						c, err := cluster.Start(cluster.Options{Replicas: R, WriteQuorum: W, ReadQuorum: RQ, Partitions: 7, Manual: true}, 3)
						if err != nil {
							t.Fatal(err)
						}
						cfg := fmt.Sprintf("R=%d W=%d RQ=%d closed=%v", R, W, RQ, sub)
						A := c.Members[0]
						pa := Embedded(A)
						pr := Resp(A)
						pc, err := ClusterClient(A)
						if err != nil {
							t.Fatal(err)
						}
						// keys owned by A
						var keys []string
						for j := 0; len(keys) < 12 && j < 2000; j++ {
							k := fmt.Sprintf("q%d", j)
							if o, _ := c.OwnerOf(A, "c05", k); o == A {
								keys = append(keys, k)
							}
						}
						if len(keys) < 12 {
							t.Fatalf("not enough keys owned by the first member")
						}
						for _, k := range keys[:8] {
							if rep := pa.Put(ctx, "c05", k, "old-"+k, PutOpts{}); rep.Ret != "ok" {
								t.Fatalf("setup put: %+v", rep)
							}
						}
						// shape the copies for the read probes
						view := A
						for _, b := range c.BackupsOf(view, "c05", keys[1]) { // keys[1]: only on the owner
							b.V.DMap.VerifDeleteRaw("c05", keys[1], partitions.BACKUP)
						}
						A.V.DMap.VerifDeleteRaw("c05", keys[2], partitions.PRIMARY) // keys[2]: only on the backups
						if bs := c.BackupsOf(view, "c05", keys[3]); len(bs) == 2 {  // keys[3]: owner and one backup
							bs[rng.Intn(2)].V.DMap.VerifDeleteRaw("c05", keys[3], partitions.BACKUP)
						}
						closed := map[string]bool{}
						for _, idx := range sub {
							if err := c.Members[idx].V.Server.VerifCloseListener(); err != nil {
								t.Fatal(err)
							}
							closed[c.Members[idx].Name] = true
						}
						// the listener closes its established connections asynchronously: wait until the other
						// members' pooled connections to the closed member are really dead
						for name := range closed {
							for _, m := range c.Members {
								if closed[m.Name] {
									continue
								}
								deadline := time.Now().Add(8 * time.Second)
								streak := 0
								for time.Now().Before(deadline) && streak < 12 {
									if err := m.V.Client.Get(name).Ping(ctx).Err(); err != nil {
										streak++ // more failures in a row than the pool holds connections
									} else {
										streak = 0
										time.Sleep(20 * time.Millisecond)
									}
								}
							}
						}
						emit(trace.Ev{"t": "reset", "seq": 0, "cfg": cfg})
						nb := func(k string) int { // unreachable backups of this key
							n := 0
							for _, b := range c.BackupsOf(view, "c05", k) {
								if closed[b.Name] {
									n++
								}
							}
							return n
						}
						// reads: keys[0] everywhere, [1] owner only, [2] backups only, [3] owner + one backup, [8] nowhere
						for gi, k := range []string{keys[0], keys[1], keys[2], keys[3], keys[8]} {
							for _, p := range []Path{pa, pr, pc} {
								obtained := holders(c, "c05", k, "", closed, true)
								rep := p.Get(ctx, "c05", k)
								evals++
								pathsUsed[p.Name()]++
								newest := rep.Ret != "val" || rep.V == "old-"+k
								emit(trace.Ev{"t": "get", "R": R, "W": W, "RQ": RQ, "unreach": nb(k), "obtained": obtained, "ret": rep.Ret,
									"newest": newest, "shape": gi, "path": p.Name(), "k": k, "detail": rep.Err})
								if obtained == RQ || obtained == RQ-1 {
									nontriv++
								}
							}
						}
						// writes: on an existing key and on a new key, through each path
						for pi, p := range []Path{pa, pr, pc} {
							for _, k := range []string{keys[4+pi], keys[9+pi]} {
								val := fmt.Sprintf("new-%s-%d", k, pi)
								rep := p.Put(ctx, "c05", k, val, PutOpts{})
								stored := holders(c, "c05", k, val, closed, false)
								evals++
								pathsUsed[p.Name()]++
								emit(trace.Ev{"t": "put", "R": R, "W": W, "RQ": RQ, "unreach": nb(k), "stored": stored, "ret": rep.Ret,
									"path": p.Name(), "k": k, "detail": rep.Err})
								if stored == W || stored == W-1 {
									nontriv++
								}
							}
						}
						pa.Close()
						pr.Close()
						pc.Close()
						c.ShutdownAsync()
						if os.Getenv("VERIF_TIMING") != "" {
							t.Logf("%s took %v", cfg, time.Since(tcfg))
						}
						mu.Lock()
						seq++
						evs[0]["seq"] = seq
						for _, e := range evs {
							w.Emit(e)
						}
						sum.Histories++
						sum.Configs = append(sum.Configs, cfg)
						sum.Evaluations += evals
						sum.DistinctNontrivial += nontriv
						for k, v := range pathsUsed {
							sum.Paths[k] += v
						}
						mu.Unlock()
					}()
				}
			}
		}
	}
	wg.Wait()
	// ---- the primary owner is the unreachable one (its RESP listener is closed, it stays in the member list): whatever a
	// read sent to another member answers, it is not a value unless ReadQuorum copies can still be reached
	for _, q := range [][2]int{{2, 2}, {3, 3}, {3, 2}, {2, 1}} {
		R, RQ := q[0], q[1]
		if rng.Intn(100) >= fraction && !(R == 2 && RQ == 2) {
			continue
		}
		c, err := cluster.Start(cluster.Options{Replicas: R, WriteQuorum: 1, ReadQuorum: RQ, Partitions: 7, Manual: true}, 3)
		if err != nil {
			t.Fatal(err)
		}
		cfg := fmt.Sprintf("R=%d W=1 RQ=%d, the primary owner unreachable", R, RQ)
		A := c.Members[0]
		pa := Embedded(A)
		var keys []string
		for j := 0; len(keys) < 6 && j < 2000; j++ {
			k := fmt.Sprintf("x%d", j)
			if o, _ := c.OwnerOf(A, "c05", k); o == A {
				keys = append(keys, k)
			}
		}
		for _, k := range keys {
			if rep := pa.Put(ctx, "c05", k, "old-"+k, PutOpts{}); rep.Ret != "ok" {
				t.Fatalf("setup put: %+v", rep)
			}
		}
		pa.Close()
		if err := A.V.Server.VerifCloseListener(); err != nil {
			t.Fatal(err)
		}
		closed := map[string]bool{A.Name: true}
		for _, m := range c.Members[1:] {
			deadline := time.Now().Add(8 * time.Second)
			streak := 0
			for time.Now().Before(deadline) && streak < 12 {
				if err := m.V.Client.Get(A.Name).Ping(ctx).Err(); err != nil {
					streak++
				} else {
					streak = 0
					time.Sleep(20 * time.Millisecond)
				}
			}
		}
		seq++
		w.Emit(trace.Ev{"t": "reset", "seq": seq, "cfg": cfg})
		for _, m := range c.Members[1:] {
			for _, p := range []Path{Embedded(m), Resp(m)} {
				for _, k := range keys[:3] {
					// copies that can still be reached: those on the backup owners (the primary's is behind the closed listener)
					reach := 0
					for _, b := range c.BackupsOf(m, "c05", k) {
						if closed[b.Name] {
							continue
						}
						if _, ok := b.V.DMap.VerifEntry("c05", k, partitions.BACKUP); ok {
							reach++
						}
					}
					rep := p.Get(ctx, "c05", k)
					sum.Evaluations++
					sum.Paths[p.Name()]++
					w.Emit(trace.Ev{"t": "getx", "R": R, "RQ": RQ, "obtained": reach, "ret": rep.Ret, "newest": rep.Ret != "val" || rep.V == "old-"+k,
						"path": p.Name(), "k": k, "detail": rep.Err})
					if reach == RQ || reach == RQ-1 {
						sum.DistinctNontrivial++
					}
				}
				p.Close()
			}
		}
		sum.Histories++
		sum.Configs = append(sum.Configs, cfg)
		c.ShutdownAsync()
	}
	// ---- member-count quorum
	for _, mcqOrder := range []int{2, 3, -2, -3} {
		// the member that is asked is the first member of the cluster while the later ones go away - or the last one that
		// joined while the earlier ones (the coordinator first) go away
		mcq, firstStays := mcqOrder, true
		if mcq < 0 {
			mcq, firstStays = -mcq, false
		}
		c, err := cluster.StartTogether(cluster.Options{Replicas: 1, MemberCountQuorum: mcq, Partitions: 7, Manual: true}, 3)
		if err != nil {
			t.Fatal(err)
		}
		cfg := fmt.Sprintf("MCQ=%d N=3 asked: the %s member", mcq, map[bool]string{true: "first", false: "last"}[firstStays])
		sum.Configs = append(sum.Configs, cfg)
		seq++
		w.Emit(trace.Ev{"t": "reset", "seq": seq, "cfg": cfg})
		S := c.Members[0]
		if !firstStays {
			S = c.Members[len(c.Members)-1]
		}
		if _, err := S.DB.NewEmbeddedClient().NewDMap("c05known"); err != nil {
			t.Fatal(err)
		}
		probe := func() {
			// how many members there are (the failure detector has settled: the member lists exactly the live members), and
			// how many the member counts for its quorum
			seen := len(c.Live())
			counted := int(S.V.RoutingTable.NumMembers())
			rc := redis.NewClient(&redis.Options{Addr: S.Name, MaxRetries: -1, DialTimeout: time.Second})
			defer rc.Close()
			n := 0
			try := func(cmd string, key string, args ...any) {
				n++
				err := rc.Do(ctx, args...).Err()
				ret := classify(err).Ret
				if err == redis.Nil {
					ret = "notfound"
				}
				applied := false
				if key != "" {
					for _, m := range c.Live() {
						if _, ok := m.V.DMap.VerifEntry("c05m", key, partitions.PRIMARY); ok {
							applied = true
						}
					}
				}
				sum.Evaluations++
				if seen == mcq || seen == mcq-1 {
					sum.DistinctNontrivial++
				}
				w.Emit(trace.Ev{"t": "mcq", "MCQ": mcq, "seen": seen, "counted": counted, "cmd": cmd, "ret": ret, "applied": applied, "detail": fmt.Sprint(err)})
			}
			k := fmt.Sprintf("mk-%d-%d", mcq, seen)
			try("dm.put", k+"a", "dm.put", "c05m", k+"a", "v")
			try("dm.get", "", "dm.get", "c05m", k+"a")
			try("dm.incr", k+"b", "dm.incr", "c05m", k+"b", 1)
			try("dm.getput", k+"c", "dm.getput", "c05m", k+"c", "v")
			try("dm.expire", "", "dm.expire", "c05m", k+"a", 10)
			try("dm.del", "", "dm.del", "c05m", k+"a")
			try("dm.lock", k+"d", "dm.lock", "c05m", k+"d", 0.01)
			try("dm.scan", "", "dm.scan", 0, "c05m", 0)
			try("dm.destroy", "", "dm.destroy", "c05m")
			try("publish", "", "publish", "chan", "msg")
			try("ping", "", "ping")
			try("stats", "", "stats")
			try("cluster.routingtable", "", "cluster.routingtable")
			try("cluster.members", "", "cluster.members")
			// opening a DMap through the embedded client
			// opening a DMap through the embedded client: a name never seen before, the name this member has served
			// commands for, and a name that was opened through the embedded client while the quorum was still met
			for _, name := range []string{fmt.Sprintf("c05open-%d-%d", mcq, seen), "c05m", "c05known"} {
				dm, err := S.DB.NewEmbeddedClient().NewDMap(name)
				applied := false
				if err == nil {
					pk := fmt.Sprintf("opened-%d", seen)
					if dm.Put(ctx, pk, "v") == nil {
						for _, m := range c.Live() {
							if _, ok := m.V.DMap.VerifEntry(name, pk, partitions.PRIMARY); ok {
								applied = true
							}
						}
					}
				}
				sum.Evaluations++
				w.Emit(trace.Ev{"t": "mcq", "MCQ": mcq, "seen": seen, "counted": counted, "cmd": "NewDMap", "ret": classify(err).Ret, "applied": applied, "detail": fmt.Sprint(err)})
			}
		}
		probe()
		for len(c.Live()) > 1 {
			victim := c.Live()[len(c.Live())-1]
			if !firstStays {
				victim = c.Live()[0]
			}
			if err := c.Stop(victim, true); err != nil {
				t.Fatal(err)
			}
			// settled: the member lists exactly the live members (its own count of them is for the specification to judge);
			// a count that is still different gets a moment to follow
			want := len(c.Live())
			deadline := time.Now().Add(8 * time.Second)
			for len(S.Table(7).Members) != want && time.Now().Before(deadline) {
				time.Sleep(20 * time.Millisecond)
			}
			if len(S.Table(7).Members) != want {
				t.Fatalf("the member list did not settle")
			}
			for until := time.Now().Add(2 * time.Second); int(S.V.RoutingTable.NumMembers()) != want && time.Now().Before(until); {
				time.Sleep(20 * time.Millisecond)
			}
			probe()
		}
		sum.Histories++
		c.ShutdownAsync()
	}
	cluster.WaitBackground(20 * time.Second)
	if err := w.Close(); err != nil {
		t.Fatal(err)
	}
	sum.Notes = append(sum.Notes, fmt.Sprintf("%d of %d (R,W,RQ,unreachable set) configurations run", ran, total))
	if ran == total {
		sum.Notes = append(sum.Notes, "exhaustive over the configuration space")
	}
	sum.Samples = append(sum.Samples, map[string]any{"configs": sum.Configs[:3]})
	writeSummary(t, out, "c05.summary.json", sum)
}
