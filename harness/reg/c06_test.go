//go:build verif

package reg

import (
	"context"
	"fmt"
	"math/rand"
	"os"
	"path/filepath"
	"strings"
	"testing"
	"time"

	"github.com/olric-data/olric/internal/cluster/partitions"
	"github.com/olric-data/olric/internal/kvstore"
	"github.com/olric-data/olric/internal/kvstore/entry"
	"github.com/olric-data/olric/pkg/storage"
	"github.com/olric-data/olric/verifharness/cluster"
	"github.com/olric-data/olric/verifharness/trace"
	"github.com/redis/go-redis/v9"
	"github.com/vmihailenco/msgpack/v5"
)

type slotRef struct {
	pos  string
	m    *cluster.Member
	kind partitions.Kind
}

// fragmentedCluster builds N=4, R=3 with a partition whose owners list is [X, A] (X still holds the data
// slot of a previous owner) and whose current backup owners Y, Z differ from X and A.
func fragmentedCluster(rr bool) (*cluster.Cluster, uint64, []slotRef, error) {
	for attempt := 0; attempt < 8; attempt++ {
		c, err := cluster.Start(cluster.Options{Replicas: 3, Partitions: 13, ReadRepair: rr, Manual: true}, 3)
		if err != nil {
			return nil, 0, nil, err
		}
		// every partition needs data, otherwise the previous owner is pruned at once
		dm, _ := c.Members[0].DB.NewEmbeddedClient().NewDMap("c06")
		for i := 0; i < 200; i++ {
			dm.Put(context.Background(), fmt.Sprintf("seed%d", i), "s")
		}
		if _, err := c.AddMember(); err != nil {
			c.Shutdown()
			return nil, 0, nil, err
		}
		deadline := time.Now().Add(5 * time.Second)
		for time.Now().Before(deadline) {
			c.Push()
			ok := true
			for _, m := range c.Live() {
				if len(m.Table(13).Members) != 4 {
					ok = false
				}
			}
			if ok {
				break
			}
			time.Sleep(30 * time.Millisecond)
		}
		c.Push()
		tab := c.Members[0].Table(13)
		for p := uint64(0); p < 13; p++ {
			if len(tab.Owners[p]) != 2 || len(tab.Backups[p]) < 2 {
				continue
			}
			X, A := c.ByName(tab.Owners[p][0]), c.ByName(tab.Owners[p][1])
			bs := tab.Backups[p]
			Y, Z := c.ByName(bs[len(bs)-2]), c.ByName(bs[len(bs)-1])
			if X == Y || X == Z || A == Y || A == Z || Y == Z {
				continue
			}
			same := true
			for _, m := range c.Live() {
				if m.Table(13).String() != tab.String() {
					same = false
				}
			}
			if !same {
				continue
			}
			return c, p, []slotRef{{"A", A, partitions.PRIMARY}, {"X", X, partitions.PRIMARY}, {"Y", Y, partitions.BACKUP}, {"Z", Z, partitions.BACKUP}}, nil
		}
		c.Shutdown()
	}
	return nil, 0, nil, fmt.Errorf("no suitable partition found")
}

func buildPack(dm string, partID uint64, entries []trace.Ev) []byte {
	c := storage.NewConfig(nil)
	c.Add("tableSize", uint64(1<<16))
	c.Add("maxIdleTableTimeout", time.Hour)
	kv, _ := kvstore.New(c)
	st, _ := kv.Fork(nil)
	for _, e := range entries {
		if e["ts"].(int) == 0 {
			continue
		}
		en := entry.New()
		en.SetKey(e["key"].(string))
		en.SetValue([]byte(e["val"].(string)))
		en.SetTimestamp(int64(1000 + e["ts"].(int)))
		if strings.HasSuffix(e["val"].(string), "+ttl") {
			en.SetTTL(time.Now().Add(time.Hour).UnixMilli()) // a copy with an expiry far in the future
		}
		if strings.HasSuffix(e["val"].(string), "+exp") {
			en.SetTTL(time.Now().Add(-time.Second).UnixMilli()) // a copy whose expiry has passed: still the newest write if its timestamp says so
		}
		st.Put(partitions.HKey(dm, e["key"].(string)), en)
	}
	data, _, err := st.(*kvstore.KVStore).TransferIterator().Export()
	if err != nil {
		return nil
	}
	type fp struct {
		PartID  uint64
		Kind    partitions.Kind
		Name    string
		Payload []byte
	}
	b, _ := msgpack.Marshal(fp{PartID: partID, Kind: partitions.PRIMARY, Name: dm, Payload: data})
	return b
}

// TestC06 enumerates every layout of copies (4 positions x {missing, 3 timestamps}) with read-repair on
// and off, and every delivery order (+ one re-delivery) of small fragments.
func TestC06(t *testing.T) {
	out := os.Getenv("VERIF_OUT")
	if out == "" {
		t.Skip("VERIF_OUT not set")
	}
	rng := rand.New(rand.NewSource(int64(envInt("VERIF_SEED", 1))))
	w, err := trace.New(filepath.Join(out, "c06.ndjson"))
	if err != nil {
		t.Fatal(err)
	}
	sum := &summary{Paths: map[string]int{}}
	ctx := context.Background()
	n := 0
	w.Emit(trace.Ev{"t": "reset", "seq": 0})
	for _, rr := range []bool{false, true} {
		c, part, slots, err := fragmentedCluster(rr)
		if err != nil {
			t.Fatal(err)
		}
		sum.Configs = append(sum.Configs, fmt.Sprintf("N=4 R=3 P=13 read-repair=%v partition %d owners [X A] backups [Y Z]", rr, part))
		paths := allPaths(t, c)
		knum := 0
		nextKey := func() string {
			for {
				knum++
				k := fmt.Sprintf("c%d", knum)
				if partitions.HKey("c06", k)%13 == part {
					return k
				}
			}
		}
		read := func(key string) []trace.Ev {
			var out []trace.Ev
			for _, s := range slots {
				e, ok := s.m.V.DMap.VerifEntry("c06", key, s.kind)
				ev := trace.Ev{"pos": s.pos, "ts": 0, "val": "none"}
				if ok {
					ev["ts"] = int(e.Timestamp - 1000)
					ev["val"] = string(e.Value)
				}
				out = append(out, ev)
			}
			return out
		}
		for code := 0; code < 256; code++ {
			key := nextKey()
			x := code
			nonzero, distinct := 0, map[int]bool{}
			for _, s := range slots {
				ts := x % 4
				x /= 4
				if ts == 0 {
					continue
				}
				nonzero++
				distinct[ts] = true
				if err := s.m.V.DMap.VerifPutRaw("c06", key, []byte(fmt.Sprintf("%s%d", s.pos, ts)), 0, int64(1000+ts), s.kind); err != nil {
					t.Fatal(err)
				}
			}
			before := read(key)
			p := paths[rng.Intn(len(paths))]
			sum.Paths[p.Name()]++
			rep := p.Get(ctx, "c06", key)
			after := read(key)
			n++
			sum.Evaluations++
			w.Emit(trace.Ev{"t": "read", "n": n, "rr": rr, "before": before, "after": after, "ret": rep.Ret, "v": rep.V, "path": p.Name(), "detail": rep.Err})
			if len(distinct) >= 2 {
				sum.DistinctNontrivial++
			}
			if len(sum.Samples) < 2 && nonzero == 4 && len(distinct) == 3 {
				sum.Samples = append(sum.Samples, map[string]any{"before": before, "reply": rep.V, "after": after, "read_repair": rr})
			}
		}
		// the newest copy is the owner's and its expiry has passed, older copies without expiry exist elsewhere: the newest
		// write says "expired", so the read answers not-found - it does not fall back to an older copy
		for code := 0; code < 256; code++ {
			x, tsA, others, maxOther := code, 0, 0, 0
			for _, s := range slots {
				ts := x % 4
				x /= 4
				if s.pos == "A" {
					tsA = ts
				} else if ts != 0 {
					others++
					if ts > maxOther {
						maxOther = ts
					}
				}
			}
			if tsA == 0 || others == 0 || maxOther >= tsA {
				continue
			}
			key := nextKey()
			x = code
			for _, s := range slots {
				ts := x % 4
				x /= 4
				if ts == 0 {
					continue
				}
				ttl := int64(0)
				if s.pos == "A" {
					ttl = time.Now().Add(-2 * time.Second).UnixMilli()
				}
				if err := s.m.V.DMap.VerifPutRaw("c06", key, []byte(fmt.Sprintf("%s%d", s.pos, ts)), ttl, int64(1000+ts), s.kind); err != nil {
					t.Fatal(err)
				}
			}
			before := read(key)
			p := paths[rng.Intn(len(paths))]
			sum.Paths[p.Name()]++
			rep := p.Get(ctx, "c06", key)
			n++
			sum.Evaluations++
			sum.DistinctNontrivial++
			w.Emit(trace.Ev{"t": "readexp", "n": n, "rr": rr, "before": before, "ret": rep.Ret, "v": rep.V, "path": p.Name(), "detail": rep.Err})
		}
		for _, p := range paths {
			p.Close()
		}
		c.ShutdownAsync()
	}
	// ---- merge order independence
	c, err := cluster.Start(cluster.Options{Replicas: 1, Partitions: 7, Manual: true}, 1)
	if err != nil {
		t.Fatal(err)
	}
	sum.Configs = append(sum.Configs, "merge: N=1, fragments delivered with INTERNAL.NODE.MOVEFRAGMENT")
	rc := redis.NewClient(&redis.Options{Addr: c.Members[0].Name, MaxRetries: -1})
	perms := func(n int) [][]int {
		var res [][]int
		var rec func(cur []int, used []bool)
		rec = func(cur []int, used []bool) {
			if len(cur) == n {
				res = append(res, append([]int{}, cur...))
				return
			}
			for i := 0; i < n; i++ {
				if !used[i] {
					used[i] = true
					rec(append(cur, i), used)
					used[i] = false
				}
			}
		}
		rec(nil, make([]bool, n))
		return res
	}
	round := 0
	mergeCases := envInt("VERIF_C06_MERGES", 300)
	for round < mergeCases {
		nf := 2 + rng.Intn(2)
		base := make([][]trace.Ev, nf)
		for i := range base {
			sfx := func() string { return []string{"", "+ttl", "", "+exp"}[rng.Intn(4)] }
			base[i] = []trace.Ev{{"k": "k1", "ts": rng.Intn(3), "val": fmt.Sprintf("f%d", i+1) + sfx()}, {"k": "k2", "ts": rng.Intn(3), "val": fmt.Sprintf("f%d", i+1) + sfx()}}
		}
		for _, perm := range perms(nf) {
			for rep := -1; rep < nf; rep++ {
				round++
				dmn := fmt.Sprintf("mg%d", round)
				k1, k2 := "", ""
				for j := 0; ; j++ {
					k := fmt.Sprintf("m%d", j)
					if partitions.HKey(dmn, k)%7 == 3 {
						if k1 == "" {
							k1 = k
						} else {
							k2 = k
							break
						}
					}
				}
				var order [][]trace.Ev
				for _, j := range perm {
					order = append(order, base[j])
				}
				if rep >= 0 {
					order = append(order, base[rep])
				}
				for _, f := range order {
					ents := []trace.Ev{{"key": k1, "ts": f[0]["ts"], "val": f[0]["val"]}, {"key": k2, "ts": f[1]["ts"], "val": f[1]["val"]}}
					if f[0]["ts"].(int) == 0 && f[1]["ts"].(int) == 0 {
						continue
					}
					if err := rc.Do(ctx, "internal.node.movefragment", buildPack(dmn, 3, ents)).Err(); err != nil {
						t.Fatalf("movefragment: %v", err)
					}
				}
				res := []trace.Ev{}
				for i, k := range []string{k1, k2} {
					e, ok := c.Members[0].V.DMap.VerifEntry(dmn, k, partitions.PRIMARY)
					ev := trace.Ev{"k": fmt.Sprintf("k%d", i+1), "ts": 0, "val": "none"}
					if ok {
						ev["ts"] = int(e.Timestamp - 1000)
						ev["val"] = string(e.Value)
						if (e.TTL != 0) != (strings.HasSuffix(ev["val"].(string), "+ttl") || strings.HasSuffix(ev["val"].(string), "+exp")) {
							ev["val"] = ev["val"].(string) + " with the expiry of another copy"
						}
					}
					res = append(res, ev)
				}
				var fr [][]trace.Ev
				for _, f := range order {
					a, b := trace.Ev{"k": "k1", "ts": f[0]["ts"], "val": f[0]["val"], "exp": strings.HasSuffix(f[0]["val"].(string), "+exp")},
						trace.Ev{"k": "k2", "ts": f[1]["ts"], "val": f[1]["val"], "exp": strings.HasSuffix(f[1]["val"].(string), "+exp")}
					if a["ts"].(int) == 0 {
						a["val"] = "none"
					}
					if b["ts"].(int) == 0 {
						b["val"] = "none"
					}
					fr = append(fr, []trace.Ev{a, b})
				}
				n++
				sum.Evaluations++
				sum.DistinctNontrivial++
				w.Emit(trace.Ev{"t": "merge", "n": n, "frags": fr, "result": res})
			}
		}
	}
	rc.Close()
	c.ShutdownAsync()
	cluster.WaitBackground(10 * time.Second)
	if err := w.Close(); err != nil {
		t.Fatal(err)
	}
	sum.Histories = 2
	sum.Notes = append(sum.Notes, "all 256 layouts x read-repair on/off enumerated")
	writeSummary(t, out, "c06.summary.json", sum)
}
