//go:build verif

package reg

import (
	"context"
	"fmt"
	"math/rand"
	"os"
	"path/filepath"
	"testing"
	"time"

	"github.com/olric-data/olric/config"
	"github.com/olric-data/olric/internal/cluster/partitions"
	"github.com/olric-data/olric/verifharness/cluster"
	"github.com/olric-data/olric/verifharness/trace"
)

// fragStats lists Length/Inuse of every primary fragment of DMap dm on every member.
func fragStats(c *cluster.Cluster, dm string) []trace.Ev {
	out := []trace.Ev{}
	for _, m := range c.Live() {
		owned := int(m.V.RoutingTable.OwnedPartitionCount())
		for p := uint64(0); p < c.Opts.Partitions; p++ {
			st, ok := m.V.DMap.VerifStats(dm, p, partitions.PRIMARY)
			if !ok {
				continue
			}
			out = append(out, trace.Ev{"m": m.Index, "part": int(p), "owned": owned, "length": st.Length, "inuse": st.Inuse})
		}
	}
	return out
}

// TestC10 drives LRU eviction (MaxKeys, MaxInuse) and idle eviction.
func TestC10(t *testing.T) {
	out := os.Getenv("VERIF_OUT")
	if out == "" {
		t.Skip("VERIF_OUT not set")
	}
	rng := rand.New(rand.NewSource(int64(envInt("VERIF_SEED", 1))))
	rounds := envInt("VERIF_ROUNDS", 1)
	w, err := trace.New(filepath.Join(out, "c10.ndjson"))
	if err != nil {
		t.Fatal(err)
	}
	sum := &summary{Paths: map[string]int{}}
	ctx := context.Background()
	seq := 0
	const entry = 29 + 8 + 40 // keys of 8 bytes, values of 40
	key := func(i int) string { return fmt.Sprintf("k%07d", i) }
	val := func(i int) string { return fmt.Sprintf("%040d", i) }
	type cfg struct {
		N, P, MaxKeys, MaxInuse, Samples int
	}
	var cfgs []cfg
	for _, P := range []int{1, 7} {
		for _, mk := range []int{1, 3, P - 1, P, 2 * P, 10 * P} {
			if mk <= 0 {
				continue
			}
			for _, s := range []int{1, 2, 5} {
				cfgs = append(cfgs, cfg{1, P, mk, 0, s})
			}
		}
		cfgs = append(cfgs, cfg{1, P, 0, 3 * entry * P, 5}, cfg{1, P, 0, entry, 2}, cfg{1, P, 20, 4 * entry * P, 3})
	}
	cfgs = append(cfgs, cfg{2, 7, 14, 0, 5}, cfg{2, 7, 3, 0, 2}, cfg{2, 7, 0, 6 * entry * 7, 5})
	for r := 0; r < rounds; r++ {
		for ci, cf := range cfgs {
			if cf.N > 1 && cf.P == 1 {
				continue
			}
			// every second cluster has small storage tables (a dozen entries each): fragments grow past one table, and the
			// tables that eviction has drained of live keys stay around (nothing compacts them here)
			T := []int{0, 1024}[(r+ci)%2]
			c, err := cluster.Start(cluster.Options{Replicas: 1, Partitions: uint64(cf.P), Manual: true, TableSize: T,
				DMaps: func(d *config.DMaps) {
					d.Custom = map[string]config.DMap{"c10": {EvictionPolicy: config.LRUEviction, MaxKeys: cf.MaxKeys, MaxInuse: cf.MaxInuse, LRUSamples: cf.Samples}}
				}}, cf.N)
			if err != nil {
				t.Fatal(err)
			}
			label := fmt.Sprintf("N=%d P=%d MaxKeys=%d MaxInuse=%d LRUSamples=%d T=%d", cf.N, cf.P, cf.MaxKeys, cf.MaxInuse, cf.Samples, T)
			sum.Configs = append(sum.Configs, label)
			seq++
			w.Emit(trace.Ev{"t": "reset", "seq": seq, "cfg": label, "maxkeys": cf.MaxKeys, "maxinuse": cf.MaxInuse, "entry": entry, "window": 0})
			p := Embedded(c.Members[rng.Intn(cf.N)])
			pattern := rng.Intn(3) // 0 uniform, 1 skewed into one partition, 2 overwrite-heavy
			var pool []int
			if pattern == 1 {
				target := uint64(rng.Intn(cf.P))
				for i := 0; len(pool) < 40 && i < 20000; i++ {
					if partitions.HKey("c10", key(i))%uint64(cf.P) == target {
						pool = append(pool, i)
					}
				}
			}
			nput := 60 + rng.Intn(60)
			if T > 0 {
				nput = 240 + rng.Intn(80) // enough to fill and drain several tables per partition
			}
			evicted := false
			for j := 0; j < nput; j++ {
				var ki int
				switch pattern {
				case 0:
					ki = rng.Intn(100000)
				case 1:
					ki = pool[rng.Intn(len(pool))]
				default:
					ki = rng.Intn(12)
				}
				before := 0
				for _, f := range fragStats(c, "c10") {
					before += f["length"].(int)
				}
				rep := p.Put(ctx, "c10", key(ki), val(j), PutOpts{})
				g := p.Get(ctx, "c10", key(ki))
				fr := fragStats(c, "c10")
				after := 0
				for _, f := range fr {
					after += f["length"].(int)
				}
				if after <= before {
					evicted = true
				}
				sum.Evaluations++
				w.Emit(trace.Ev{"t": "put", "k": key(ki), "ret": rep.Ret, "detail": rep.Err, "get": g.Ret, "frags": fr})
				if rng.Intn(4) == 0 { // touch something so that recency differs
					p.Get(ctx, "c10", key(rng.Intn(12)))
				}
			}
			sum.Histories++
			if evicted {
				sum.DistinctNontrivial++
			}
			if len(sum.Samples) < 2 {
				sum.Samples = append(sum.Samples, map[string]any{"cfg": label, "puts": nput, "pattern": []string{"uniform", "one partition", "overwrite-heavy"}[pattern]})
			}
			p.Close()
			c.ShutdownAsync()
		}
	}
	// ---- idle eviction
	const window = 400 * time.Millisecond
	for r := 0; r < rounds; r++ {
		for _, N := range []int{1, 2} {
			// small storage tables every second time: the warm keys then live in sealed, older tables
			T := []int{0, 512}[(r+N)%2]
			// two members hold every key twice: a read merges the owner's copy with the backup's
			c, err := cluster.Start(cluster.Options{Replicas: N, Partitions: 7, Manual: true, TableSize: T,
				DMaps: func(d *config.DMaps) {
					d.NumEvictionWorkers = 4
					d.Custom = map[string]config.DMap{"c10idle": {MaxIdleDuration: window}}
				}}, N)
			if err != nil {
				t.Fatal(err)
			}
			label := fmt.Sprintf("N=%d R=%d T=%d idle window=%v", N, N, T, window)
			sum.Configs = append(sum.Configs, label)
			seq++
			w.Emit(trace.Ev{"t": "reset", "seq": seq, "cfg": label, "maxkeys": 0, "maxinuse": 0, "entry": entry, "window": int(window.Milliseconds())})
			p := Embedded(c.Members[0])
			nk := 24
			last := make([]time.Time, nk) // invocation time of the last touch
			for i := 0; i < nk; i++ {
				last[i] = time.Now()
				p.Put(ctx, "c10idle", key(i), val(i), PutOpts{})
			}
			if T > 0 {
				for i := 0; i < 80; i++ {
					p.Put(ctx, "c10idle", fmt.Sprintf("fill-%d", i), fmt.Sprintf("%070d", i), PutOpts{})
				}
			}
			// keys 0..11 are kept warm (0..5 by reads only, 6..11 by a read or a write, every ~150 ms), 12..23 are left alone
			stop := time.Now().Add(1600 * time.Millisecond)
			for time.Now().Before(stop) {
				for i := 0; i < 12; i++ {
					t0 := time.Now()
					var rep Reply
					if i >= 6 && rng.Intn(3) == 0 {
						rep = p.Put(ctx, "c10idle", key(i), val(i), PutOpts{})
						rep.Ret = "val"
					} else {
						rep = p.Get(ctx, "c10idle", key(i))
					}
					since := int(time.Since(last[i]).Milliseconds())
					sum.Evaluations++
					w.Emit(trace.Ev{"t": "idle", "k": key(i), "ret": rep.Ret, "since": since})
					if rep.Ret == "val" {
						last[i] = t0
					} else {
						// evicted (legitimately or not): start a new life
						last[i] = time.Now()
						p.Put(ctx, "c10idle", key(i), val(i), PutOpts{})
					}
				}
				time.Sleep(time.Duration(100+rng.Intn(100)) * time.Millisecond)
			}
			// the untouched keys must disappear (white box, so that looking does not touch them)
			deadline := time.Now().Add(8 * time.Second)
			gone := false
			for !gone && time.Now().Before(deadline) {
				gone = true
				for i := 12; i < nk; i++ {
					for _, m := range c.Live() {
						if _, ok := m.V.DMap.VerifEntry("c10idle", key(i), partitions.PRIMARY); ok {
							gone = false
						}
					}
				}
				time.Sleep(50 * time.Millisecond)
			}
			sum.Evaluations++
			w.Emit(trace.Ev{"t": "gone", "gone": gone, "waited_ms": int(time.Since(stop).Milliseconds())})
			sum.Histories++
			sum.DistinctNontrivial++
			p.Close()
			c.ShutdownAsync()
		}
	}
	// ---- idle eviction while the newest storage table is busy: the untouched keys sit in an older, sealed table of the
	// fragment and a few dozen keys in the newest table are read all the time.  The untouched keys still have to go.
	for r := 0; r < (rounds+1)/2; r++ {
		P := []uint64{1, 3}[r%2]
		c, err := cluster.Start(cluster.Options{Replicas: 1, Partitions: P, Manual: true, TableSize: 4096,
			DMaps: func(d *config.DMaps) {
				d.NumEvictionWorkers = 4
				d.Custom = map[string]config.DMap{"c10idle": {MaxIdleDuration: window}}
			}}, 1)
		if err != nil {
			t.Fatal(err)
		}
		label := fmt.Sprintf("N=1 R=1 P=%d T=4096 idle window=%v, busy newest table", P, window)
		sum.Configs = append(sum.Configs, label)
		seq++
		w.Emit(trace.Ev{"t": "reset", "seq": seq, "cfg": label, "maxkeys": 0, "maxinuse": 0, "entry": entry, "window": int(window.Milliseconds())})
		p := Embedded(c.Members[0])
		ncold, nhot := 40*int(P), 30*int(P)
		for i := 0; i < ncold; i++ {
			p.Put(ctx, "c10idle", fmt.Sprintf("cold-%03d", i), fmt.Sprintf("%060d", i), PutOpts{})
		}
		lastHot := make([]time.Time, nhot)
		for i := 0; i < nhot; i++ {
			lastHot[i] = time.Now()
			p.Put(ctx, "c10idle", fmt.Sprintf("hot-%03d", i), fmt.Sprintf("%060d", i), PutOpts{})
		}
		start := time.Now()
		deadline := start.Add(8 * time.Second)
		gone := false
		for !gone && time.Now().Before(deadline) {
			for i := 0; i < nhot; i++ {
				t0 := time.Now()
				rep := p.Get(ctx, "c10idle", fmt.Sprintf("hot-%03d", i))
				sum.Evaluations++
				w.Emit(trace.Ev{"t": "idle", "k": fmt.Sprintf("hot-%03d", i), "ret": rep.Ret, "since": int(time.Since(lastHot[i]).Milliseconds())})
				if rep.Ret == "val" {
					lastHot[i] = t0
				} else {
					lastHot[i] = time.Now()
					p.Put(ctx, "c10idle", fmt.Sprintf("hot-%03d", i), fmt.Sprintf("%060d", i), PutOpts{})
				}
			}
			gone = true
			for i := 0; i < ncold; i++ {
				if _, ok := c.Members[0].V.DMap.VerifEntry("c10idle", fmt.Sprintf("cold-%03d", i), partitions.PRIMARY); ok {
					gone = false
					break
				}
			}
			time.Sleep(100 * time.Millisecond)
		}
		sum.Evaluations++
		w.Emit(trace.Ev{"t": "gone", "gone": gone, "waited_ms": int(time.Since(start).Milliseconds())})
		sum.Histories++
		sum.DistinctNontrivial++
		p.Close()
		c.ShutdownAsync()
	}
	cluster.WaitBackground(15 * time.Second)
	if err := w.Close(); err != nil {
		t.Fatal(err)
	}
	writeSummary(t, out, "c10.summary.json", sum)
}
