//go:build verif

package reg

import (
	"context"
	"fmt"
	"math"
	"math/rand"
	"os"
	"path/filepath"
	"strconv"
	"strings"
	"testing"
	"time"

	"github.com/olric-data/olric"
	"github.com/olric-data/olric/internal/cluster/partitions"
	"github.com/olric-data/olric/verifharness/cluster"
	"github.com/olric-data/olric/verifharness/trace"
)

type blob struct{ A, B string }

func (b blob) MarshalBinary() ([]byte, error) { return []byte(b.A + "\x00" + b.B), nil }
func (b *blob) UnmarshalBinary(d []byte) error {
	parts := strings.SplitN(string(d), "\x00", 2)
	if len(parts) != 2 {
		return fmt.Errorf("bad blob")
	}
	b.A, b.B = parts[0], parts[1]
	return nil
}

func render(v any) string {
	switch x := v.(type) {
	case float32:
		return "float32:" + strconv.FormatUint(uint64(math.Float32bits(x)), 16)
	case float64:
		if x != x {
			return "float64:NaN"
		}
		return "float64:" + strconv.FormatUint(math.Float64bits(x), 16)
	case time.Time:
		_, off := x.Zone()
		return fmt.Sprintf("time:%d/%d", x.UnixNano(), off)
	case []byte:
		return fmt.Sprintf("bytes:%x", x)
	case string:
		return fmt.Sprintf("string:%x", x)
	case blob:
		return fmt.Sprintf("blob:%x/%x", x.A, x.B)
	}
	return fmt.Sprintf("%T:%v", v, v)
}

// readBack reads the key into the same type as `in`.
func readBack(g *olric.GetResponse, in any) (any, error) {
	switch in.(type) {
	case string:
		return g.String()
	case []byte:
		return g.Byte()
	case int:
		return g.Int()
	case int8:
		return g.Int8()
	case int16:
		return g.Int16()
	case int32:
		return g.Int32()
	case int64:
		return g.Int64()
	case uint:
		return g.Uint()
	case uint8:
		return g.Uint8()
	case uint16:
		return g.Uint16()
	case uint32:
		return g.Uint32()
	case uint64:
		return g.Uint64()
	case float32:
		return g.Float32()
	case float64:
		return g.Float64()
	case bool:
		return g.Bool()
	case time.Time:
		return g.Time()
	case time.Duration:
		return g.Duration()
	case blob:
		var b blob
		err := g.Scan(&b)
		return b, err
	}
	return nil, fmt.Errorf("unsupported %T", in)
}

func boundaryValues(rng *rand.Rand, nrandom int) []any {
	long := strings.Repeat("L", 1<<20)
	vs := []any{
		"", "plain", "with\r\nCRLF", "\x00\xff\xfe binary", "unicode ✓ 日本語", long,
		[]byte{}, []byte{0}, []byte("\r\n"), []byte{0xff, 0x00, 0x0d, 0x0a}, []byte(long[:70000]),
		int(0), int(-1), int(math.MaxInt64), int(math.MinInt64),
		int8(math.MinInt8), int8(math.MaxInt8), int16(math.MinInt16), int16(math.MaxInt16),
		int32(math.MinInt32), int32(math.MaxInt32), int64(math.MinInt64), int64(math.MaxInt64),
		uint(0), uint(math.MaxUint64), uint8(math.MaxUint8), uint16(math.MaxUint16), uint32(math.MaxUint32), uint64(math.MaxUint64),
		float32(0), float32(math.Copysign(0, -1)), float32(math.MaxFloat32), float32(math.SmallestNonzeroFloat32), float32(math.Inf(1)), float32(1.1),
		float64(0), math.Copysign(0, -1), math.MaxFloat64, math.SmallestNonzeroFloat64, math.Inf(1), math.Inf(-1), math.NaN(), 0.1, 1e-310, 123456789.123456789,
		true, false,
		time.Unix(0, 0).UTC(), time.Date(9999, 12, 31, 23, 59, 59, 999999999, time.UTC), time.Date(2024, 2, 29, 12, 0, 0, 1, time.FixedZone("X", 3*3600+1800)),
		time.Duration(0), time.Duration(math.MaxInt64), time.Duration(math.MinInt64), time.Nanosecond,
		blob{"a", "b"}, blob{"", "\r\n\x00"},
	}
	for i := 0; i < nrandom; i++ {
		switch rng.Intn(8) {
		case 0:
			b := make([]byte, rng.Intn(300))
			rng.Read(b)
			vs = append(vs, b)
		case 1:
			b := make([]byte, rng.Intn(300))
			rng.Read(b)
			vs = append(vs, string(b))
		case 2:
			vs = append(vs, int64(rng.Uint64()))
		case 3:
			vs = append(vs, rng.Uint64())
		case 4:
			vs = append(vs, math.Float64frombits(rng.Uint64()))
		case 5:
			vs = append(vs, math.Float32frombits(rng.Uint32()))
		case 6:
			vs = append(vs, time.Unix(rng.Int63n(4e9), rng.Int63n(1e9)).In(time.FixedZone("R", 60*(rng.Intn(24*60)-12*60))))
		default:
			vs = append(vs, time.Duration(rng.Int63()))
		}
	}
	return vs
}

// TestC17 writes values of every supported type and reads them back through every client,
// directly, after a member joined (migration) and after a member was lost (served from copies).
func TestC17(t *testing.T) {
	out := os.Getenv("VERIF_OUT")
	if out == "" {
		t.Skip("VERIF_OUT not set")
	}
	rng := rand.New(rand.NewSource(int64(envInt("VERIF_SEED", 1))))
	w, err := trace.New(filepath.Join(out, "c17.ndjson"))
	if err != nil {
		t.Fatal(err)
	}
	sum := &summary{Paths: map[string]int{}}
	ctx := context.Background()
	n := 0
	w.Emit(trace.Ev{"t": "reset", "seq": 0})
	c, err := cluster.Start(cluster.Options{Replicas: 2, Partitions: 7, TableSize: 4 << 20, Manual: true}, 3)
	if err != nil {
		t.Fatal(err)
	}
	sum.Configs = append(sum.Configs, "N=3 R=2 P=7 T=4MiB, +1 member, -1 member")
	vals := boundaryValues(rng, envInt("VERIF_C17_RANDOM", 100))
	type client struct {
		name string
		dm   olric.DMap
	}
	mk := func() []client {
		var cs []client
		for _, m := range c.Live()[:2] {
			d, err := m.DB.NewEmbeddedClient().NewDMap("c17")
			if err != nil {
				t.Fatal(err)
			}
			cs = append(cs, client{fmt.Sprintf("emb@%d", m.Index), d})
		}
		cc, err := olric.NewClusterClient([]string{c.Live()[0].Name})
		if err != nil {
			t.Fatal(err)
		}
		d, err := cc.NewDMap("c17")
		if err != nil {
			t.Fatal(err)
		}
		cs = append(cs, client{"cc", d})
		return cs
	}
	clients := mk()
	keyOf := func(i int, wr string) string { return fmt.Sprintf("v%d-%s", i, wr) }
	// write every value through every client; a pipeline for the cluster client as well
	for i, v := range vals {
		for _, cl := range clients {
			if err := cl.dm.Put(ctx, keyOf(i, cl.name), v); err != nil {
				n++
				w.Emit(trace.Ev{"t": "rt", "n": n, "type": fmt.Sprintf("%T", v), "inv": render(v), "outv": "", "ret": "put:" + classify(err).Ret, "stage": "write", "path": cl.name})
			}
		}
		pl, err := clients[2].dm.Pipeline()
		if err == nil {
			fp, perr := pl.Put(ctx, keyOf(i, "pipe"), v)
			if perr == nil {
				perr = pl.Exec(ctx)
			}
			if perr == nil {
				perr = fp.Result()
			}
			if perr != nil {
				n++
				w.Emit(trace.Ev{"t": "rt", "n": n, "type": fmt.Sprintf("%T", v), "inv": render(v), "outv": "", "ret": "put:" + classify(perr).Ret, "stage": "write", "path": "pipe"})
			}
			pl.Close()
		}
	}
	// every value once more in ONE pipeline (Put for even, GetPut for odd positions), executed after everything is queued
	if pl, err := clients[2].dm.Pipeline(); err == nil {
		type fut struct {
			i   int
			res func() error
		}
		var futs []fut
		for i, v := range vals {
			i, v := i, v
			if i%2 == 0 {
				f, err := pl.Put(ctx, keyOf(i, "batch"), v)
				if err != nil {
					futs = append(futs, fut{i, func() error { return err }})
					continue
				}
				futs = append(futs, fut{i, f.Result})
			} else {
				f, err := pl.GetPut(ctx, keyOf(i, "batch"), v)
				if err != nil {
					futs = append(futs, fut{i, func() error { return err }})
					continue
				}
				futs = append(futs, fut{i, func() error {
					_, err := f.Result()
					if err == olric.ErrNilResponse || err == olric.ErrKeyNotFound {
						return nil
					}
					return err
				}})
			}
		}
		xerr := pl.Exec(ctx)
		for _, f := range futs {
			err := xerr
			if err == nil {
				err = f.res()
			}
			if err != nil {
				n++
				w.Emit(trace.Ev{"t": "rt", "n": n, "type": fmt.Sprintf("%T", vals[f.i]), "inv": render(vals[f.i]), "outv": "", "ret": "put:" + classify(err).Ret, "stage": "write", "path": "batch"})
			}
		}
		pl.Close()
	}
	readAll := func(stage string) {
		for i, v := range vals {
			for _, wr := range []string{"emb@0", "emb@1", "cc", "pipe", "batch"} {
				rd := clients[rng.Intn(len(clients))]
				g, err := rd.dm.Get(ctx, keyOf(i, wr))
				n++
				sum.Evaluations++
				sum.Paths[wr+"->"+rd.name]++
				ev := trace.Ev{"t": "rt", "n": n, "type": fmt.Sprintf("%T", v), "inv": render(v), "outv": "", "ret": "ok", "stage": stage, "path": wr + "->" + rd.name}
				if err != nil {
					ev["ret"] = "get:" + classify(err).Ret
				} else if o, err := readBack(g, v); err != nil {
					ev["ret"] = "scan:" + err.Error()
				} else {
					ev["outv"] = render(o)
				}
				if len(ev["inv"].(string)) > 200 {
					// long values: compare digests
					ev["inv"] = fmt.Sprintf("len%d:%x", len(ev["inv"].(string)), hash(ev["inv"].(string)))
					if s := ev["outv"].(string); s != "" {
						ev["outv"] = fmt.Sprintf("len%d:%x", len(s), hash(s))
					}
				}
				w.Emit(ev)
			}
		}
	}
	readAll("direct")
	// migration: a member joins and takes over partitions
	if _, err := c.AddMember(); err != nil {
		t.Fatal(err)
	}
	if err := c.WaitStable(20*time.Second, true); err != nil {
		t.Fatal(err)
	}
	clients = mk()
	readAll("after migration")
	// a member is lost: its partitions are served from the copies
	if err := c.Stop(c.Members[2], false); err != nil {
		t.Fatal(err)
	}
	if err := c.WaitStable(20*time.Second, false); err != nil {
		t.Fatal(err)
	}
	clients = mk()
	readAll("after losing a member")
	c.ShutdownAsync()
	sum.DistinctNontrivial = len(vals)
	sum.Samples = append(sum.Samples, map[string]any{"values": []string{render(vals[2]), render(vals[14]), render(vals[41])}})
	// ---- size classes
	for _, R := range []int{1, 2} {
		const T = 1024
		c, err := cluster.Start(cluster.Options{Replicas: R, Partitions: 7, TableSize: T, Manual: true}, 2)
		if err != nil {
			t.Fatal(err)
		}
		sum.Configs = append(sum.Configs, fmt.Sprintf("size classes N=2 R=%d T=%d", R, T))
		cls := []Path{Embedded(c.Members[0]), Resp(c.Members[1])}
		cc, _ := ClusterClient(c.Members[0])
		cls = append(cls, cc)
		nb := []string{"nb1", "nb2", "nb3"}
		for _, k := range nb {
			cls[0].Put(ctx, "c17s", k, "neighbour-"+k, PutOpts{})
		}
		try := func(p Path, key string, vlen int) {
			val := strings.Repeat("x", vlen)
			rep := p.Put(ctx, "c17s", key, val, PutOpts{})
			g := cls[0].Get(ctx, "c17s", key)
			stored := false
			copies := 0 // fragments holding exactly the written value
			for _, m := range c.Live() {
				for _, kind := range []partitions.Kind{partitions.PRIMARY, partitions.BACKUP} {
					if e, ok := m.V.DMap.VerifEntry("c17s", key, kind); ok {
						stored = true
						if string(e.Value) == val {
							copies++
						}
					}
					// a truncated key would show up under another name: look for any entry whose key is a prefix
					if len(key) > 255 {
						for p := uint64(0); p < 7; p++ {
							for _, e := range m.V.DMap.VerifEntries("c17s", p, kind) {
								if len(e.Key) > 20 && strings.HasPrefix(key, e.Key) {
									stored = true
								}
							}
						}
					}
				}
			}
			ok := true
			for _, k := range nb {
				if r := cls[0].Get(ctx, "c17s", k); r.Ret != "val" || r.V != "neighbour-"+k {
					ok = false
				}
			}
			n++
			sum.Evaluations++
			w.Emit(trace.Ev{"t": "size", "n": n, "klen": len(key), "esize": 29 + len(key) + vlen, "T": T, "ret": rep.Ret, "detail": rep.Err,
				"readback": g.Ret == "val" && g.V == val, "stored": stored, "copies": copies, "neighbours": ok, "path": p.Name(), "R": R})
			if abs(29+len(key)+vlen-T) <= 1 || len(key) >= 255 {
				sum.DistinctNontrivial++
			}
		}
		for pi, p := range cls {
			for _, kl := range []int{1, 254, 255, 256, 257, 300} {
				key := strings.Repeat("k", kl-1) + strconv.Itoa(pi)
				try(p, key, 10)
			}
			for _, d := range []int{-40, -31, -30, -29, -28, -27, -16, -8, -3, -2, -1, 0, 1, 2, 500} {
				key := fmt.Sprintf("sz%d-%d", pi, d+10)
				try(p, key, T+d-29-len(key))
			}
		}
		for _, p := range cls {
			p.Close()
		}
		c.ShutdownAsync()
	}
	cluster.WaitBackground(15 * time.Second)
	if err := w.Close(); err != nil {
		t.Fatal(err)
	}
	sum.Histories = 1
	writeSummary(t, out, "c17.summary.json", sum)
}

func abs(x int) int {
	if x < 0 {
		return -x
	}
	return x
}

func hash(s string) uint64 {
	var h uint64 = 1469598103934665603
	for i := 0; i < len(s); i++ {
		h ^= uint64(s[i])
		h *= 1099511628211
	}
	return h
}
