//go:build verif

package reg

import (
	"context"
	"fmt"
	"math/rand"
	"os"
	"path/filepath"
	"strings"
	"testing"
	"time"

	"github.com/olric-data/olric"
	"github.com/olric-data/olric/config"
	"github.com/olric-data/olric/internal/cluster/partitions"
	"github.com/olric-data/olric/verifharness/cluster"
	"github.com/olric-data/olric/verifharness/trace"
)

func digest(b []byte) string {
	if b == nil {
		return "nil"
	}
	return fmt.Sprintf("%d:%x", len(b), hash(string(b)))
}

type handle struct {
	id  int
	b   []byte // the bytes as handed out
	s   string // the string as handed out (may alias storage)
	str bool
}

// TestC18 keeps values handed out by reads and looks at them again after later operations.
func TestC18(t *testing.T) {
	out := os.Getenv("VERIF_OUT")
	if out == "" {
		t.Skip("VERIF_OUT not set")
	}
	rng := rand.New(rand.NewSource(int64(envInt("VERIF_SEED", 1))))
	nseq := envInt("VERIF_SEQUENCES", 40)
	w, err := trace.New(filepath.Join(out, "c18.ndjson"))
	if err != nil {
		t.Fatal(err)
	}
	sum := &summary{Paths: map[string]int{}}
	ctx := context.Background()
	seq := 0
	for _, cf := range []struct {
		N, R int
		RR   bool
	}{{1, 1, false}, {2, 2, false}, {2, 2, true}} {
		c, err := cluster.Start(cluster.Options{Replicas: cf.R, Partitions: 1, TableSize: 600, Manual: true}, 1)
		if err != nil {
			t.Fatal(err)
		}
		if cf.N == 2 {
			c.Shutdown()
			c, err = cluster.Start(cluster.Options{Replicas: cf.R, Partitions: 7, TableSize: 600, ReadRepair: cf.RR, Manual: true}, 2)
			if err != nil {
				t.Fatal(err)
			}
		}
		label := fmt.Sprintf("N=%d R=%d T=600 read-repair=%v", cf.N, cf.R, cf.RR)
		sum.Configs = append(sum.Configs, label)
		emb, err := c.Members[0].DB.NewEmbeddedClient().NewDMap("c18")
		if err != nil {
			t.Fatal(err)
		}
		cc, err := olric.NewClusterClient([]string{c.Members[0].Name})
		if err != nil {
			t.Fatal(err)
		}
		cdm, _ := cc.NewDMap("c18")
		clients := map[string]olric.DMap{"embedded": emb, "cluster-client": cdm}
		for s := 0; s < nseq; s++ {
			seq++
			w.Emit(trace.Ev{"t": "reset", "seq": seq, "cfg": label})
			via := []string{"embedded", "embedded", "cluster-client"}[rng.Intn(3)]
			dm := clients[via]
			sum.Paths[via]++
			key := fmt.Sprintf("s%d", seq)
			val := []byte(fmt.Sprintf("value-%d-%060d", seq, rng.Intn(1000)))
			buf := append([]byte{}, val...)
			if err := dm.Put(ctx, key, buf); err != nil {
				t.Fatal(err)
			}
			w.Emit(trace.Ev{"t": "put", "k": key, "v": digest(val)})
			var hs []*handle
			nh := 0
			read := func(kind string) {
				var g *olric.GetResponse
				var err error
				if kind == "getput" {
					nv := []byte(fmt.Sprintf("swapped-%d-%050d", seq, rng.Intn(1000)))
					g, err = dm.GetPut(ctx, key, nv)
					if err == nil {
						old := val
						val = nv
						defer w.Emit(trace.Ev{"t": "put", "k": key, "v": digest(nv)})
						_ = old
					}
				} else {
					g, err = dm.Get(ctx, key)
				}
				if err != nil || g == nil {
					return
				}
				if _, berr := g.Byte(); berr != nil {
					return // GetPut on an absent key: there is no previous value to hand out
				}
				nh++
				h := &handle{id: seq*100 + nh}
				if rng.Intn(3) == 0 {
					h.str = true
					h.s, _ = g.String()
					w.Emit(trace.Ev{"t": "ret", "h": h.id, "k": key, "v": digest([]byte(h.s)), "as": "string", "via": via})
				} else {
					h.b, _ = g.Byte()
					w.Emit(trace.Ev{"t": "ret", "h": h.id, "k": key, "v": digest(h.b), "as": "bytes", "via": via})
				}
				hs = append(hs, h)
			}
			// keys handed out by an iterator are values handed to the caller as well
			iterate := func() {
				it, err := dm.Scan(ctx)
				if err != nil {
					return
				}
				defer it.Close()
				for n := 0; n < 12 && it.Next(); n++ {
					nh++
					h := &handle{id: seq*100 + nh, str: true, s: it.Key()}
					w.Emit(trace.Ev{"t": "retkey", "h": h.id, "v": digest([]byte(h.s)), "via": via})
					hs = append(hs, h)
				}
			}
			read("get")
			if rng.Intn(2) == 0 {
				iterate()
			}
			steps := 2 + rng.Intn(4)
			for j := 0; j < steps; j++ {
				after := ""
				x := rng.Intn(11)
				if cf.RR && j == 0 {
					x = 11 // the read-repair cluster starts every sequence with the step that needs it
				}
				switch x {
				case 11:
					// read repair hands the entry it read to the copies that are behind; the caller meanwhile owns the bytes
					// Get returned.  A stale copy is planted on the backup, the key is read through the owner's embedded
					// client, and the returned bytes are overwritten at once.
					owner, _ := c.OwnerOf(c.Live()[0], "c18", key)
					cur, ok := owner.V.DMap.VerifEntry("c18", key, partitions.PRIMARY)
					if !ok {
						break
					}
					for _, b := range c.BackupsOf(c.Live()[0], "c18", key) {
						b.V.DMap.VerifPutRaw("c18", key, []byte("stale-copy"), 0, cur.Timestamp-1000, partitions.BACKUP)
					}
					odm, err := owner.DB.NewEmbeddedClient().NewDMap("c18")
					if err != nil {
						break
					}
					g, err := odm.Get(ctx, key)
					if err != nil {
						break
					}
					bts, _ := g.Byte()
					nh++
					h := &handle{id: seq*100 + nh, b: bts}
					w.Emit(trace.Ev{"t": "ret", "h": h.id, "k": key, "v": digest(bts), "as": "bytes", "via": "embedded on the owner"})
					for i := range bts {
						bts[i] = 'R'
					}
					w.Emit(trace.Ev{"t": "mut", "h": h.id, "v": digest(bts)})
					hs = append(hs, h)
					time.Sleep(20 * time.Millisecond)
					after = "a read that repaired a stale copy, whose returned bytes the caller then overwrote"
				case 9, 10:
					// a write through a pipeline: the caller's buffer is its own again as soon as Put / GetPut has returned,
					// that is before Exec sends anything
					pl, err := cdm.Pipeline()
					if err != nil {
						break
					}
					nv := []byte(fmt.Sprintf("piped-%d-%d-%050d", seq, j, rng.Intn(1000)))
					pbuf := append([]byte{}, nv...)
					if x == 9 {
						_, err = pl.Put(ctx, key, pbuf)
					} else {
						_, err = pl.GetPut(ctx, key, pbuf)
					}
					if err == nil {
						for i := range pbuf {
							pbuf[i] = 'P'
						}
						err = pl.Exec(ctx)
					}
					pl.Close()
					if err == nil {
						val = nv
						w.Emit(trace.Ev{"t": "put", "k": key, "v": digest(nv)})
						w.Emit(trace.Ev{"t": "mutbuf", "k": key})
						after = "a pipelined write whose buffer the caller reused before Exec"
					}
				case 8:
					iterate()
					after = "an iterator handed out keys"
				case 0: // overwrite
					val = []byte(fmt.Sprintf("over-%d-%d-%055d", seq, j, rng.Intn(1000)))
					b2 := append([]byte{}, val...)
					dm.Put(ctx, key, b2)
					w.Emit(trace.Ev{"t": "put", "k": key, "v": digest(val)})
					after = "overwrite"
				case 1: // delete and write again
					dm.Delete(ctx, key)
					w.Emit(trace.Ev{"t": "del", "k": key})
					after = "delete"
				case 2: // churn other keys so that tables fill up, are compacted, recycled and rewritten
					for r := 0; r < 40; r++ {
						ck := fmt.Sprintf("churn-%d", rng.Intn(6))
						dm.Put(ctx, ck, []byte(fmt.Sprintf("%080d", r)))
						if r%7 == 0 {
							dm.Delete(ctx, ck)
						}
					}
					for _, m := range c.Live() {
						for p := uint64(0); p < c.Opts.Partitions; p++ {
							m.V.DMap.VerifCompact("c18", p, partitions.PRIMARY)
							m.V.DMap.VerifCompact("c18", p, partitions.BACKUP)
						}
					}
					for r := 0; r < 20; r++ {
						dm.Put(ctx, fmt.Sprintf("churn-%d", rng.Intn(6)), []byte(fmt.Sprintf("%080d", r+1000)))
					}
					w.Emit(trace.Ev{"t": "churn"})
					after = "churn, compaction and table reuse"
				case 3: // the caller scribbles over what it was given
					if len(hs) > 0 {
						h := hs[rng.Intn(len(hs))]
						if !h.str && len(h.b) > 0 {
							for x := range h.b {
								h.b[x] = 'Z'
							}
							w.Emit(trace.Ev{"t": "mut", "h": h.id, "v": digest(h.b)})
							after = "the caller modified a returned value"
						}
					}
				case 4: // the caller reuses the buffer it passed to Put
					for x := range buf {
						buf[x] = 'Q'
					}
					w.Emit(trace.Ev{"t": "mutbuf", "k": key})
					after = "the caller reused the buffer passed to Put"
				case 5:
					read("get")
					after = "another read"
				case 6:
					read("getput")
					after = "getput"
				default:
					time.Sleep(time.Millisecond)
					after = "pause"
				}
				sum.Evaluations++
				// look at every handle again, and at the stored value
				for _, h := range hs {
					v := digest(h.b)
					if h.str {
						v = digest([]byte(h.s))
					}
					w.Emit(trace.Ev{"t": "obs", "h": h.id, "v": v, "after": after})
				}
				g, err := emb.Get(ctx, key)
				cur := "nil"
				if err == nil {
					b, _ := g.Byte()
					cur = digest(b)
				}
				w.Emit(trace.Ev{"t": "get", "k": key, "v": cur, "after": after})
			}
			// epilogue: more than a table's worth of other keys is written, so that the key's entry sits in a sealed (read-only)
			// table; then it is read through the owner's embedded client and the caller overwrites what it was given
			if _, err := emb.Get(ctx, key); err == nil {
				for r := 0; r < 10; r++ {
					dm.Put(ctx, fmt.Sprintf("seal-%d-%d", seq%3, r), []byte(fmt.Sprintf("%080d", r)))
				}
				w.Emit(trace.Ev{"t": "churn"})
				for _, rd := range []olric.DMap{emb, dm} {
					g, err := rd.Get(ctx, key)
					if err != nil {
						continue
					}
					b, _ := g.Byte()
					nh++
					h := &handle{id: seq*100 + nh, b: b}
					w.Emit(trace.Ev{"t": "ret", "h": h.id, "k": key, "v": digest(h.b), "as": "bytes", "via": "epilogue"})
					for x := range h.b {
						h.b[x] = 'Y'
					}
					w.Emit(trace.Ev{"t": "mut", "h": h.id, "v": digest(h.b)})
					hs = append(hs, h)
				}
				sum.Evaluations++
				for _, h := range hs {
					v := digest(h.b)
					if h.str {
						v = digest([]byte(h.s))
					}
					w.Emit(trace.Ev{"t": "obs", "h": h.id, "v": v, "after": "the caller modified a value read from a sealed table"})
				}
				cur := "nil"
				if g, err := emb.Get(ctx, key); err == nil {
					b, _ := g.Byte()
					cur = digest(b)
				}
				w.Emit(trace.Ev{"t": "get", "k": key, "v": cur, "after": "the caller modified a value read from a sealed table"})
			}
			sum.Histories++
			sum.DistinctNontrivial++
			if len(sum.Samples) < 2 {
				sum.Samples = append(sum.Samples, map[string]any{"cfg": label, "via": via, "steps": steps})
			}
		}
		cc.Close(ctx)
		c.ShutdownAsync()
	}
	// "a caller may reuse the buffers it passed to Put as soon as Put returns" - also when the backups are written in the
	// background (asynchronous replication): every Put through the embedded client passes a []byte that is overwritten the
	// moment Put has returned; once the backup copies have arrived, every copy (white box) and every read holds what was put
	for r := 0; r < envInt("VERIF_C18_ASYNC", 1); r++ {
		c, err := cluster.Start(cluster.Options{Replicas: 2, Partitions: 7, TableSize: 0, Manual: true,
			Tweak: func(c *config.Config) { c.ReplicationMode = config.AsyncReplicationMode }}, 2)
		if err != nil {
			t.Fatal(err)
		}
		label := "N=2 R=2 asynchronous replication"
		sum.Configs = append(sum.Configs, label)
		seq++
		w.Emit(trace.Ev{"t": "reset", "seq": seq, "cfg": label, "via": "embedded"})
		emb, err := c.Members[r%2].DB.NewEmbeddedClient().NewDMap("c18")
		if err != nil {
			t.Fatal(err)
		}
		var keys []string
		for i := 0; i < 200; i++ {
			key := fmt.Sprintf("as%d-%d", r, i)
			buf := []byte(fmt.Sprintf("value-%d-%d-%s", r, i, strings.Repeat(string(rune('a'+i%26)), 40+rng.Intn(200))))
			want := digest(buf)
			if err := emb.Put(ctx, key, buf); err != nil {
				t.Fatalf("put: %v", err)
			}
			for x := range buf {
				buf[x] = 'Q'
			}
			w.Emit(trace.Ev{"t": "put", "k": key, "v": want})
			w.Emit(trace.Ev{"t": "mutbuf", "k": key})
			keys = append(keys, key)
			sum.Evaluations++
		}
		for _, key := range keys {
			// the backup copy arrives in the background: wait for it (a copy that never arrives is not judged here)
			var bk []byte
			for until := time.Now().Add(5 * time.Second); time.Now().Before(until) && bk == nil; {
				for _, m := range c.Live() {
					if e, ok := m.V.DMap.VerifEntry("c18", key, partitions.BACKUP); ok {
						bk = append([]byte{}, e.Value...)
					}
				}
				if bk == nil {
					time.Sleep(2 * time.Millisecond)
				}
			}
			if bk != nil {
				w.Emit(trace.Ev{"t": "get", "k": key, "v": digest(bk), "after": "the backup copy written in the background after the caller reused the buffer passed to Put"})
			}
			cur := "nil"
			if g, err := emb.Get(ctx, key); err == nil {
				b, _ := g.Byte()
				cur = digest(b)
			}
			w.Emit(trace.Ev{"t": "get", "k": key, "v": cur, "after": "asynchronous replication after the caller reused the buffer passed to Put"})
			sum.Evaluations++
		}
		sum.Histories++
		sum.DistinctNontrivial++
		c.ShutdownAsync()
	}
	cluster.WaitBackground(10 * time.Second)
	if err := w.Close(); err != nil {
		t.Fatal(err)
	}
	writeSummary(t, out, "c18.summary.json", sum)
}
