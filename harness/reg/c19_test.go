//go:build verif

package reg

import (
	"bufio"
	"context"
	"encoding/json"
	"fmt"
	"github.com/olric-data/olric/config"
	"math/rand"
	"os"
	"path/filepath"
	"sort"
	"strings"
	"testing"
	"time"

	"github.com/olric-data/olric"
	"github.com/olric-data/olric/internal/cluster/partitions"
	"github.com/olric-data/olric/verifharness/cluster"
	"github.com/olric-data/olric/verifharness/sched"
	"github.com/olric-data/olric/verifharness/trace"
)

type isoStep struct {
	Op string `json:"op"`
	D  string `json:"d"`
	K  string `json:"k"`
	V  string `json:"v"`
}

// TestC19 runs operation sequences over two DMaps whose name+key concatenations collide.
func TestC19(t *testing.T) {
	out := os.Getenv("VERIF_OUT")
	if out == "" {
		t.Skip("VERIF_OUT not set")
	}
	rng := rand.New(rand.NewSource(int64(envInt("VERIF_SEED", 1))))
	w, err := trace.New(filepath.Join(out, "c19.ndjson"))
	if err != nil {
		t.Fatal(err)
	}
	sum := &summary{Paths: map[string]int{}}
	ctx := context.Background()
	var progs [][]isoStep
	if beh := os.Getenv("VERIF_BEH"); beh != "" {
		f, err := os.Open(beh)
		if err != nil {
			t.Fatal(err)
		}
		sc := bufio.NewScanner(f)
		sc.Buffer(make([]byte, 1<<20), 1<<24)
		for sc.Scan() {
			var p []isoStep
			if err := json.Unmarshal([]byte(sc.Text()), &p); err != nil {
				t.Fatal(err)
			}
			progs = append(progs, p)
		}
		f.Close()
	}
	fromTLC := len(progs)
	allQuiet := map[int]bool{} // programs that run quietly on every cluster shape
	if beh := os.Getenv("VERIF_BEH_ALL"); beh != "" {
		f, err := os.Open(beh)
		if err != nil {
			t.Fatal(err)
		}
		sc := bufio.NewScanner(f)
		sc.Buffer(make([]byte, 1<<20), 1<<24)
		for sc.Scan() {
			var p []isoStep
			if err := json.Unmarshal([]byte(sc.Text()), &p); err != nil {
				t.Fatal(err)
			}
			if len(p) < 2 {
				continue
			}
			allQuiet[len(progs)] = true
			progs = append(progs, p)
		}
		f.Close()
	}
	dmaps := []string{"ab", "a"}
	keys := []string{"c", "bc", "k1", "n"}
	for i := 0; i < envInt("VERIF_C19_RANDOM", 0); i++ {
		var p []isoStep
		n := 3 + rng.Intn(5)
		for j := 0; j < n; j++ {
			d := dmaps[rng.Intn(2)]
			k := keys[rng.Intn(3)]
			switch x := rng.Intn(10); {
			case x < 3:
				p = append(p, isoStep{Op: "put", D: d, K: k, V: fmt.Sprintf("v%d", j)})
			case x < 4:
				p = append(p, isoStep{Op: "del", D: d, K: k})
			case x < 5:
				p = append(p, isoStep{Op: "incr", D: d, K: "n"})
			case x < 6:
				p = append(p, isoStep{Op: "getput", D: d, K: k, V: fmt.Sprintf("g%d", j)})
			case x < 7:
				p = append(p, isoStep{Op: "lock", D: d, K: "lk"})
			case x < 8:
				p = append(p, isoStep{Op: "expire", D: d, K: k})
			default:
				p = append(p, isoStep{Op: "destroy", D: d})
			}
		}
		progs = append(progs, p)
	}
	seq := 0
	cfgs := []struct {
		N, R     int
		Failover bool // both DMaps are filled, then the last member is stopped abruptly: the survivors hold non-empty backup fragments of partitions they now own
	}{{1, 1, false}, {2, 1, false}, {3, 2, false}, {2, 2, false}, {2, 2, true}}
	for ci, cf := range cfgs {
		c, err := cluster.Start(cluster.Options{Replicas: cf.R, Partitions: 7, Manual: true}, cf.N)
		if err != nil {
			t.Fatal(err)
		}
		label := fmt.Sprintf("N=%d R=%d", cf.N, cf.R)
		if cf.Failover {
			label += " after the loss of one member"
			ec := c.Members[0].DB.NewEmbeddedClient()
			for _, d := range []string{"ab", "a"} {
				if dm, err := ec.NewDMap(d); err == nil {
					for i := 0; i < 60; i++ {
						dm.Put(ctx, fmt.Sprintf("pre%d", i), "p")
					}
				}
			}
			ec.Close(ctx)
			if err := c.Stop(c.Members[cf.N-1], false); err != nil {
				t.Fatal(err)
			}
			if err := c.WaitStable(15*time.Second, false); err != nil {
				t.Fatal(err)
			}
			cf.N--
		}
		sum.Configs = append(sum.Configs, label)
		paths := allPaths(t, c)
		cc, err := olric.NewClusterClient([]string{c.Members[0].Name})
		if err != nil {
			t.Fatal(err)
		}
		allKeys := append(append([]string{}, keys...), "lk")
		// one embedded client per member for the whole cluster's life (each one opens sockets of its own when it scans)
		var embs []*olric.EmbeddedClient
		for _, m := range c.Live() {
			embs = append(embs, m.DB.NewEmbeddedClient())
		}
		var embedded []Path
		for _, p := range paths {
			if dp, ok := p.(*dmapPath); ok && strings.HasPrefix(dp.Name(), "emb@") {
				embedded = append(embedded, p)
			}
		}
		observe := func(after string) {
			for _, d := range dmaps {
				st := map[string]bool{}
				for _, m := range c.Live() {
					for p := uint64(0); p < 7; p++ {
						for _, kind := range []partitions.Kind{partitions.PRIMARY, partitions.BACKUP} {
							for _, e := range m.V.DMap.VerifEntries(d, p, kind) {
								st[e.Key] = true
							}
						}
					}
				}
				stored := []string{}
				for k := range st {
					stored = append(stored, k)
				}
				sort.Strings(stored)
				gets := []trace.Ev{}
				for _, k := range allKeys {
					p := paths[rng.Intn(len(paths))]
					r := p.Get(ctx, d, k)
					v := "nil"
					if r.Ret == "val" {
						v = r.V
						if k == "lk" {
							v = "locked"
						}
					} else if r.Ret != "notfound" {
						v = "error:" + r.Ret
					}
					gets = append(gets, trace.Ev{"k": k, "v": v, "path": p.Name()})
				}
				scan := []string{}
				var cl olric.DMap
				if rng.Intn(2) == 0 {
					cl, _ = cc.NewDMap(d)
				} else {
					cl, _ = embs[rng.Intn(cf.N)].NewDMap(d)
				}
				if it, err := cl.Scan(ctx); err == nil {
					for n := 0; n < 1000 && it.Next(); n++ {
						scan = append(scan, it.Key())
					}
					it.Close()
				}
				sort.Strings(scan)
				w.Emit(trace.Ev{"t": "obs", "d": d, "gets": gets, "scan": scan, "stored": stored, "after": after})
			}
		}
		for pi, prog := range progs {
			// large exported sets are spread over the cluster shapes; the set of ALL short sequences runs on every shape as long
			// as it is small (the quick tier's 200), otherwise it is spread as well
			if pi%len(cfgs) != ci && fromTLC > 40 && (!allQuiet[pi] || len(allQuiet) > 400) {
				continue // large exported sets are spread over the cluster shapes
			}
			seq++
			// a clean slate: both DMaps destroyed through an embedded client
			for _, d := range dmaps {
				dm, _ := embs[0].NewDMap(d)
				dm.Destroy(ctx)
			}
			w.Emit(trace.Ev{"t": "reset", "seq": seq, "cfg": label})
			counters := map[string]int{}
			locks := map[string]Locked{}
			both := false
			touched := map[string]bool{}
			// a quiet sequence runs through long-lived embedded handles only and is observed once at its end:
			// reads between the operations would themselves touch every member
			quiet := pi%3 == 2 || allQuiet[pi]
			for si, st := range prog {
				p := paths[rng.Intn(len(paths))]
				if quiet {
					p = embedded[rng.Intn(len(embedded))]
				}
				sum.Paths[p.Name()]++
				var rep Reply
				v := st.V
				switch st.Op {
				case "put":
					rep = p.Put(ctx, st.D, st.K, st.V, PutOpts{})
				case "del":
					rep = p.Delete(ctx, st.D, st.K)
				case "incr":
					rep = p.Incr(ctx, st.D, st.K, 2)
					counters[st.D] += 2
					v = fmt.Sprint(rep.N)
					if rep.Ret == "num" && rep.N != counters[st.D] {
						rep = Reply{Ret: fmt.Sprintf("counter of %s is %d, want %d", st.D, rep.N, counters[st.D])}
					}
				case "getput":
					rep = p.GetPut(ctx, st.D, st.K, st.V)
				case "lock":
					if _, ok := p.(*pipePath); ok {
						p = paths[0]
					}
					if l := locks[st.D]; l != nil {
						rep = l.Unlock(ctx)
						delete(locks, st.D)
						st.Op = "unlock"
					} else {
						var l Locked
						rep, l = p.Lock(ctx, st.D, st.K, 0, 20*time.Millisecond)
						if rep.Ret == "ok" {
							locks[st.D] = l
						}
						v = "locked"
					}
				case "expire":
					rep = p.Expire(ctx, st.D, st.K, time.Hour, false)
					if rep.Ret == "notfound" {
						rep.Ret = "ok"
					}
				case "destroy":
					x := rng.Intn(3)
					if quiet {
						x = 3
					}
					switch x {
					case 3:
						rep = classify(p.(*dmapPath).Destroy(ctx, st.D))
					case 0:
						dm, _ := embs[rng.Intn(cf.N)].NewDMap(st.D)
						rep = classify(dm.Destroy(ctx))
					case 1:
						dm, _ := cc.NewDMap(st.D)
						rep = classify(dm.Destroy(ctx))
					default:
						rp := Resp(c.Members[rng.Intn(cf.N)]).(*respPath)
						rep = classify(rp.rc.Do(ctx, "dm.destroy", st.D).Err())
						rp.Close()
					}
					counters[st.D] = 0
					delete(locks, st.D)
				}
				sum.Evaluations++
				touched[st.D] = true
				if len(touched) == 2 {
					both = true
				}
				w.Emit(trace.Ev{"t": "op", "op": st.Op, "d": st.D, "k": st.K, "v": v, "ret": rep.Ret, "detail": rep.Err, "path": p.Name()})
				if !quiet || si == len(prog)-1 {
					observe(st.Op + " on " + st.D)
				}
			}
			sum.Histories++
			if both {
				sum.DistinctNontrivial++
			}
			if len(sum.Samples) < 2 && len(prog) >= 3 {
				sum.Samples = append(sum.Samples, map[string]any{"cfg": label, "program": prog})
			}
		}
		cc.Close(ctx)
		for _, e := range embs {
			e.Close(ctx)
		}
		for _, p := range paths {
			p.Close()
		}
		c.ShutdownAsync()
	}
	// Background work that is configured for, or caused by, one DMap: a DMap "b" with an idle limit next to a DMap "a.b"
	// without one, and a key that expires in "c.d" while the same key lives on in "d" (names with dots; two members, two
	// copies of everything).  Nothing of "a.b" and "d" may change while the eviction workers do their job on "b" and "c.d".
	for r := 0; r < envInt("VERIF_C19_BACKGROUND", 2); r++ {
		c, err := cluster.Start(cluster.Options{Replicas: 2, Partitions: 7, Manual: true,
			DMaps: func(d *config.DMaps) {
				d.NumEvictionWorkers = 4
				d.Custom = map[string]config.DMap{"b": {MaxIdleDuration: 300 * time.Millisecond}}
			}}, 2)
		if err != nil {
			t.Fatal(err)
		}
		seq++
		w.Emit(trace.Ev{"t": "reset", "seq": seq, "cfg": "N=2 R=2, idle limit on DMap b only, expiry in DMap c.d only"})
		p := Embedded(c.Members[r%2])
		put := func(d, k, v string, o PutOpts) {
			rep := p.Put(ctx, d, k, v, o)
			w.Emit(trace.Ev{"t": "op", "op": "put", "d": d, "k": k, "v": v, "ret": rep.Ret, "detail": rep.Err, "path": p.Name()})
			sum.Evaluations++
		}
		var ks []string
		for i := 0; i < 12; i++ {
			k := fmt.Sprintf("bg%d", i)
			ks = append(ks, k)
			put("a.b", k, "ab-"+k, PutOpts{})
			put("b", k, "b-"+k, PutOpts{})
			put("d", k, "d-"+k, PutOpts{})
			// this one expires; the trace spec is told nothing about it (DMap c.d is not observed)
			p.Put(ctx, "c.d", k, "cd-"+k, PutOpts{Mode: "PX", D: 150 * time.Millisecond})
		}
		time.Sleep(1500 * time.Millisecond)
		for _, d := range []string{"a.b", "d"} {
			// white box first (looking through the API touches the keys)
			st := map[string]int{}
			for _, m := range c.Live() {
				for pid := uint64(0); pid < 7; pid++ {
					for _, kind := range []partitions.Kind{partitions.PRIMARY, partitions.BACKUP} {
						for _, e := range m.V.DMap.VerifEntries(d, pid, kind) {
							st[e.Key]++
						}
					}
				}
			}
			stored, copies := []string{}, []trace.Ev{}
			for k, n := range st {
				stored = append(stored, k)
				copies = append(copies, trace.Ev{"k": k, "n": n})
			}
			sort.Strings(stored)
			sort.Slice(copies, func(a, b int) bool { return copies[a]["k"].(string) < copies[b]["k"].(string) })
			gets := []trace.Ev{}
			for _, k := range ks {
				rep := p.Get(ctx, d, k)
				v := "nil"
				if rep.Ret == "val" {
					v = rep.V
				} else if rep.Ret != "notfound" {
					v = "error:" + rep.Ret
				}
				gets = append(gets, trace.Ev{"k": k, "v": v, "path": p.Name()})
			}
			w.Emit(trace.Ev{"t": "obs", "d": d, "gets": gets, "scan": stored, "stored": stored, "copies": copies, "want": 2,
				"after": "1.5 s of background eviction for other DMaps"})
			sum.Evaluations++
		}
		sum.Histories++
		sum.DistinctNontrivial++
		p.Close()
		c.ShutdownAsync()
	}
	// Destroy as the FIRST request a member ever sees for a DMap (a member keeps a registry of the DMaps it has handled, filled on
	// demand): three members, two copies; the keys of a fresh DMap are written through the embedded client of their owner and
	// live on members other than the one that serves the Destroy - over raw RESP, or through a cluster client (which picks any
	// member).  Afterwards every key reads not-found through every member and no fragment holds anything (white box).
	for r := 0; r < envInt("VERIF_C19_FIRSTCONTACT", 4); r++ {
		c, err := cluster.Start(cluster.Options{Replicas: 2, Partitions: 13, Manual: true}, 3)
		if err != nil {
			t.Fatal(err)
		}
		seq++
		d := fmt.Sprintf("fcd%d", r)
		entry := r % 3
		w.Emit(trace.Ev{"t": "reset", "seq": seq, "cfg": fmt.Sprintf("N=3 R=2, Destroy served by member %d, which has never handled the DMap", entry)})
		// keys whose owner and backup owner are the two OTHER members
		var ks []string
		for i := 0; len(ks) < 6 && i < 2000; i++ {
			k := fmt.Sprintf("fk%d", i)
			o, _ := c.OwnerOf(c.Live()[0], d, k)
			ok := o != nil && o.Index != entry
			for _, b := range c.BackupsOf(c.Live()[0], d, k) {
				if b.Index == entry {
					ok = false
				}
			}
			if ok {
				ks = append(ks, k)
			}
		}
		embs := map[int]Path{}
		for _, m := range c.Live() {
			embs[m.Index] = Embedded(m)
		}
		for _, k := range ks {
			o, _ := c.OwnerOf(c.Live()[0], d, k)
			rep := embs[o.Index].Put(ctx, d, k, "v-"+k, PutOpts{})
			w.Emit(trace.Ev{"t": "op", "op": "put", "d": d, "k": k, "v": "v-" + k, "ret": rep.Ret, "detail": rep.Err, "path": embs[o.Index].Name()})
			sum.Evaluations++
		}
		var rep Reply
		via := ""
		if r%2 == 0 {
			rp := Resp(c.Members[entry]).(*respPath)
			rep = classify(rp.rc.Do(ctx, "dm.destroy", d).Err())
			via = rp.Name()
			rp.Close()
		} else {
			cc, err := olric.NewClusterClient([]string{c.Members[entry].Name})
			if err != nil {
				t.Fatal(err)
			}
			dm, err := cc.NewDMap(d)
			if err != nil {
				t.Fatal(err)
			}
			rep = classify(dm.Destroy(ctx))
			via = "cluster client"
			cc.Close(ctx)
		}
		w.Emit(trace.Ev{"t": "op", "op": "destroy", "d": d, "k": "", "v": "", "ret": rep.Ret, "detail": rep.Err, "path": via})
		sum.Evaluations++
		// white box first, then the reads
		st := []string{}
		for _, m := range c.Live() {
			for pid := uint64(0); pid < 13; pid++ {
				for _, kind := range []partitions.Kind{partitions.PRIMARY, partitions.BACKUP} {
					for _, e := range m.V.DMap.VerifEntries(d, pid, kind) {
						st = append(st, e.Key)
					}
				}
			}
		}
		sort.Strings(st)
		gets := []trace.Ev{}
		for _, k := range ks {
			for _, m := range c.Live() {
				g := embs[m.Index].Get(ctx, d, k)
				v := "nil"
				if g.Ret == "val" {
					v = g.V
				} else if g.Ret != "notfound" {
					v = "error:" + g.Ret
				}
				gets = append(gets, trace.Ev{"k": k, "v": v, "path": embs[m.Index].Name()})
			}
		}
		w.Emit(trace.Ev{"t": "obs", "d": d, "gets": gets, "scan": uniq(st), "stored": uniq(st), "after": "Destroy served by a member that had never handled the DMap"})
		sum.Evaluations++
		sum.Histories++
		sum.DistinctNontrivial++
		for _, e := range embs {
			e.Close()
		}
		c.ShutdownAsync()
	}
	// The counterexample of FragLife_byname.cfg forced on a real member ("the DMap remains usable for new writes"): the
	// janitor has picked up a fragment that is empty and waits for its lock (held by a Delete of a missing key that is parked
	// at del.locked); Destroy wipes that fragment (it does not take the lock); a Put creates the next fragment and is
	// acknowledged; the Delete goes on, the janitor gets the lock of the OLD fragment, finds it empty and wipes it out.
	for r := 0; r < envInt("VERIF_C19_WIPERACE", 2); r++ {
		c, err := cluster.Start(cluster.Options{Replicas: 1, Partitions: 7, Manual: true}, 1)
		if err != nil {
			t.Fatal(err)
		}
		ctl := sched.Install(int64(envInt("VERIF_SEED", 1)))
		seq++
		w.Emit(trace.Ev{"t": "reset", "seq": seq, "cfg": "N=1 R=1, Destroy and a Put while the janitor waits for the lock of an empty fragment"})
		m := c.Members[0]
		p := Embedded(m)
		d, k := "w", fmt.Sprintf("wr%d", r)
		// the lock is held by a Delete of ANOTHER key of the same partition, which was never written
		other := ""
		for i := 0; other == ""; i++ {
			if o := fmt.Sprintf("other%d", i); partitions.HKey(d, o)%7 == partitions.HKey(d, k)%7 {
				other = o
			}
		}
		emit := func(op, v string, rep Reply) {
			w.Emit(trace.Ev{"t": "op", "op": op, "d": d, "k": k, "v": v, "ret": rep.Ret, "detail": rep.Err, "path": p.Name()})
			sum.Evaluations++
		}
		observe := func(after string) {
			st := []string{}
			for pid := uint64(0); pid < 7; pid++ {
				for _, e := range m.V.DMap.VerifEntries(d, pid, partitions.PRIMARY) {
					st = append(st, e.Key)
				}
			}
			sort.Strings(st)
			rep := p.Get(ctx, d, k)
			v := "nil"
			if rep.Ret == "val" {
				v = rep.V
			} else if rep.Ret != "notfound" {
				v = "error:" + rep.Ret
			}
			w.Emit(trace.Ev{"t": "obs", "d": d, "gets": []trace.Ev{{"k": k, "v": v, "path": p.Name()}}, "scan": st, "stored": st, "after": after})
			sum.Evaluations++
		}
		emit("put", "v0", p.Put(ctx, d, k, "v0", PutOpts{}))
		emit("del", "", p.Delete(ctx, d, k))
		g := ctl.Hold("del.locked", 0, sched.KeyIs(d, other))
		delDone, janDone := make(chan Reply, 1), make(chan struct{})
		go func() { delDone <- p.Delete(ctx, d, other) }()
		if _, ok := g.WaitArrived(10 * time.Second); !ok {
			t.Fatalf("wipe race: the Delete never reached del.locked")
		}
		go func() { m.V.DMap.VerifJanitor(); close(janDone) }()
		time.Sleep(150 * time.Millisecond) // the janitor now waits for the fragment lock (or finds the lock later: both are schedules of the model)
		emit("destroy", "", classify(p.(*dmapPath).Destroy(ctx, d)))
		emit("put", "v1", p.Put(ctx, d, k, "v1", PutOpts{}))
		observe("Destroy and Put, janitor still waiting")
		g.Release()
		rep := <-delDone
		w.Emit(trace.Ev{"t": "op", "op": "del-missing", "d": d, "k": other, "v": "", "ret": rep.Ret, "detail": rep.Err, "path": p.Name()})
		select {
		case <-janDone:
		case <-time.After(20 * time.Second):
			t.Fatalf("wipe race: the janitor did not finish")
		}
		observe("the janitor's pass that began before the Destroy")
		ctl.Reset()
		sum.Histories++
		sum.DistinctNontrivial++
		p.Close()
		c.ShutdownAsync()
	}
	cluster.WaitBackground(10 * time.Second)
	if err := w.Close(); err != nil {
		t.Fatal(err)
	}
	writeSummary(t, out, "c19.summary.json", sum)
}

// uniq returns the distinct elements of a sorted list.
func uniq(xs []string) []string {
	out := []string{}
	for i, x := range xs {
		if i == 0 || x != xs[i-1] {
			out = append(out, x)
		}
	}
	return out
}
