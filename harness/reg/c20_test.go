//go:build verif

package reg

import (
	"context"
	"fmt"
	"math/rand"
	"os"
	"path/filepath"
	"strings"
	"testing"
	"time"

	"github.com/olric-data/olric/internal/cluster/partitions"
	"github.com/olric-data/olric/verifharness/cluster"
	"github.com/olric-data/olric/verifharness/trace"
)

// TestC20Cluster churns a fixed key set on real clusters whose members run their own compaction worker and janitor, and then
// records the storage statistics of every fragment - primary and backup - of every member (white box).
func TestC20Cluster(t *testing.T) {
	out := os.Getenv("VERIF_OUT")
	if out == "" {
		t.Skip("VERIF_OUT not set")
	}
	rng := rand.New(rand.NewSource(int64(envInt("VERIF_SEED", 1))))
	w, err := trace.New(filepath.Join(out, "c20c.ndjson"))
	if err != nil {
		t.Fatal(err)
	}
	sum := &summary{Paths: map[string]int{}}
	ctx := context.Background()
	rounds := envInt("VERIF_C20_ROUNDS", 3000)
	seq := 0
	for _, cf := range []struct{ N, R, T int }{{2, 2, 1024}, {1, 1, 1024}, {3, 2, 4096}} {
		c, err := cluster.Start(cluster.Options{Replicas: cf.R, Partitions: 7, TableSize: cf.T, IdleTables: 50 * time.Millisecond, Manual: true, Housekeeping: 25 * time.Millisecond}, cf.N)
		if err != nil {
			t.Fatal(err)
		}
		label := fmt.Sprintf("N=%d R=%d T=%d, compaction worker and janitor every 25 ms, emptied tables freed after 50 ms", cf.N, cf.R, cf.T)
		sum.Configs = append(sum.Configs, label)
		seq++
		w.Emit(trace.Ev{"t": "reset", "seq": seq, "cfg": label, "T": cf.T})
		p := Embedded(c.Members[0])
		nk := 40
		maxv := cf.T / 5
		for i := 0; i < rounds; i++ {
			k := fmt.Sprintf("churn-%d", rng.Intn(nk))
			switch x := rng.Intn(10); {
			case x < 6:
				p.Put(ctx, "c20", k, fmt.Sprintf("%0*d", 20+rng.Intn(maxv), i), PutOpts{})
			case x < 7:
				p.Put(ctx, "c20", k, fmt.Sprintf("%0*d", 20+rng.Intn(maxv), i), PutOpts{Mode: "PX", D: 30 * time.Millisecond})
			default:
				p.Delete(ctx, "c20", k)
			}
			sum.Evaluations++
		}
		// a wave of keys that die by expiry only: a few hundred keys with a time-to-live of 100 ms, never touched again.  What
		// they occupied - on the primary owners and on the backup owners - has to be given back as well.
		for i := 0; i < 1200; i++ {
			p.Put(ctx, "c20", fmt.Sprintf("wave-%d", i), fmt.Sprintf("%0*d", 20+rng.Intn(maxv), i), PutOpts{Mode: "PX", D: 100 * time.Millisecond})
			sum.Evaluations++
		}
		// let the expiring keys go and the workers finish: until the primary owners hold no expired entry any more (the eviction
		// workers sample a few keys of one fragment per pass), then time for compaction and for the janitor
		for deadline := time.Now().Add(20 * time.Second); time.Now().Before(deadline); time.Sleep(100 * time.Millisecond) {
			expired := 0
			nowMs := time.Now().UnixMilli()
			for _, m := range c.Live() {
				for part := uint64(0); part < 7; part++ {
					for _, e := range m.V.DMap.VerifEntries("c20", part, partitions.PRIMARY) {
						if e.TTL != 0 && e.TTL <= nowMs {
							expired++
						}
					}
				}
			}
			if expired == 0 {
				break
			}
		}
		// "once compaction has run": the compaction workers (every 25 ms) and the janitor are given the time they need - until no
		// fragment's figures have changed for a second (at most 30 s; a slow machine needs more than a busy one) - not a fixed nap
		signature := func() string {
			var sb strings.Builder
			for _, m := range c.Live() {
				for part := uint64(0); part < 7; part++ {
					for _, kind := range []partitions.Kind{partitions.PRIMARY, partitions.BACKUP} {
						if st, ok := m.V.DMap.VerifStats("c20", part, kind); ok {
							fmt.Fprintf(&sb, "%d/%d/%v:%d,%d,%d;", m.Index, part, kind, st.Allocated, st.Inuse, st.NumTables)
						}
					}
				}
			}
			return sb.String()
		}
		// ... and, while some fragment is still above the bound, as long as 30 s (the bound is a statement about what holds once
		// compaction has run; what the trace specification judges is the state after this wait)
		above := func() bool {
			for _, m := range c.Live() {
				for part := uint64(0); part < 7; part++ {
					for _, kind := range []partitions.Kind{partitions.PRIMARY, partitions.BACKUP} {
						if st, ok := m.V.DMap.VerifStats("c20", part, kind); ok && 60*st.Allocated > 100*(st.Inuse+3*cf.T+st.NumTables*(maxv+60)) {
							return true
						}
					}
				}
			}
			return false
		}
		prev, same := "", 0
		for deadline := time.Now().Add(30 * time.Second); time.Now().Before(deadline) && (same < 10 || above()); time.Sleep(100 * time.Millisecond) {
			if s := signature(); s == prev {
				same++
			} else {
				prev, same = s, 0
			}
		}
		now := time.Now().UnixMilli()
		nfrag := 0
		for _, m := range c.Live() {
			for part := uint64(0); part < 7; part++ {
				for _, kind := range []partitions.Kind{partitions.PRIMARY, partitions.BACKUP} {
					st, ok := m.V.DMap.VerifStats("c20", part, kind)
					if !ok {
						continue
					}
					nfrag++
					k := "p"
					if kind == partitions.BACKUP {
						k = "b"
					}
					// the live data: entries that have not expired (an expired entry that is still stored is not live data)
					alive := 0
					for _, e := range m.V.DMap.VerifEntries("c20", part, kind) {
						if e.TTL == 0 || e.TTL > now {
							alive += 29 + len(e.Key) + len(e.Value)
						}
					}
					w.Emit(trace.Ev{"t": "frag", "m": m.Index, "part": int(part), "kind": k, "allocated": st.Allocated, "inuse": st.Inuse, "alive": alive,
						"garbage": st.Garbage, "tables": st.NumTables, "len": st.Length, "maxe": maxv + 60})
				}
			}
		}
		sum.Histories++
		sum.DistinctNontrivial += nfrag
		if len(sum.Samples) < 2 {
			sum.Samples = append(sum.Samples, map[string]any{"cfg": label, "fragments": nfrag, "operations": rounds})
		}
		p.Close()
		c.ShutdownAsync()
	}
	cluster.WaitBackground(15 * time.Second)
	if err := w.Close(); err != nil {
		t.Fatal(err)
	}
	writeSummary(t, out, "c20c.summary.json", sum)
}
