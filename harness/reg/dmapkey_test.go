//go:build verif

package reg

import (
	"fmt"
	"math/rand"
	"os"
	"path/filepath"
	"sort"
	"testing"
	"time"

	"github.com/olric-data/olric/verifharness/cluster"
	"github.com/olric-data/olric/verifharness/sched"
	"github.com/olric-data/olric/verifharness/trace"
)

// TestDMapKeyTrace records, on real clusters, the arrivals at the trace points of the owner's write and delete paths
// (put.locked, put.checked, entry.stored, put.replica, put.unlocked, del.locked, del.replicas, del.local, del.unlocked) while
// several clients write and delete a few keys concurrently, and writes one event sequence per key.  DMapKeyTrace.tla replays
// each sequence with the actions of DMapKey.tla (one action per point) and evaluates its invariants at every step; at the
// end the model's copies must be the copies the members really hold (white box).
func TestDMapKeyTrace(t *testing.T) {
	out := os.Getenv("VERIF_OUT")
	if out == "" {
		t.Skip("VERIF_OUT not set")
	}
	rng := rand.New(rand.NewSource(int64(envInt("VERIF_SEED", 1))))
	rounds := envInt("VERIF_DK_ROUNDS", 6)
	ctl := sched.Install(int64(envInt("VERIF_SEED", 1)))
	ms := func(n int) time.Duration { return time.Duration(n) * time.Millisecond }
	seq, evals, nontriv := 0, 0, 0
	var samples []any
	points := map[string]int{}
	for R := 1; R <= 3; R++ {
		nb := R - 1
		w, err := trace.New(filepath.Join(out, fmt.Sprintf("dk-nb%d.ndjson", nb)))
		if err != nil {
			t.Fatal(err)
		}
		c, err := cluster.Start(cluster.Options{Replicas: R, Partitions: 7, Manual: true}, 3)
		if err != nil {
			t.Fatal(err)
		}
		paths := allPaths(t, c)
		for round := 0; round < rounds; round++ {
			dm := "dk"
			keys := []string{}
			for k := 0; k < 3; k++ {
				keys = append(keys, fmt.Sprintf("dk%d-%d-%d", R, round, k))
			}
			isKey := map[string]bool{}
			for _, k := range keys {
				isKey[k] = true
			}
			// delays inside the critical sections make the sections of different clients try to overlap
			ctl.Delays(sched.Rule{Prefix: "put.", Prob: 0.3, Max: ms(3)}, sched.Rule{Prefix: "del.", Prob: 0.3, Max: ms(3)},
				sched.Rule{Prefix: "entry.", Prob: 0.2, Max: ms(2)})
			ctl.Record(func(point string, kv []any) bool {
				if len(kv) < 2 {
					return false
				}
				d, _ := kv[0].(string)
				k, _ := kv[1].(string)
				return d == dm && isKey[k]
			})
			var scripts []Script
			nc := 3 + rng.Intn(4)
			for ci := 0; ci < nc; ci++ {
				sc := Script{Client: fmt.Sprintf("c%d", ci), Path: paths[rng.Intn(len(paths))]}
				for s := 0; s < 3+rng.Intn(3); s++ {
					k := keys[rng.Intn(len(keys))]
					switch x := rng.Intn(10); {
					case x < 4:
						sc.Steps = append(sc.Steps, Step{Op: "put", Key: k, Val: fmt.Sprintf("v%d.%d", ci, s)})
					case x < 6:
						sc.Steps = append(sc.Steps, Step{Op: "put", Key: k, Val: fmt.Sprintf("n%d.%d", ci, s), Opts: PutOpts{NX: true}})
					case x < 7:
						sc.Steps = append(sc.Steps, Step{Op: "put", Key: k, Val: fmt.Sprintf("x%d.%d", ci, s), Opts: PutOpts{XX: true}})
					case x < 9:
						sc.Steps = append(sc.Steps, Step{Op: "del", Key: k})
					default:
						sc.Steps = append(sc.Steps, Step{Op: "get", Key: k})
					}
				}
				evals += len(sc.Steps)
				scripts = append(scripts, sc)
			}
			rec := NewRecorder()
			rec.RunBarrier(dm, scripts)
			evs := ctl.Stop()
			ctl.Delays()
			// one sequence per key
			for _, key := range keys {
				var mine []sched.Event
				for _, e := range evs {
					if e.KV[1].(string) == key {
						mine = append(mine, e)
					}
				}
				if len(mine) == 0 {
					continue
				}
				seq++
				// write timestamps -> ranks (TLC's integers are 32 bit)
				var tss []int64
				for _, e := range mine {
					if e.Point == "put.locked" {
						tss = append(tss, e.KV[2].(int64))
					}
				}
				sort.Slice(tss, func(a, b int) bool { return tss[a] < tss[b] })
				rank := func(ts int64) string {
					if ts == 0 {
						return "nil"
					}
					for i, x := range tss {
						if x == ts {
							return fmt.Sprintf("t%d", i+1)
						}
					}
					return fmt.Sprintf("unknown:%d", ts)
				}
				// clients = goroutines that enter a critical section of this key
				cid := map[int64]string{}
				prog := map[string][]trace.Ev{}
				for _, e := range mine {
					if e.Point != "put.locked" && e.Point != "del.locked" {
						continue
					}
					id, ok := cid[e.G]
					if !ok {
						id = fmt.Sprintf("s%dg%d", seq, e.G)
						cid[e.G] = id
					}
					if e.Point == "del.locked" {
						prog[id] = append(prog[id], trace.Ev{"kind": "del", "val": "nil"})
						continue
					}
					kind := "put"
					if e.KV[3].(bool) {
						kind = "putnx"
					} else if e.KV[4].(bool) {
						kind = "putxx"
					}
					if e.KV[5].(bool) {
						kind = "unsupported:expire"
					}
					prog[id] = append(prog[id], trace.Ev{"kind": kind, "val": rank(e.KV[2].(int64))})
				}
				overlap := len(cid) > 1
				w.Emit(trace.Ev{"t": "reset", "seq": seq, "NB": nb, "key": key, "prog": prog, "cfg": fmt.Sprintf("N=3 R=%d", R)})
				for _, e := range mine {
					points[e.Point]++
					w.Emit(trace.Ev{"t": "ev", "c": cid[e.G], "p": e.Point, "n": e.Seq})
				}
				// the copies the members hold now (the cluster is quiescent)
				owner, backups := "nil", []string{}
				for _, cp := range copiesOf(c, dm, key, 0) {
					v := "nil"
					if cp["present"].(bool) {
						v = rank(cp["rawts"].(int64))
					}
					switch {
					case cp["role"] == "owner" && cp["kind"] == "p":
						owner = v
					case cp["role"] == "backup" && cp["kind"] == "b":
						backups = append(backups, v)
					default:
						if cp["present"].(bool) {
							backups = append(backups, "stray:"+v) // a copy where none belongs
						}
					}
				}
				w.Emit(trace.Ev{"t": "final", "owner": owner, "backups": backups})
				if overlap {
					nontriv++
				}
				if len(samples) < 2 && overlap {
					var ps []string
					for _, e := range mine {
						ps = append(ps, cid[e.G]+":"+e.Point)
					}
					samples = append(samples, map[string]any{"key": key, "events": ps})
				}
			}
		}
		for _, p := range paths {
			p.Close()
		}
		c.Shutdown()
		if err := w.Close(); err != nil {
			t.Fatal(err)
		}
	}
	ctl.Reset()
	sum := &summary{Paths: map[string]int{}}
	sum.Evaluations = evals
	sum.Histories = seq
	sum.DistinctNontrivial = nontriv
	sum.Samples = samples
	sum.Paths = points
	writeSummary(t, out, "dk.summary.json", sum)
}
