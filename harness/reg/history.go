//go:build verif

package reg

import (
	"context"
	"fmt"
	"sort"
	"strconv"
	"strings"
	"sync"
	"time"

	"github.com/olric-data/olric/verifharness/trace"
)

// Recorder collects invocation/response events in one total order (the order in which Append
// is called under its mutex - every client lives in this process).
type Recorder struct {
	mu  sync.Mutex
	t0  int64 // unix ms
	evs []trace.Ev
}

func NewRecorder() *Recorder { return &Recorder{t0: time.Now().UnixMilli()} }

func (r *Recorder) now() int { return int(time.Now().UnixMilli() - r.t0) }

// Rel converts an absolute unix-ms deadline to trace time.
func (r *Recorder) Rel(ms int64) int { return int(ms - r.t0) }

// AbsMs is the absolute unix ms of a trace time.
func (r *Recorder) AbsMs(rel int) int64 { return r.t0 + int64(rel) }

func (r *Recorder) append(e trace.Ev) int {
	r.mu.Lock()
	defer r.mu.Unlock()
	e["ts"] = r.now()
	r.evs = append(r.evs, e)
	return len(r.evs) - 1
}

// Step is one operation of a client script.
type Step struct {
	Via      Path   // optional: the client path of this step, if it differs from the script's
	Op       string // put get del expire getput incr decr incrf lock unlock lease unlockforged leaseforged sleep
	Key      string
	Val      string
	Opts     PutOpts
	D        time.Duration // expire / lease duration, lock timeout
	Deadline time.Duration // lock deadline
	Delta    int           // incr/decr delta; incrf: delta in 1/Fixed units
	Mixed    bool          // incr/decr on a key that also sees IncrByFloat: recorded in 1/Fixed units and marked as an integer operation
	Ms       bool
	At       time.Duration // if > 0: do not start before this much time has passed since the scenario began
	Slot     int           // lock handle slot used by lock/unlock/lease of this client
	Num      bool          // the key holds a number: Get's value is compared numerically
	Float    bool
	DTTL     time.Duration // default TTL of the DMap the scenario runs on
	Keys     []string      // mdel: the keys named by one multi-key Delete
}

// Script is what one client does.
type Script struct {
	Client string
	Path   Path
	Steps  []Step
}

type lockSlot struct {
	l   Locked
	tok string
}

var tokSeq int64
var tokMu sync.Mutex

func newTok() string {
	tokMu.Lock()
	defer tokMu.Unlock()
	tokSeq++
	return "L" + strconv.FormatInt(tokSeq, 10)
}

// Run executes the scripts concurrently against DMap dm and records the history.
func (r *Recorder) Run(dm string, scripts []Script, yield func()) {
	r.run(dm, scripts, yield, false)
}

// RunBarrier is Run with all scripts released at the same instant (tight races on one key).
func (r *Recorder) RunBarrier(dm string, scripts []Script) {
	r.run(dm, scripts, nil, true)
}

func (r *Recorder) run(dm string, scripts []Script, yield func(), barrier bool) {
	var wg sync.WaitGroup
	start := time.Now()
	gate := make(chan struct{})
	if !barrier {
		close(gate)
	}
	var ready sync.WaitGroup
	for _, sc := range scripts {
		wg.Add(1)
		ready.Add(1)
		go func(sc Script) {
			defer wg.Done()
			ready.Done()
			<-gate
			ctx := context.Background()
			slots := map[int]*lockSlot{}
			for _, st := range sc.Steps {
				if st.At > 0 {
					if d := st.At - time.Since(start); d > 0 {
						time.Sleep(d)
					}
				}
				if st.Op == "sleep" {
					time.Sleep(st.D)
					continue
				}
				if yield != nil {
					yield()
				}
				r.step(ctx, dm, sc, st, slots)
			}
		}(sc)
	}
	if barrier {
		ready.Wait()
		close(gate)
	}
	wg.Wait()
}

func ttlOf(o PutOpts, r *Recorder) (int, bool) {
	switch o.Mode {
	case "EX", "PX":
		return int(o.D.Milliseconds()), false
	case "EXAT", "PXAT":
		return r.Rel(o.D.Milliseconds()), true
	}
	return 0, false
}

func (r *Recorder) step(ctx context.Context, dm string, sc Script, st Step, slots map[int]*lockSlot) {
	if st.Via != nil {
		sc.Path = st.Via // this step goes through another client than the rest of the script (sc is a copy)
	}
	inv := trace.Ev{"t": "inv", "c": sc.Client, "k": st.Key, "path": sc.Path.Name(), "dttl": int(st.DTTL.Milliseconds())}
	var rep Reply
	if st.Op == "mdel" {
		// one multi-key Delete: every named key gets the invocation and the reply (count) in its own history
		for _, k := range st.Keys {
			r.append(trace.Ev{"t": "inv", "c": sc.Client, "k": k, "path": sc.Path.Name(), "op": "del", "nkeys": len(st.Keys)})
		}
		rep = sc.Path.Delete(ctx, dm, st.Keys...)
		for _, k := range st.Keys {
			res := trace.Ev{"t": "res", "c": sc.Client, "k": k, "ret": rep.Ret, "v": "", "n": rep.N}
			if rep.Ret == "err" {
				res["detail"] = rep.Err
			}
			r.append(res)
		}
		return
	}
	switch st.Op {
	case "put":
		ttl, abs := ttlOf(st.Opts, r)
		if ttl == 0 && st.DTTL > 0 {
			ttl = int(st.DTTL.Milliseconds()) // a plain Put falls back to the DMap's default TTL
		}
		inv["op"], inv["v"], inv["nx"], inv["xx"], inv["ttl"], inv["abs"] = "put", st.Val, st.Opts.NX, st.Opts.XX, ttl, abs
		inv["mode"] = st.Opts.Mode
		r.append(inv)
		rep = sc.Path.Put(ctx, dm, st.Key, st.Val, st.Opts)
	case "get":
		inv["op"] = "get"
		r.append(inv)
		rep = sc.Path.Get(ctx, dm, st.Key)
		if rep.Ret == "val" && (st.Num || st.Float) {
			if st.Float {
				f, err := strconv.ParseFloat(rep.V, 64)
				if err != nil {
					rep = Reply{Ret: "err", Err: "not a float: " + rep.V, TTLms: -1}
				} else {
					rep.Ret, rep.N, rep.V = "num", int(f*Fixed), ""
				}
			} else {
				n, err := strconv.Atoi(rep.V)
				if err != nil {
					rep = Reply{Ret: "err", Err: "not an int: " + rep.V, TTLms: -1}
				} else {
					rep.Ret, rep.N, rep.V = "num", n, ""
				}
			}
		}
	case "del":
		inv["op"] = "del"
		r.append(inv)
		rep = sc.Path.Delete(ctx, dm, st.Key)
	case "expire":
		inv["op"], inv["ttl"] = "expire", int(st.D.Milliseconds())
		r.append(inv)
		rep = sc.Path.Expire(ctx, dm, st.Key, st.D, st.Ms)
	case "getput":
		inv["op"], inv["v"] = "getput", st.Val
		r.append(inv)
		rep = sc.Path.GetPut(ctx, dm, st.Key, st.Val)
	case "incr", "decr":
		d := st.Delta
		if st.Op == "decr" {
			d = -d
		}
		if st.Mixed {
			inv["int"] = true
			d *= Fixed
		}
		inv["op"], inv["d"] = "incr", d
		r.append(inv)
		if st.Op == "incr" {
			rep = sc.Path.Incr(ctx, dm, st.Key, st.Delta)
		} else {
			rep = sc.Path.Decr(ctx, dm, st.Key, st.Delta)
		}
		if st.Mixed {
			if rep.Ret == "num" {
				rep.N *= Fixed
			} else if strings.Contains(rep.Err, "invalid syntax") || strings.Contains(rep.Err, "not an integer") {
				rep.Ret = "notint" // the stored number is not an integer: refused, nothing changed
			}
		}
	case "incrf":
		inv["op"], inv["d"] = "incr", st.Delta
		r.append(inv)
		rep = sc.Path.IncrByFloat(ctx, dm, st.Key, float64(st.Delta)/Fixed)
	case "lock":
		tok := newTok()
		inv["op"], inv["tok"], inv["ttl"], inv["deadline"] = "lock", tok, int(st.D.Milliseconds()), int(st.Deadline.Milliseconds())
		r.append(inv)
		var l Locked
		rep, l = sc.Path.Lock(ctx, dm, st.Key, st.D, st.Deadline)
		if rep.Ret == "ok" {
			slots[st.Slot] = &lockSlot{l: l, tok: tok}
		}
	case "unlock", "lease":
		s := slots[st.Slot]
		if s == nil {
			return // the lock was never acquired: nothing to present
		}
		inv["op"], inv["tok"] = st.Op, s.tok
		if st.Op == "lease" {
			inv["ttl"] = int(st.D.Milliseconds())
		}
		r.append(inv)
		if st.Op == "unlock" {
			rep = s.l.Unlock(ctx)
		} else {
			rep = s.l.Lease(ctx, st.D)
		}
	case "unlockforged", "leaseforged":
		rp, ok := sc.Path.(*respPath)
		if !ok {
			return
		}
		f := rp.Forged(dm, st.Key)
		if st.Op == "unlockforged" {
			inv["op"], inv["tok"] = "unlock", "forged"
			r.append(inv)
			rep = f.Unlock(ctx)
		} else {
			inv["op"], inv["tok"], inv["ttl"] = "lease", "forged", int(st.D.Milliseconds())
			r.append(inv)
			rep = f.Lease(ctx, st.D)
		}
	default:
		panic("unknown step " + st.Op)
	}
	res := trace.Ev{"t": "res", "c": sc.Client, "k": st.Key, "ret": rep.Ret, "v": rep.V, "n": rep.N}
	if rep.TTLms >= 0 && rep.Ret == "val" || rep.TTLms >= 0 && rep.Ret == "num" {
		if rep.TTLms == 0 {
			res["ttlms"] = 0
		} else {
			res["ttlms"] = r.Rel(rep.TTLms)
		}
	}
	if rep.Ret == "err" {
		res["detail"] = rep.Err
	}
	r.append(res)
}

// Batch records one pipeline that carries one operation per key: every invocation, then the execution, then every reply.
func (r *Recorder) Batch(ctx context.Context, dm, client string, p *pipePath, steps []Step) {
	for _, st := range steps {
		inv := trace.Ev{"t": "inv", "c": client, "k": st.Key, "path": p.Name() + "-batch", "dttl": 0}
		switch st.Op {
		case "put":
			ttl, abs := ttlOf(st.Opts, r)
			inv["op"], inv["v"], inv["nx"], inv["xx"], inv["ttl"], inv["abs"], inv["mode"] = "put", st.Val, st.Opts.NX, st.Opts.XX, ttl, abs, st.Opts.Mode
		case "get", "del":
			inv["op"] = st.Op
		case "expire":
			inv["op"], inv["ttl"] = "expire", int(st.D.Milliseconds())
		case "getput":
			inv["op"], inv["v"] = "getput", st.Val
		case "incr", "incrf":
			inv["op"], inv["d"] = "incr", st.Delta
		case "decr":
			inv["op"], inv["d"] = "incr", -st.Delta
		}
		r.append(inv)
	}
	reps := p.Batch(ctx, dm, steps)
	for i, st := range steps {
		rep := reps[i]
		if st.Op == "get" && rep.Ret == "val" && (st.Num || st.Float) {
			if st.Float {
				if f, err := strconv.ParseFloat(rep.V, 64); err == nil {
					rep.Ret, rep.N, rep.V = "num", int(f*Fixed), ""
				}
			} else if n, err := strconv.Atoi(rep.V); err == nil {
				rep.Ret, rep.N, rep.V = "num", n, ""
			}
		}
		res := trace.Ev{"t": "res", "c": client, "k": st.Key, "ret": rep.Ret, "v": rep.V, "n": rep.N}
		if rep.TTLms >= 0 && (rep.Ret == "val" || rep.Ret == "num") {
			if rep.TTLms == 0 {
				res["ttlms"] = 0
			} else {
				res["ttlms"] = r.Rel(rep.TTLms)
			}
		}
		if rep.Ret == "err" {
			res["detail"] = rep.Err
		}
		r.append(res)
	}
}

// History is the sub-history of one key.
type History struct {
	Key     string
	Clients []string
	Events  []trace.Ev
	Ops     int
	Overlap bool // two operations overlap in time and one of them writes
	Near    bool // an operation fell within one ttl of a deadline (C09's rule), filled by the caller
}

func isWrite(e trace.Ev) bool {
	switch e["op"] {
	case "get":
		return false
	}
	return true
}

// Split cuts the recorded events into one history per key (linearizability is a local property:
// the per-key registers are independent objects).
func (r *Recorder) Split() []*History {
	r.mu.Lock()
	defer r.mu.Unlock()
	byKey := map[string]*History{}
	var order []string
	open := map[string]map[string]trace.Ev{} // key -> client -> pending inv
	for _, e := range r.evs {
		k := e["k"].(string)
		h := byKey[k]
		if h == nil {
			h = &History{Key: k}
			byKey[k] = h
			order = append(order, k)
			open[k] = map[string]trace.Ev{}
		}
		c := e["c"].(string)
		found := false
		for _, x := range h.Clients {
			if x == c {
				found = true
			}
		}
		if !found {
			h.Clients = append(h.Clients, c)
		}
		h.Events = append(h.Events, e)
		if e["t"] == "inv" {
			h.Ops++
			for _, other := range open[k] {
				if isWrite(e) || isWrite(other) {
					h.Overlap = true
				}
			}
			open[k][c] = e
		} else {
			delete(open[k], c)
		}
	}
	sort.Strings(order)
	var out []*History
	for _, k := range order {
		out = append(out, byKey[k])
	}
	return out
}

// Emit writes the histories as sequences for RegisterTrace.tla.
func Emit(w *trace.Writer, hs []*History, seq *int, meta trace.Ev) {
	for _, h := range hs {
		*seq++
		head := trace.Ev{"t": "reset", "seq": *seq, "keys": []string{h.Key}, "clients": h.Clients}
		for k, v := range meta {
			head[k] = v
		}
		// every invocation carries the duration of its operation (known once it returned): an
		// expiry that an operation re-installs (Incr keeps the ttl) may shift by at most that much
		last := map[string]trace.Ev{}
		paths := map[string]bool{}
		for _, e := range h.Events {
			c := e["c"].(string)
			if e["t"] == "inv" {
				e["dur"] = 0
				last[c] = e
				if p, ok := e["path"].(string); ok {
					paths[p] = true
				}
			} else if inv, ok := last[c]; ok {
				inv["dur"] = e["ts"].(int) - inv["ts"].(int)
			}
		}
		var ps []string
		for p := range paths {
			ps = append(ps, p)
		}
		sort.Strings(ps)
		head["paths"] = ps
		w.Emit(head)
		for _, e := range h.Events {
			w.Emit(e)
		}
	}
}

func (h *History) String() string {
	s := ""
	for _, e := range h.Events {
		s += fmt.Sprintf("%v\n", e)
	}
	return s
}
