//go:build verif

// Package reg drives real olric clusters with operations on DMap keys through every client path
// and records invocation/response histories for TLC (RegisterTrace.tla).
package reg

import (
	"context"
	"encoding/hex"
	"errors"
	"fmt"
	"github.com/olric-data/olric/config"
	"strconv"
	"strings"
	"time"

	"github.com/olric-data/olric"
	"github.com/olric-data/olric/verifharness/cluster"
	"github.com/redis/go-redis/v9"
)

// Reply is the abstract reply class of an operation, in the vocabulary of Register.tla.
type Reply struct {
	Ret   string // ok found notfound val num none notacquired nosuchlock err keytoolarge entrytoolarge readquorum writequorum clusterquorum
	V     string
	N     int
	TTLms int64 // absolute unix ms deadline reported by a read, 0 = none, -1 = not reported
	Tok   string
	Err   string
}

// PutOpts are the options of a Put.
type PutOpts struct {
	NX, XX bool
	Mode   string        // "", "EX", "PX", "EXAT", "PXAT"
	D      time.Duration // relative ttl or, for *AT, the absolute unix time as a duration since the epoch
}

// Path is one way of issuing operations: an embedded client on a member, a cluster client, or a
// raw RESP connection to a member.
type Path interface {
	Name() string
	Put(ctx context.Context, dm, key, val string, o PutOpts) Reply
	Get(ctx context.Context, dm, key string) Reply
	Delete(ctx context.Context, dm string, keys ...string) Reply
	Expire(ctx context.Context, dm, key string, d time.Duration, ms bool) Reply
	GetPut(ctx context.Context, dm, key, val string) Reply
	Incr(ctx context.Context, dm, key string, delta int) Reply
	Decr(ctx context.Context, dm, key string, delta int) Reply
	IncrByFloat(ctx context.Context, dm, key string, delta float64) Reply
	Lock(ctx context.Context, dm, key string, timeout, deadline time.Duration) (Reply, Locked)
	Close()
}

// Locked is a held lock.
type Locked interface {
	Unlock(ctx context.Context) Reply
	Lease(ctx context.Context, d time.Duration) Reply
}

func classify(err error) Reply {
	if err == nil {
		return Reply{Ret: "ok", TTLms: -1}
	}
	s := err.Error()
	r := Reply{Err: s, TTLms: -1}
	switch {
	case errors.Is(err, olric.ErrKeyFound) || strings.Contains(s, "key found") || strings.HasPrefix(s, "KEYFOUND"):
		r.Ret = "found"
	case errors.Is(err, olric.ErrKeyNotFound) || strings.Contains(s, "key not found") || strings.HasPrefix(s, "KEYNOTFOUND") || errors.Is(err, redis.Nil):
		r.Ret = "notfound"
	case errors.Is(err, olric.ErrLockNotAcquired) || strings.Contains(s, "lock not acquired") || strings.HasPrefix(s, "LOCKNOTACQUIRED"):
		r.Ret = "notacquired"
	case errors.Is(err, olric.ErrNoSuchLock) || strings.Contains(s, "no such lock") || strings.HasPrefix(s, "NOSUCHLOCK"):
		r.Ret = "nosuchlock"
	case errors.Is(err, olric.ErrKeyTooLarge) || strings.Contains(s, "key too large") || strings.HasPrefix(s, "KEYTOOLARGE"):
		r.Ret = "keytoolarge"
	case errors.Is(err, olric.ErrEntryTooLarge) || strings.Contains(s, "entry too large") || strings.HasPrefix(s, "ENTRYTOOLARGE"):
		r.Ret = "entrytoolarge"
	case errors.Is(err, olric.ErrReadQuorum) || strings.Contains(s, "read quorum") || strings.HasPrefix(s, "READQUORUM"):
		r.Ret = "readquorum"
	case errors.Is(err, olric.ErrWriteQuorum) || strings.Contains(s, "write quorum") || strings.HasPrefix(s, "WRITEQUORUM"):
		r.Ret = "writequorum"
	case errors.Is(err, olric.ErrClusterQuorum) || strings.Contains(s, "enough peers") || strings.HasPrefix(s, "CLUSTERQUORUM"):
		r.Ret = "clusterquorum"
	default:
		r.Ret = "err"
	}
	return r
}

// ---------------------------------------------------------------- olric.DMap based paths
type dmapPath struct {
	name   string
	client olric.Client
	dms    map[string]olric.DMap
}

func (p *dmapPath) Name() string { return p.name }
func (p *dmapPath) Close()       { _ = p.client.Close(context.Background()) }

func (p *dmapPath) dm(name string) (olric.DMap, error) {
	if d, ok := p.dms[name]; ok {
		return d, nil
	}
	d, err := p.client.NewDMap(name)
	if err != nil {
		return nil, err
	}
	p.dms[name] = d
	return d, nil
}

// Destroy destroys the DMap through this path's long-lived handle.
func (p *dmapPath) Destroy(ctx context.Context, dmn string) error {
	d, err := p.dm(dmn)
	if err != nil {
		return err
	}
	return d.Destroy(ctx)
}

func putOptions(o PutOpts) []olric.PutOption {
	var opts []olric.PutOption
	if o.NX {
		opts = append(opts, olric.NX())
	}
	if o.XX {
		opts = append(opts, olric.XX())
	}
	switch o.Mode {
	case "EX":
		opts = append(opts, olric.EX(o.D))
	case "PX":
		opts = append(opts, olric.PX(o.D))
	case "EXAT":
		opts = append(opts, olric.EXAT(o.D))
	case "PXAT":
		opts = append(opts, olric.PXAT(o.D))
	}
	return opts
}

func (p *dmapPath) Put(ctx context.Context, dmn, key, val string, o PutOpts) Reply {
	d, err := p.dm(dmn)
	if err != nil {
		return classify(err)
	}
	return classify(d.Put(ctx, key, val, putOptions(o)...))
}

func getReply(g *olric.GetResponse, err error) Reply {
	if err != nil {
		return classify(err)
	}
	if g == nil {
		return Reply{Ret: "none", TTLms: -1}
	}
	b, err := g.Byte()
	if errors.Is(err, olric.ErrNilResponse) {
		return Reply{Ret: "none", TTLms: -1} // GetPut with no previous value
	}
	if err != nil {
		return Reply{Ret: "err", Err: err.Error(), TTLms: -1}
	}
	return Reply{Ret: "val", V: string(b), TTLms: g.TTL()}
}

func (p *dmapPath) Get(ctx context.Context, dmn, key string) Reply {
	d, err := p.dm(dmn)
	if err != nil {
		return classify(err)
	}
	g, err := d.Get(ctx, key)
	return getReply(g, err)
}

func (p *dmapPath) Delete(ctx context.Context, dmn string, keys ...string) Reply {
	d, err := p.dm(dmn)
	if err != nil {
		return classify(err)
	}
	n, err := d.Delete(ctx, keys...)
	if err != nil {
		return classify(err)
	}
	return Reply{Ret: "ok", N: n, TTLms: -1}
}

func (p *dmapPath) Expire(ctx context.Context, dmn, key string, dur time.Duration, ms bool) Reply {
	d, err := p.dm(dmn)
	if err != nil {
		return classify(err)
	}
	return classify(d.Expire(ctx, key, dur))
}

func (p *dmapPath) GetPut(ctx context.Context, dmn, key, val string) Reply {
	d, err := p.dm(dmn)
	if err != nil {
		return classify(err)
	}
	g, err := d.GetPut(ctx, key, val)
	return getReply(g, err)
}

func (p *dmapPath) Incr(ctx context.Context, dmn, key string, delta int) Reply {
	d, err := p.dm(dmn)
	if err != nil {
		return classify(err)
	}
	n, err := d.Incr(ctx, key, delta)
	if err != nil {
		return classify(err)
	}
	return Reply{Ret: "num", N: n, TTLms: -1}
}

func (p *dmapPath) Decr(ctx context.Context, dmn, key string, delta int) Reply {
	d, err := p.dm(dmn)
	if err != nil {
		return classify(err)
	}
	n, err := d.Decr(ctx, key, delta)
	if err != nil {
		return classify(err)
	}
	return Reply{Ret: "num", N: n, TTLms: -1}
}

// Fixed is the fixed-point scale used for IncrByFloat deltas (dyadic, exact in float64).
const Fixed = 1024

func (p *dmapPath) IncrByFloat(ctx context.Context, dmn, key string, delta float64) Reply {
	d, err := p.dm(dmn)
	if err != nil {
		return classify(err)
	}
	f, err := d.IncrByFloat(ctx, key, delta)
	if err != nil {
		return classify(err)
	}
	return Reply{Ret: "num", N: int(f * Fixed), TTLms: -1}
}

type dmapLocked struct{ lc olric.LockContext }

func (l dmapLocked) Unlock(ctx context.Context) Reply { return classify(l.lc.Unlock(ctx)) }
func (l dmapLocked) Lease(ctx context.Context, d time.Duration) Reply {
	return classify(l.lc.Lease(ctx, d))
}

func (p *dmapPath) Lock(ctx context.Context, dmn, key string, timeout, deadline time.Duration) (Reply, Locked) {
	d, err := p.dm(dmn)
	if err != nil {
		return classify(err), nil
	}
	var lc olric.LockContext
	if timeout > 0 {
		lc, err = d.LockWithTimeout(ctx, key, timeout, deadline)
	} else {
		lc, err = d.Lock(ctx, key, deadline)
	}
	if err != nil {
		return classify(err), nil
	}
	return Reply{Ret: "ok", TTLms: -1}, dmapLocked{lc}
}

// Embedded returns the path "embedded client of member m".
func Embedded(m *cluster.Member) Path {
	return &dmapPath{name: fmt.Sprintf("emb@%d", m.Index), client: m.DB.NewEmbeddedClient(), dms: map[string]olric.DMap{}}
}

// ClusterClient returns the path "cluster client connected through member m".
func ClusterClient(m *cluster.Member) (Path, error) {
	c, err := olric.NewClusterClient([]string{m.Name})
	if err != nil {
		return nil, err
	}
	return &dmapPath{name: fmt.Sprintf("cc@%d", m.Index), client: c, dms: map[string]olric.DMap{}}, nil
}

// ImpatientClusterClient is a cluster client whose read timeout is shorter than the deadlines it will ask for in Lock calls
// (the default read timeout is 3 s; any Lock with a longer deadline is in this situation).
func ImpatientClusterClient(m *cluster.Member, readTimeout time.Duration) (Path, error) {
	c, err := olric.NewClusterClient([]string{m.Name}, olric.WithConfig(&config.Client{ReadTimeout: readTimeout, WriteTimeout: readTimeout}))
	if err != nil {
		return nil, err
	}
	return &dmapPath{name: fmt.Sprintf("cc-impatient@%d", m.Index), client: c, dms: map[string]olric.DMap{}}, nil
}

// ---------------------------------------------------------------- raw RESP
type respPath struct {
	name string
	rc   *redis.Client
}

// Resp returns the path "raw RESP commands sent to member m".
func Resp(m *cluster.Member) Path {
	rc := redis.NewClient(&redis.Options{Addr: m.Name, MaxRetries: -1, ReadTimeout: 30 * time.Second,
		WriteTimeout: 30 * time.Second, DialTimeout: time.Second, PoolSize: 8})
	return &respPath{name: fmt.Sprintf("resp@%d", m.Index), rc: rc}
}

func (p *respPath) Name() string { return p.name }
func (p *respPath) Close()       { _ = p.rc.Close() }

func respErr(err error) Reply {
	if errors.Is(err, redis.Nil) {
		return Reply{Ret: "none", TTLms: -1}
	}
	return classify(err)
}

func (p *respPath) Put(ctx context.Context, dm, key, val string, o PutOpts) Reply {
	args := []any{"dm.put", dm, key, val}
	switch o.Mode {
	case "EX":
		args = append(args, "EX", strconv.FormatFloat(o.D.Seconds(), 'f', -1, 64))
	case "PX":
		args = append(args, "PX", o.D.Milliseconds())
	case "EXAT":
		args = append(args, "EXAT", strconv.FormatFloat(o.D.Seconds(), 'f', -1, 64))
	case "PXAT":
		args = append(args, "PXAT", o.D.Milliseconds())
	}
	if o.NX {
		args = append(args, "NX")
	}
	if o.XX {
		args = append(args, "XX")
	}
	return classify(p.rc.Do(ctx, args...).Err())
}

func (p *respPath) Get(ctx context.Context, dm, key string) Reply {
	s, err := p.rc.Do(ctx, "dm.get", dm, key).Text()
	if err != nil {
		if errors.Is(err, redis.Nil) {
			return Reply{Ret: "notfound", TTLms: -1}
		}
		return classify(err)
	}
	return Reply{Ret: "val", V: s, TTLms: -1}
}

func (p *respPath) Delete(ctx context.Context, dm string, keys ...string) Reply {
	args := []any{"dm.del", dm}
	for _, k := range keys {
		args = append(args, k)
	}
	n, err := p.rc.Do(ctx, args...).Int()
	if err != nil {
		return classify(err)
	}
	return Reply{Ret: "ok", N: n, TTLms: -1}
}

func (p *respPath) Expire(ctx context.Context, dm, key string, d time.Duration, ms bool) Reply {
	if ms {
		return classify(p.rc.Do(ctx, "dm.pexpire", dm, key, d.Milliseconds()).Err())
	}
	return classify(p.rc.Do(ctx, "dm.expire", dm, key, strconv.FormatFloat(d.Seconds(), 'f', -1, 64)).Err())
}

func (p *respPath) GetPut(ctx context.Context, dm, key, val string) Reply {
	s, err := p.rc.Do(ctx, "dm.getput", dm, key, val).Text()
	if err != nil {
		return respErr(err)
	}
	return Reply{Ret: "val", V: s, TTLms: -1}
}

func (p *respPath) Incr(ctx context.Context, dm, key string, delta int) Reply {
	n, err := p.rc.Do(ctx, "dm.incr", dm, key, delta).Int()
	if err != nil {
		return classify(err)
	}
	return Reply{Ret: "num", N: n, TTLms: -1}
}

func (p *respPath) Decr(ctx context.Context, dm, key string, delta int) Reply {
	n, err := p.rc.Do(ctx, "dm.decr", dm, key, delta).Int()
	if err != nil {
		return classify(err)
	}
	return Reply{Ret: "num", N: n, TTLms: -1}
}

func (p *respPath) IncrByFloat(ctx context.Context, dm, key string, delta float64) Reply {
	f, err := p.rc.Do(ctx, "dm.incrbyfloat", dm, key, strconv.FormatFloat(delta, 'f', -1, 64)).Float64()
	if err != nil {
		return classify(err)
	}
	return Reply{Ret: "num", N: int(f * Fixed), TTLms: -1}
}

type respLocked struct {
	p            *respPath
	dm, key, tok string
}

func (l respLocked) Unlock(ctx context.Context) Reply {
	return classify(l.p.rc.Do(ctx, "dm.unlock", l.dm, l.key, l.tok).Err())
}
func (l respLocked) Lease(ctx context.Context, d time.Duration) Reply {
	return classify(l.p.rc.Do(ctx, "dm.plocklease", l.dm, l.key, l.tok, d.Milliseconds()).Err())
}

func (p *respPath) Lock(ctx context.Context, dm, key string, timeout, deadline time.Duration) (Reply, Locked) {
	args := []any{"dm.lock", dm, key, strconv.FormatFloat(deadline.Seconds(), 'f', -1, 64)}
	if timeout > 0 {
		args = append(args, "PX", timeout.Milliseconds())
	}
	tok, err := p.rc.Do(ctx, args...).Text()
	if err != nil {
		return classify(err), nil
	}
	return Reply{Ret: "ok", Tok: tok, TTLms: -1}, respLocked{p, dm, key, tok}
}

// Forged returns a lock handle for a token nobody was given.
func (p *respPath) Forged(dm, key string) Locked {
	return respLocked{p, dm, key, hex.EncodeToString([]byte("forged-token-000"))}
}
