//go:build verif

package reg

import (
	"context"
	"fmt"
	"time"

	"github.com/olric-data/olric"
	"github.com/olric-data/olric/verifharness/cluster"
)

// pipePath issues every operation through a DMapPipeline (one Exec per operation).
type pipePath struct {
	name   string
	client olric.Client
	dms    map[string]olric.DMap
}

// Pipeline returns the path "pipeline of a cluster client connected through member m".
func Pipeline(m *cluster.Member) (Path, error) {
	c, err := olric.NewClusterClient([]string{m.Name})
	if err != nil {
		return nil, err
	}
	return &pipePath{name: fmt.Sprintf("pipe@%d", m.Index), client: c, dms: map[string]olric.DMap{}}, nil
}

func (p *pipePath) Name() string { return p.name }
func (p *pipePath) Close()       { _ = p.client.Close(context.Background()) }

func (p *pipePath) pipe(name string) (*olric.DMapPipeline, error) {
	d, ok := p.dms[name]
	if !ok {
		var err error
		d, err = p.client.NewDMap(name)
		if err != nil {
			return nil, err
		}
		p.dms[name] = d
	}
	return d.Pipeline()
}

func (p *pipePath) Put(ctx context.Context, dmn, key, val string, o PutOpts) Reply {
	pl, err := p.pipe(dmn)
	if err != nil {
		return classify(err)
	}
	defer pl.Close()
	f, err := pl.Put(ctx, key, val, putOptions(o)...)
	if err != nil {
		return classify(err)
	}
	if err := pl.Exec(ctx); err != nil {
		return classify(err)
	}
	return classify(f.Result())
}

func (p *pipePath) Get(ctx context.Context, dmn, key string) Reply {
	pl, err := p.pipe(dmn)
	if err != nil {
		return classify(err)
	}
	defer pl.Close()
	f := pl.Get(ctx, key)
	if err := pl.Exec(ctx); err != nil {
		return classify(err)
	}
	return getReply(f.Result())
}

func (p *pipePath) Delete(ctx context.Context, dmn string, keys ...string) Reply {
	pl, err := p.pipe(dmn)
	if err != nil {
		return classify(err)
	}
	defer pl.Close()
	var fs []*olric.FutureDelete
	for _, k := range keys {
		fs = append(fs, pl.Delete(ctx, k))
	}
	if err := pl.Exec(ctx); err != nil {
		return classify(err)
	}
	n := 0
	for _, f := range fs {
		c, err := f.Result()
		if err != nil {
			return classify(err)
		}
		n += c
	}
	return Reply{Ret: "ok", N: n, TTLms: -1}
}

func (p *pipePath) Expire(ctx context.Context, dmn, key string, d time.Duration, ms bool) Reply {
	pl, err := p.pipe(dmn)
	if err != nil {
		return classify(err)
	}
	defer pl.Close()
	f, err := pl.Expire(ctx, key, d)
	if err != nil {
		return classify(err)
	}
	if err := pl.Exec(ctx); err != nil {
		return classify(err)
	}
	return classify(f.Result())
}

func (p *pipePath) GetPut(ctx context.Context, dmn, key, val string) Reply {
	pl, err := p.pipe(dmn)
	if err != nil {
		return classify(err)
	}
	defer pl.Close()
	f, err := pl.GetPut(ctx, key, val)
	if err != nil {
		return classify(err)
	}
	if err := pl.Exec(ctx); err != nil {
		return classify(err)
	}
	return getReply(f.Result())
}

func (p *pipePath) num(ctx context.Context, dmn string, add func(*olric.DMapPipeline) (func() (int, error), error)) Reply {
	pl, err := p.pipe(dmn)
	if err != nil {
		return classify(err)
	}
	defer pl.Close()
	res, err := add(pl)
	if err != nil {
		return classify(err)
	}
	if err := pl.Exec(ctx); err != nil {
		return classify(err)
	}
	n, err := res()
	if err != nil {
		return classify(err)
	}
	return Reply{Ret: "num", N: n, TTLms: -1}
}

func (p *pipePath) Incr(ctx context.Context, dmn, key string, delta int) Reply {
	return p.num(ctx, dmn, func(pl *olric.DMapPipeline) (func() (int, error), error) {
		f, err := pl.Incr(ctx, key, delta)
		if err != nil {
			return nil, err
		}
		return f.Result, nil
	})
}

func (p *pipePath) Decr(ctx context.Context, dmn, key string, delta int) Reply {
	return p.num(ctx, dmn, func(pl *olric.DMapPipeline) (func() (int, error), error) {
		f, err := pl.Decr(ctx, key, delta)
		if err != nil {
			return nil, err
		}
		return f.Result, nil
	})
}

func (p *pipePath) IncrByFloat(ctx context.Context, dmn, key string, delta float64) Reply {
	return p.num(ctx, dmn, func(pl *olric.DMapPipeline) (func() (int, error), error) {
		f, err := pl.IncrByFloat(ctx, key, delta)
		if err != nil {
			return nil, err
		}
		return func() (int, error) {
			x, err := f.Result()
			return int(x * Fixed), err
		}, nil
	})
}

func (p *pipePath) Lock(ctx context.Context, dmn, key string, timeout, deadline time.Duration) (Reply, Locked) {
	return Reply{Ret: "unsupported", TTLms: -1}, nil
}

// Batch queues one operation per step in ONE pipeline, executes it once and returns the replies in step order.
// (The other methods of this path run a pipeline per operation.)
func (p *pipePath) Batch(ctx context.Context, dmn string, steps []Step) []Reply {
	out := make([]Reply, len(steps))
	pl, err := p.pipe(dmn)
	if err != nil {
		for i := range out {
			out[i] = classify(err)
		}
		return out
	}
	defer pl.Close()
	res := make([]func() Reply, len(steps))
	for i, st := range steps {
		st := st
		var qerr error
		switch st.Op {
		case "put":
			var f *olric.FuturePut
			f, qerr = pl.Put(ctx, st.Key, st.Val, putOptions(st.Opts)...)
			res[i] = func() Reply { return classify(f.Result()) }
		case "get":
			f := pl.Get(ctx, st.Key)
			res[i] = func() Reply { return getReply(f.Result()) }
		case "del":
			f := pl.Delete(ctx, st.Key)
			res[i] = func() Reply {
				n, err := f.Result()
				if err != nil {
					return classify(err)
				}
				return Reply{Ret: "ok", N: n, TTLms: -1}
			}
		case "expire":
			var f *olric.FutureExpire
			f, qerr = pl.Expire(ctx, st.Key, st.D)
			res[i] = func() Reply { return classify(f.Result()) }
		case "getput":
			var f *olric.FutureGetPut
			f, qerr = pl.GetPut(ctx, st.Key, st.Val)
			res[i] = func() Reply { return getReply(f.Result()) }
		case "incr":
			var f *olric.FutureIncr
			f, qerr = pl.Incr(ctx, st.Key, st.Delta)
			res[i] = func() Reply {
				n, err := f.Result()
				if err != nil {
					return classify(err)
				}
				return Reply{Ret: "num", N: n, TTLms: -1}
			}
		case "decr":
			var f *olric.FutureDecr
			f, qerr = pl.Decr(ctx, st.Key, st.Delta)
			res[i] = func() Reply {
				n, err := f.Result()
				if err != nil {
					return classify(err)
				}
				return Reply{Ret: "num", N: n, TTLms: -1}
			}
		case "incrf":
			var f *olric.FutureIncrByFloat
			f, qerr = pl.IncrByFloat(ctx, st.Key, float64(st.Delta)/Fixed)
			res[i] = func() Reply {
				x, err := f.Result()
				if err != nil {
					return classify(err)
				}
				return Reply{Ret: "num", N: int(x * Fixed), TTLms: -1}
			}
		default:
			panic("batch: unsupported step " + st.Op)
		}
		if qerr != nil {
			e := qerr
			res[i] = func() Reply { return classify(e) }
		}
	}
	if err := pl.Exec(ctx); err != nil {
		for i := range out {
			out[i] = classify(err)
		}
		return out
	}
	for i := range steps {
		out[i] = res[i]()
	}
	return out
}
