//go:build verif

package reg

import (
	"context"
	"encoding/json"
	"fmt"
	"math/rand"
	"os"
	"path/filepath"
	"runtime"
	"strconv"
	"testing"
	"time"

	"github.com/olric-data/olric/verifharness/cluster"
	"github.com/olric-data/olric/verifharness/trace"
)

func envInt(name string, def int) int {
	if v := os.Getenv(name); v != "" {
		if n, err := strconv.Atoi(v); err == nil {
			return n
		}
	}
	return def
}

type summary struct {
	Evaluations        int            `json:"evaluations"`
	Histories          int            `json:"histories"`
	DistinctNontrivial int            `json:"distinct_nontrivial"`
	Configs            []string       `json:"configs"`
	Samples            []any          `json:"samples"`
	Paths              map[string]int `json:"paths"`
	Notes              []string       `json:"notes"`
}

func writeSummary(t *testing.T, out, name string, s *summary) {
	b, _ := json.MarshalIndent(s, "", " ")
	if err := os.WriteFile(filepath.Join(out, name), b, 0o644); err != nil {
		t.Fatal(err)
	}
}

// allPaths opens every client path onto the cluster: embedded on each member, a cluster client, raw
// RESP to each member.
func allPaths(t *testing.T, c *cluster.Cluster) []Path {
	var ps []Path
	for _, m := range c.Live() {
		ps = append(ps, Embedded(m))
	}
	for _, m := range c.Live() {
		ps = append(ps, Resp(m))
	}
	cc, err := ClusterClient(c.Live()[0])
	if err != nil {
		t.Fatal(err)
	}
	ps = append(ps, cc)
	return ps
}

type c01cfg struct {
	Members, Replicas int
	Partitions        uint64
	TableSize         int
	ReadRepair        bool
}

func (c c01cfg) String() string {
	return fmt.Sprintf("N=%d R=%d P=%d T=%d RR=%v", c.Members, c.Replicas, c.Partitions, c.TableSize, c.ReadRepair)
}

func yielder(rng *rand.Rand) func() {
	var mu = make(chan struct{}, 1)
	mu <- struct{}{}
	return func() {
		<-mu
		x := rng.Intn(10)
		mu <- struct{}{}
		switch {
		case x < 5:
		case x < 8:
			runtime.Gosched()
		default:
			time.Sleep(time.Duration(50+x*20) * time.Microsecond)
		}
	}
}

// TestC01 records concurrent Put/PutNX/PutXX/Get/Delete histories on stable clusters.
func TestC01(t *testing.T) {
	out := os.Getenv("VERIF_OUT")
	if out == "" {
		t.Skip("VERIF_OUT not set")
	}
	seed := int64(envInt("VERIF_SEED", 1))
	rng := rand.New(rand.NewSource(seed))
	rounds := envInt("VERIF_ROUNDS", 6)
	w, err := trace.New(filepath.Join(out, "c01.ndjson"))
	if err != nil {
		t.Fatal(err)
	}
	cfgs := []c01cfg{
		{3, 1, 7, 0, false}, {3, 2, 7, 0, false}, {3, 3, 13, 0, true},
		{2, 2, 7, 512, false}, {1, 1, 1, 512, false}, {3, 2, 7, 512, true},
	}
	sum := &summary{Paths: map[string]int{}}
	seq := 0
	seen := map[string]bool{}
	for ci, cfg := range cfgs {
		c, err := cluster.Start(cluster.Options{Replicas: cfg.Replicas, Partitions: cfg.Partitions, TableSize: cfg.TableSize,
			ReadRepair: cfg.ReadRepair, Manual: true}, cfg.Members)
		if err != nil {
			t.Fatalf("cluster %v: %v", cfg, err)
		}
		sum.Configs = append(sum.Configs, cfg.String())
		paths := allPaths(t, c)
		filler := func(n int) {
			// unrecorded filler keys make the fragments span several storage tables
			if cfg.TableSize == 0 {
				return
			}
			for j := 0; j < n; j++ {
				paths[0].Put(context.Background(), "c01", fmt.Sprintf("fill-%d", rng.Intn(80)), fmt.Sprintf("%070d", j), PutOpts{})
			}
		}
		filler(160)
		for round := 0; round < rounds; round++ {
			filler(20)
			rec := NewRecorder()
			nkeys := 2 + rng.Intn(3)
			nclients := 2 + rng.Intn(3)
			nops := 6 + rng.Intn(8)
			var scripts []Script
			vseq := 0
			for ci2 := 0; ci2 < nclients; ci2++ {
				p := paths[rng.Intn(len(paths))]
				sum.Paths[p.Name()]++
				sc := Script{Client: fmt.Sprintf("c%d", ci2), Path: p}
				for j := 0; j < nops; j++ {
					key := fmt.Sprintf("k%d-%d-%d", ci, round, rng.Intn(nkeys))
					vseq++
					// values long enough that a small table holds only a few of them
					val := fmt.Sprintf("v%d.%d.%060d", ci2, vseq, 0)
					x := rng.Intn(100)
					st := Step{Key: key}
					switch {
					case x < 30:
						st.Op, st.Val = "put", val
					case x < 42:
						st.Op, st.Val, st.Opts = "put", val, PutOpts{NX: true}
					case x < 54:
						st.Op, st.Val, st.Opts = "put", val, PutOpts{XX: true}
					case x < 80:
						st.Op = "get"
					default:
						st.Op = "del"
					}
					sc.Steps = append(sc.Steps, st)
					sum.Evaluations++
				}
				scripts = append(scripts, sc)
			}
			rec.Run("c01", scripts, yielder(rng))
			hs := rec.Split()
			Emit(w, hs, &seq, trace.Ev{"cfg": cfg.String()})
			for _, h := range hs {
				sum.Histories++
				if h.Overlap {
					sig := fmt.Sprintf("%v", h.Events)
					if !seen[sig] {
						seen[sig] = true
						sum.DistinctNontrivial++
					}
					if len(sum.Samples) < 2 && h.Ops <= 10 {
						sum.Samples = append(sum.Samples, map[string]any{"cfg": cfg.String(), "key": h.Key, "events": h.Events})
					}
				}
			}
		}
		for _, p := range paths {
			p.Close()
		}
		c.Shutdown()
	}
	if err := w.Close(); err != nil {
		t.Fatal(err)
	}
	writeSummary(t, out, "c01.summary.json", sum)
}
