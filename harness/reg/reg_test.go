//go:build verif

package reg

import (
	"context"
	"encoding/json"
	"fmt"
	"github.com/olric-data/olric/internal/cluster/partitions"
	"math/rand"
	"os"
	"path/filepath"
	"runtime"
	"strconv"
	"strings"
	"sync"
	"testing"
	"time"

	"github.com/olric-data/olric/config"
	"github.com/olric-data/olric/verifharness/cluster"
	"github.com/olric-data/olric/verifharness/sched"
	"github.com/olric-data/olric/verifharness/trace"
)

func envInt(name string, def int) int {
	if v := os.Getenv(name); v != "" {
		if n, err := strconv.Atoi(v); err == nil {
			return n
		}
	}
	return def
}

type summary struct {
	Evaluations        int            `json:"evaluations"`
	Histories          int            `json:"histories"`
	DistinctNontrivial int            `json:"distinct_nontrivial"`
	Configs            []string       `json:"configs"`
	Samples            []any          `json:"samples"`
	Paths              map[string]int `json:"paths"`
	Notes              []string       `json:"notes"`
}

func writeSummary(t *testing.T, out, name string, s *summary) {
	b, _ := json.MarshalIndent(s, "", " ")
	if err := os.WriteFile(filepath.Join(out, name), b, 0o644); err != nil {
		t.Fatal(err)
	}
}

// allPaths opens every client path onto the cluster: embedded on each member, a cluster client, raw
// RESP to each member.
func allPaths(t *testing.T, c *cluster.Cluster) []Path {
	var ps []Path
	for _, m := range c.Live() {
		ps = append(ps, Embedded(m))
	}
	for _, m := range c.Live() {
		ps = append(ps, Resp(m))
	}
	cc, err := ClusterClient(c.Live()[0])
	if err != nil {
		t.Fatal(err)
	}
	ps = append(ps, cc)
	return ps
}

type c01cfg struct {
	Members, Replicas int
	Partitions        uint64
	TableSize         int
	ReadRepair        bool
	Async             bool // asynchronous replication to the backups
}

func (c c01cfg) String() string {
	s := fmt.Sprintf("N=%d R=%d P=%d T=%d RR=%v", c.Members, c.Replicas, c.Partitions, c.TableSize, c.ReadRepair)
	if c.Async {
		s += " async"
	}
	return s
}

func yielder(rng *rand.Rand) func() {
	var mu = make(chan struct{}, 1)
	mu <- struct{}{}
	return func() {
		<-mu
		x := rng.Intn(10)
		mu <- struct{}{}
		switch {
		case x < 5:
		case x < 8:
			runtime.Gosched()
		default:
			time.Sleep(time.Duration(50+x*20) * time.Microsecond)
		}
	}
}

// TestC01 records concurrent Put/PutNX/PutXX/Get/Delete histories on stable clusters.
// housekeeping: clusters with small storage tables run the real janitor and compaction timers at a short interval
func housekeeping(tableSize int) time.Duration {
	if tableSize > 0 {
		return 25 * time.Millisecond
	}
	return 0
}

func TestC01(t *testing.T) {
	out := os.Getenv("VERIF_OUT")
	if out == "" {
		t.Skip("VERIF_OUT not set")
	}
	seed := int64(envInt("VERIF_SEED", 1))
	rng := rand.New(rand.NewSource(seed))
	rounds := envInt("VERIF_ROUNDS", 6)
	w, err := trace.New(filepath.Join(out, "c01.ndjson"))
	if err != nil {
		t.Fatal(err)
	}
	cfgs := []c01cfg{
		{3, 1, 7, 0, false, false}, {3, 2, 7, 0, false, false}, {3, 3, 13, 0, true, false},
		{2, 2, 7, 512, false, false}, {1, 1, 1, 512, false, false}, {3, 2, 7, 512, true, false},
	}
	if envInt("VERIF_C01_ASYNC", 0) == 1 {
		// exploration only, never part of a verdict: with asynchronous replication a Delete can be overtaken by the
		// in-flight backup write of the Put before it, and the key comes back (the statement's quantifier does not list the mode)
		cfgs = append(cfgs, c01cfg{3, 2, 7, 0, false, true})
	}
	sum := &summary{Paths: map[string]int{}}
	seq := 0
	seen := map[string]bool{}
	ctl := sched.Install(seed)
	for ci, cfg := range cfgs {
		c, err := cluster.Start(cluster.Options{Replicas: cfg.Replicas, Partitions: cfg.Partitions, TableSize: cfg.TableSize,
			ReadRepair: cfg.ReadRepair, Manual: true, Housekeeping: housekeeping(cfg.TableSize),
			Tweak: func(c *config.Config) {
				if cfg.Async {
					c.ReplicationMode = config.AsyncReplicationMode
				}
			}}, cfg.Members)
		if err != nil {
			t.Fatalf("cluster %v: %v", cfg, err)
		}
		sum.Configs = append(sum.Configs, cfg.String())
		paths := allPaths(t, c)
		filler := func(n int) {
			// unrecorded filler keys make the fragments span several storage tables
			if cfg.TableSize == 0 {
				return
			}
			for j := 0; j < n; j++ {
				paths[0].Put(context.Background(), "c01", fmt.Sprintf("fill-%d", rng.Intn(80)), fmt.Sprintf("%070d", j), PutOpts{})
			}
		}
		// keys written once, before anything else, and then left alone: they stay in the oldest storage tables of their
		// fragments.  At every quiet point one of them is asked for with NX and XX.
		oldrec := NewRecorder()
		nold := 3 * rounds
		if cfg.TableSize == 0 {
			nold = 0
		}
		var oldSetup []Step
		for j := 0; j < nold; j++ {
			oldSetup = append(oldSetup, Step{Op: "put", Key: fmt.Sprintf("old%d-%d", ci, j), Val: fmt.Sprintf("o%d.%060d", j, 0)})
		}
		if nold > 0 {
			oldrec.Run("c01", []Script{{Client: "setup", Path: paths[rng.Intn(len(paths))], Steps: oldSetup}}, nil)
			sum.Evaluations += nold
		}
		filler(160)
		for round := 0; round < rounds; round++ {
			filler(20)
			rec := NewRecorder()
			nkeys := 2 + rng.Intn(3)
			nclients := 2 + rng.Intn(3)
			nops := 6 + rng.Intn(8)
			var scripts []Script
			vseq := 0
			for ci2 := 0; ci2 < nclients; ci2++ {
				p := paths[rng.Intn(len(paths))]
				sum.Paths[p.Name()]++
				sc := Script{Client: fmt.Sprintf("c%d", ci2), Path: p}
				for j := 0; j < nops; j++ {
					key := fmt.Sprintf("k%d-%d-%d", ci, round, rng.Intn(nkeys))
					vseq++
					// values long enough that a small table holds only a few of them
					val := fmt.Sprintf("v%d.%d.%060d", ci2, vseq, 0)
					x := rng.Intn(100)
					st := Step{Key: key}
					switch {
					case x < 30:
						st.Op, st.Val = "put", val
					case x < 42:
						st.Op, st.Val, st.Opts = "put", val, PutOpts{NX: true}
					case x < 54:
						st.Op, st.Val, st.Opts = "put", val, PutOpts{XX: true}
					case x < 80:
						st.Op = "get"
					default:
						st.Op = "del"
					}
					sc.Steps = append(sc.Steps, st)
					sum.Evaluations++
				}
				scripts = append(scripts, sc)
			}
			rec.Run("c01", scripts, yielder(rng))
			if cfg.TableSize > 0 {
				// a quiet point: in every partition an entry as large as a table is written (it opens a new table) and
				// deleted again, so the newest table of each fragment is empty while older ones hold the live keys; then the
				// janitor and the compaction trigger get time to run; then every key of the round is read once more
				done := map[uint64]bool{}
				for i := 0; i < 400 && len(done) < int(cfg.Partitions); i++ {
					rk := fmt.Sprintf("roll-%d-%d", round, i)
					part := partitions.HKey("c01", rk) % uint64(cfg.Partitions)
					if done[part] {
						continue
					}
					done[part] = true
					paths[0].Put(context.Background(), "c01", rk, strings.Repeat("r", cfg.TableSize-29-len(rk)-8), PutOpts{})
					paths[0].Delete(context.Background(), "c01", rk)
				}
				time.Sleep(4 * housekeeping(cfg.TableSize))
				fin := Script{Client: "fin", Path: paths[rng.Intn(len(paths))]}
				for kk := 0; kk < nkeys; kk++ {
					fin.Steps = append(fin.Steps, Step{Op: "get", Key: fmt.Sprintf("k%d-%d-%d", ci, round, kk)})
				}
				rec.Run("c01", []Script{fin}, nil)
				var oldSteps []Step
				for j := 3 * round; j < 3*round+3 && j < nold; j++ {
					k := fmt.Sprintf("old%d-%d", ci, j)
					oldSteps = append(oldSteps, Step{Op: "put", Key: k, Val: "nx." + k, Opts: PutOpts{NX: true}}, Step{Op: "get", Key: k},
						Step{Op: "put", Key: k, Val: "xx." + k, Opts: PutOpts{XX: true}}, Step{Op: "get", Key: k})
				}
				oldrec.Run("c01", []Script{{Client: "old", Path: paths[rng.Intn(len(paths))], Steps: oldSteps}}, nil)
				sum.Evaluations += len(oldSteps)
			}
			hs := rec.Split()
			Emit(w, hs, &seq, trace.Ev{"cfg": cfg.String()})
			for _, h := range hs {
				sum.Histories++
				if h.Overlap {
					sig := fmt.Sprintf("%v", h.Events)
					if !seen[sig] {
						seen[sig] = true
						sum.DistinctNontrivial++
					}
					if len(sum.Samples) < 2 && h.Ops <= 10 {
						sum.Samples = append(sum.Samples, map[string]any{"cfg": cfg.String(), "key": h.Key, "events": h.Events})
					}
				}
			}
		}
		if nold > 0 {
			hs := oldrec.Split()
			Emit(w, hs, &seq, trace.Ev{"cfg": cfg.String(), "old_keys": true})
			sum.Histories += len(hs)
		}
		// contention rounds: a handful of operations on one fresh key released at the same instant
		for round := 0; round < envInt("VERIF_CONTENTION", 60); round++ {
			key := fmt.Sprintf("x%d-%d", ci, round)
			rec := NewRecorder()
			if rng.Intn(4) > 0 {
				rec.Run("c01", []Script{{Client: "init", Path: paths[rng.Intn(len(paths))], Steps: []Step{{Op: "put", Key: key, Val: "v0." + key}}}}, nil)
			}
			var scripts []Script
			nc := 3 + rng.Intn(3)
			for ci2 := 0; ci2 < nc; ci2++ {
				p := paths[rng.Intn(len(paths))]
				st := Step{Key: key}
				switch x := rng.Intn(100); {
				case x < 25:
					st.Op = "del"
				case x < 50:
					st.Op, st.Val, st.Opts = "put", fmt.Sprintf("x%d.%s", ci2, key), PutOpts{XX: true}
				case x < 70:
					st.Op, st.Val, st.Opts = "put", fmt.Sprintf("n%d.%s", ci2, key), PutOpts{NX: true}
				case x < 85:
					st.Op, st.Val = "put", fmt.Sprintf("p%d.%s", ci2, key)
				default:
					st.Op = "get"
				}
				sum.Evaluations++
				scripts = append(scripts, Script{Client: fmt.Sprintf("c%d", ci2), Path: p, Steps: []Step{st}})
			}
			if round%2 == 1 {
				// every second round the operations are also delayed at the points inside the owner's
				// critical sections, which widens every race window there is
				ctl.Delays(sched.Rule{Prefix: "put.", Prob: 0.5, Max: 2 * time.Millisecond}, sched.Rule{Prefix: "entry.", Prob: 0.5, Max: 2 * time.Millisecond},
					sched.Rule{Prefix: "del.", Prob: 0.5, Max: 2 * time.Millisecond}, sched.Rule{Prefix: "get.", Prob: 0.5, Max: 2 * time.Millisecond})
			}
			rec.RunBarrier("c01", scripts)
			ctl.Delays()
			rec.Run("c01", []Script{{Client: "fin", Path: paths[rng.Intn(len(paths))], Steps: []Step{{Op: "get", Key: key}}}}, nil)
			hs := rec.Split()
			Emit(w, hs, &seq, trace.Ev{"cfg": cfg.String(), "contention": true})
			for _, h := range hs {
				sum.Histories++
				if h.Overlap {
					sig := fmt.Sprintf("%v", h.Events)
					if !seen[sig] {
						seen[sig] = true
						sum.DistinctNontrivial++
					}
				}
			}
		}
		for _, p := range paths {
			p.Close()
		}
		c.Shutdown()
	}
	if err := w.Close(); err != nil {
		t.Fatal(err)
	}
	writeSummary(t, out, "c01.summary.json", sum)
}

// record post-processes and emits the histories of one run, counting non-trivial ones.
func record(w *trace.Writer, rec *Recorder, seq *int, sum *summary, seen map[string]bool, meta trace.Ev, nontrivial func(*History) bool) {
	hs := rec.Split()
	Emit(w, hs, seq, meta)
	for _, h := range hs {
		sum.Histories++
		if nontrivial(h) {
			sig := fmt.Sprintf("%v", h.Events)
			if !seen[sig] {
				seen[sig] = true
				sum.DistinctNontrivial++
			}
			if len(sum.Samples) < 2 && h.Ops <= 12 {
				sum.Samples = append(sum.Samples, map[string]any{"meta": meta, "key": h.Key, "events": h.Events})
			}
		}
	}
}

// TestC07 records concurrent Incr/Decr/IncrByFloat/GetPut calls on one key from callers spread
// over entry points.
func TestC07(t *testing.T) {
	out := os.Getenv("VERIF_OUT")
	if out == "" {
		t.Skip("VERIF_OUT not set")
	}
	rng := rand.New(rand.NewSource(int64(envInt("VERIF_SEED", 1))))
	rounds := envInt("VERIF_ROUNDS", 10)
	w, err := trace.New(filepath.Join(out, "c07.ndjson"))
	if err != nil {
		t.Fatal(err)
	}
	sum := &summary{Paths: map[string]int{}}
	seq := 0
	seen := map[string]bool{}
	for _, R := range []int{1, 2} {
		c, err := cluster.Start(cluster.Options{Replicas: R, Partitions: 7, Manual: true}, 3)
		if err != nil {
			t.Fatal(err)
		}
		cfg := fmt.Sprintf("N=3 R=%d", R)
		sum.Configs = append(sum.Configs, cfg)
		paths := allPaths(t, c)
		for round := 0; round < rounds; round++ {
			rec := NewRecorder()
			n := 2 + rng.Intn(3)
			calls := 4 + rng.Intn(6)
			kInt := fmt.Sprintf("int-%d-%d", R, round)
			kFlt := fmt.Sprintf("flt-%d-%d", R, round)
			kGp := fmt.Sprintf("gp-%d-%d", R, round)
			kMix := fmt.Sprintf("mix-%d-%d", R, round) // Incr, Decr AND IncrByFloat (with fractions) on one key
			// assignment of callers to entry points: all on one path, or spread
			same := rng.Intn(4) == 0
			base := rng.Intn(len(paths))
			var scripts []Script
			for ci := 0; ci < n; ci++ {
				p := paths[base]
				if !same {
					p = paths[rng.Intn(len(paths))]
				}
				sum.Paths[p.Name()]++
				sc := Script{Client: fmt.Sprintf("c%d", ci), Path: p}
				for j := 0; j < calls; j++ {
					x := rng.Intn(100)
					switch {
					case x < 10:
						sc.Steps = append(sc.Steps, Step{Op: []string{"incr", "decr"}[rng.Intn(2)], Key: kMix, Delta: 1 + rng.Intn(5), Mixed: true})
					case x < 18:
						sc.Steps = append(sc.Steps, Step{Op: "incrf", Key: kMix, Delta: []int{512, 1024, 2048, 256, 1536}[rng.Intn(5)]})
					case x < 35:
						sc.Steps = append(sc.Steps, Step{Op: "incr", Key: kInt, Delta: 1 + rng.Intn(5)})
					case x < 50:
						sc.Steps = append(sc.Steps, Step{Op: "decr", Key: kInt, Delta: 1 + rng.Intn(3)})
					case x < 70:
						sc.Steps = append(sc.Steps, Step{Op: "incrf", Key: kFlt, Delta: []int{512, 256, 128, 1024, 64}[rng.Intn(5)]})
					default:
						sc.Steps = append(sc.Steps, Step{Op: "getput", Key: kGp, Val: fmt.Sprintf("g%d.%d", ci, j)})
					}
					sum.Evaluations++
				}
				scripts = append(scripts, sc)
			}
			if round%2 == 1 {
				// every second round a caller that has read the current value is held for a moment before it writes
				sched.Install(int64(envInt("VERIF_SEED", 1))).Delays(sched.Rule{Prefix: "atomic.read", Prob: 0.5, Max: 3 * time.Millisecond},
					sched.Rule{Prefix: "put.", Prob: 0.3, Max: time.Millisecond})
			}
			if round%3 == 2 {
				// every third round begins with an Incr on a key that carries a short expiry, on every member (the expiry is
				// kept by Incr - and belongs to that key alone), and ends after that expiry would have passed
				kT := fmt.Sprintf("ttl-%d-%d", R, round)
				var pre []Script
				for pi := 0; pi < 3; pi++ {
					pre = append(pre, Script{Client: fmt.Sprintf("t%d", pi), Path: paths[pi], Steps: []Step{{Op: "incr", Key: fmt.Sprintf("%s-%d", kT, pi), Delta: 1},
						{Op: "expire", Key: fmt.Sprintf("%s-%d", kT, pi), D: 70 * time.Millisecond, Ms: true}, {Op: "incr", Key: fmt.Sprintf("%s-%d", kT, pi), Delta: 1}}})
				}
				rec.Run("c07", pre, nil)
			}
			rec.Run("c07", scripts, yielder(rng))
			sched.Install(0).Delays()
			if round%3 == 2 {
				time.Sleep(150 * time.Millisecond)
			}
			// the final value, read through one more path
			fin := paths[rng.Intn(len(paths))]
			rec.Run("c07", []Script{{Client: "fin", Path: fin, Steps: []Step{
				{Op: "get", Key: kInt, Num: true}, {Op: "get", Key: kFlt, Float: true}, {Op: "get", Key: kGp}, {Op: "get", Key: kMix, Float: true}}}}, nil)
			record(w, rec, &seq, sum, seen, trace.Ev{"cfg": cfg, "same_path": same}, func(h *History) bool { return h.Overlap })
		}
		for _, p := range paths {
			p.Close()
		}
		c.Shutdown()
	}
	if err := w.Close(); err != nil {
		t.Fatal(err)
	}
	writeSummary(t, out, "c07.summary.json", sum)
}

// TestC09 records micro-scenarios around expiry deadlines: a key is given a time-to-live in one of
// the ways the API offers, then operations are placed shortly before and after the deadline.
func TestC09(t *testing.T) {
	out := os.Getenv("VERIF_OUT")
	if out == "" {
		t.Skip("VERIF_OUT not set")
	}
	rng := rand.New(rand.NewSource(int64(envInt("VERIF_SEED", 1))))
	batches := envInt("VERIF_ROUNDS", 3)
	perBatch := envInt("VERIF_PER_BATCH", 40)
	w, err := trace.New(filepath.Join(out, "c09.ndjson"))
	if err != nil {
		t.Fatal(err)
	}
	sum := &summary{Paths: map[string]int{}}
	seq := 0
	seen := map[string]bool{}
	const defTTL = 150 * time.Millisecond
	for _, R := range []int{1, 2} {
		// the single-replica cluster has small storage tables and a stream of unrecorded filler writes during every batch, so
		// that a key's entry soon sits in an older, read-only table when the follow-ups reach it
		T := 0
		if R == 1 {
			T = 1024
		}
		c, err := cluster.Start(cluster.Options{Replicas: R, Partitions: 7, Manual: true, TableSize: T, Housekeeping: housekeeping(T),
			DMaps: func(d *config.DMaps) {
				d.Custom = map[string]config.DMap{"c09ttl": {TTLDuration: defTTL}}
			}}, 3)
		if err != nil {
			t.Fatal(err)
		}
		cfg := fmt.Sprintf("N=3 R=%d", R)
		sum.Configs = append(sum.Configs, cfg)
		paths := allPaths(t, c)
		for b := 0; b < batches; b++ {
			for _, dmName := range []string{"c09", "c09ttl"} {
				rec := NewRecorder()
				var scripts []Script
				for s := 0; s < perBatch; s++ {
					theta := time.Duration(80+40*rng.Intn(4)) * time.Millisecond
					p := paths[rng.Intn(len(paths))]
					sum.Paths[p.Name()]++
					key := fmt.Sprintf("t%d-%d-%d", R, b, s)
					sc := Script{Client: fmt.Sprintf("s%d", s), Path: p}
					var dttl time.Duration
					numeric := rng.Intn(5) == 0
					start := time.Duration(rng.Intn(30)) * time.Millisecond
					if dmName == "c09ttl" {
						dttl, theta = defTTL, defTTL
						if numeric {
							sc.Steps = append(sc.Steps, Step{Op: "incr", Key: key, Delta: 3, DTTL: dttl, At: start})
						} else {
							sc.Steps = append(sc.Steps, Step{Op: "put", Key: key, Val: "a" + key, DTTL: dttl, At: start})
						}
					} else if numeric {
						sc.Steps = append(sc.Steps, Step{Op: "incr", Key: key, Delta: 3, At: start},
							Step{Op: "expire", Key: key, D: theta, Ms: rng.Intn(2) == 0})
					} else {
						mode := []string{"EX", "PX", "EXAT", "PXAT", "expire", "pexpire"}[rng.Intn(6)]
						o := PutOpts{NX: rng.Intn(4) == 0}
						switch mode {
						case "EX", "PX":
							o.Mode, o.D = mode, theta
							sc.Steps = append(sc.Steps, Step{Op: "put", Key: key, Val: "a" + key, Opts: o, At: start})
						case "EXAT", "PXAT":
							// absolute deadline, whole milliseconds
							o.Mode = mode
							o.D = time.Duration(time.Now().Add(start+theta).UnixMilli()) * time.Millisecond
							sc.Steps = append(sc.Steps, Step{Op: "put", Key: key, Val: "a" + key, Opts: o, At: start})
						default:
							sc.Steps = append(sc.Steps, Step{Op: "put", Key: key, Val: "a" + key, At: start},
								Step{Op: "expire", Key: key, D: theta, Ms: mode == "pexpire"})
						}
					}
					// follow-ups around the deadline
					offs := []int{-55, -30, 12, 35, 90}
					nf := 2 + rng.Intn(3)
					prev := -1000
					for f := 0; f < nf; f++ {
						off := offs[rng.Intn(len(offs))]
						if off <= prev {
							continue
						}
						prev = off
						at := start + theta + time.Duration(off)*time.Millisecond
						var st Step
						if numeric {
							if rng.Intn(2) == 0 {
								st = Step{Op: "incr", Key: key, Delta: 1 + rng.Intn(3), DTTL: dttl}
							} else {
								st = Step{Op: "get", Key: key, Num: true}
							}
						} else {
							switch x := rng.Intn(100); {
							case x < 35:
								st = Step{Op: "get", Key: key}
							case x < 47:
								st = Step{Op: "put", Key: key, Val: fmt.Sprintf("n%d%s", f, key), Opts: PutOpts{NX: true}, DTTL: dttl}
							case x < 59:
								st = Step{Op: "put", Key: key, Val: fmt.Sprintf("x%d%s", f, key), Opts: PutOpts{XX: true}, DTTL: dttl}
							case x < 70:
								st = Step{Op: "expire", Key: key, D: 70 * time.Millisecond, Ms: rng.Intn(2) == 0}
							case x < 82:
								st = Step{Op: "getput", Key: key, Val: fmt.Sprintf("g%d%s", f, key), DTTL: dttl}
							default:
								st = Step{Op: "put", Key: key, Val: fmt.Sprintf("p%d%s", f, key), DTTL: dttl}
							}
						}
						st.At = at
						sc.Steps = append(sc.Steps, st)
					}
					// a last read well after everything
					sc.Steps = append(sc.Steps, Step{Op: "get", Key: key, Num: numeric, At: start + theta + 200*time.Millisecond})
					sum.Evaluations += len(sc.Steps)
					scripts = append(scripts, sc)
				}
				stopFill := make(chan struct{})
				var fill sync.WaitGroup
				if T > 0 {
					fill.Add(1)
					go func() {
						defer fill.Done()
						for n := 0; ; n++ {
							select {
							case <-stopFill:
								return
							default:
							}
							paths[0].Put(context.Background(), dmName, fmt.Sprintf("fill-%d-%d", b, n%400), fmt.Sprintf("%070d", n), PutOpts{Mode: "PX", D: time.Hour})
							time.Sleep(300 * time.Microsecond)
						}
					}()
				}
				rec.Run(dmName, scripts, nil)
				close(stopFill)
				fill.Wait()
				record(w, rec, &seq, sum, seen, trace.Ev{"cfg": cfg, "dmap": dmName}, func(h *History) bool { return true })
			}
		}
		// Far deadlines and storage housekeeping: keys with an expiry of an hour (in every option form) share small storage
		// tables with filler keys that are deleted again, so that compaction moves them; they must stay visible
		if R == 2 {
			c2, err := cluster.Start(cluster.Options{Replicas: 1, Partitions: 7, TableSize: 1024, Manual: true, Housekeeping: 25 * time.Millisecond}, 1)
			if err != nil {
				t.Fatal(err)
			}
			p2 := Embedded(c2.Members[0])
			rec := NewRecorder()
			hour := time.Hour
			var scripts []Script
			for i := 0; i < 28; i++ {
				key := fmt.Sprintf("far%d", i)
				o := PutOpts{Mode: []string{"EX", "PX", "EXAT", "PXAT"}[i%4], D: hour}
				if o.Mode == "EXAT" || o.Mode == "PXAT" {
					o.D = time.Duration(time.Now().Add(hour).UnixMilli()) * time.Millisecond
				}
				scripts = append(scripts, Script{Client: fmt.Sprintf("f%d", i), Path: p2, Steps: []Step{
					{Op: "put", Key: key, Val: "v" + key, Opts: o, At: time.Duration(i) * time.Millisecond},
					{Op: "get", Key: key, At: 500 * time.Millisecond}, {Op: "get", Key: key, At: 900 * time.Millisecond}}})
				sum.Evaluations += 3
			}
			go func() {
				// unrecorded churn: fillers written and deleted, which turns most of every table into garbage
				for j := 0; j < 1500; j++ {
					p2.Put(context.Background(), "c09", fmt.Sprintf("fill%d", j), fmt.Sprintf("%060d", j), PutOpts{})
				}
				for j := 0; j < 1500; j++ {
					p2.Delete(context.Background(), "c09", fmt.Sprintf("fill%d", j))
				}
			}()
			rec.Run("c09", scripts, nil)
			record(w, rec, &seq, sum, seen, trace.Ev{"cfg": "N=1 R=1 T=1024 housekeeping", "dmap": "c09", "far_deadline": true}, func(h *History) bool { return true })
			p2.Close()
			c2.Shutdown()
		}
		// Mass expiry: a dozen keys of ONE partition expire at the same instant and each is written again (without
		// expiry) a few milliseconds after the deadline, while the background eviction workers walk that fragment and
		// are slowed down at their trace points: the rewritten keys must stay.
		ctl := sched.Install(int64(envInt("VERIF_SEED", 1)))
		for b := 0; b < envInt("VERIF_MASS", 3); b++ {
			rec := NewRecorder()
			var scripts []Script
			part := uint64(rng.Intn(7))
			for i, n := 0, 0; n < 12 && i < 5000; i++ {
				key := fmt.Sprintf("mass%d-%d-%d", R, b, i)
				if partitions.HKey("c09", key)%7 != part {
					continue
				}
				n++
				p := paths[rng.Intn(len(paths))]
				sum.Paths[p.Name()]++
				sc := Script{Client: fmt.Sprintf("m%d", n), Path: p, Steps: []Step{
					{Op: "put", Key: key, Val: "a" + key, Opts: PutOpts{Mode: "PX", D: 60 * time.Millisecond}, At: 0},
					{Op: "put", Key: key, Val: "b" + key, At: time.Duration(63+rng.Intn(60)) * time.Millisecond},
					{Op: "get", Key: key, At: 350 * time.Millisecond}}}
				sum.Evaluations += len(sc.Steps)
				scripts = append(scripts, sc)
			}
			ctl.Delays(sched.Rule{Prefix: "del.", Prob: 0.7, Max: 4 * time.Millisecond}, sched.Rule{Prefix: "evict.", Prob: 0.5, Max: 2 * time.Millisecond})
			rec.Run("c09", scripts, nil)
			ctl.Delays()
			record(w, rec, &seq, sum, seen, trace.Ev{"cfg": cfg, "dmap": "c09", "mass_expiry": true}, func(h *History) bool { return true })
		}
		// An Incr / Decr that straddles the deadline: it has read the counter before the deadline and writes the new value
		// after it (the goroutine is held at the point between its read and its write).  The key keeps its expiry, so
		// nobody sees it afterwards and the next Incr starts a new counter.
		for b := 0; b < envInt("VERIF_STRADDLE", 3); b++ {
			rec := NewRecorder()
			key := fmt.Sprintf("strad%d-%d", R, b)
			pa, pb := paths[rng.Intn(len(paths))], paths[rng.Intn(len(paths))]
			op := []string{"incr", "decr"}[b%2]
			// the creating Incr passes the point first; the second arrival for this key is the one to hold
			g := ctl.Hold("atomic.read", 1, sched.KeyIs("c09", key))
			go func() {
				if _, ok := g.WaitArrived(3 * time.Second); ok {
					time.Sleep(120 * time.Millisecond)
				}
				g.Release()
			}()
			scripts := []Script{
				{Client: "a", Path: pa, Steps: []Step{{Op: "incr", Key: key, Delta: 5}, {Op: "expire", Key: key, D: 150 * time.Millisecond, Ms: true},
					{Op: op, Key: key, Delta: 2, At: 90 * time.Millisecond}}},
				{Client: "b", Path: pb, Steps: []Step{{Op: "get", Key: key, Num: true, At: 420 * time.Millisecond}, {Op: "incr", Key: key, Delta: 7},
					{Op: "get", Key: key, Num: true}}},
			}
			for _, sc := range scripts {
				sum.Paths[sc.Path.Name()]++
				sum.Evaluations += len(sc.Steps)
			}
			rec.Run("c09", scripts, nil)
			g.Release()
			record(w, rec, &seq, sum, seen, trace.Ev{"cfg": cfg, "dmap": "c09", "straddle": true}, func(h *History) bool { return true })
		}
		ctl.Reset()
		for _, p := range paths {
			p.Close()
		}
		c.Shutdown()
	}
	if err := w.Close(); err != nil {
		t.Fatal(err)
	}
	writeSummary(t, out, "c09.summary.json", sum)
}

// TestC08 records competing lockers on one key per scenario.
func TestC08(t *testing.T) {
	out := os.Getenv("VERIF_OUT")
	if out == "" {
		t.Skip("VERIF_OUT not set")
	}
	rng := rand.New(rand.NewSource(int64(envInt("VERIF_SEED", 1))))
	batches := envInt("VERIF_ROUNDS", 2)
	perBatch := envInt("VERIF_PER_BATCH", 20)
	w, err := trace.New(filepath.Join(out, "c08.ndjson"))
	if err != nil {
		t.Fatal(err)
	}
	sum := &summary{Paths: map[string]int{}}
	seq := 0
	seen := map[string]bool{}
	ms := func(n int) time.Duration { return time.Duration(n) * time.Millisecond }
	for _, R := range []int{1, 2} {
		c, err := cluster.Start(cluster.Options{Replicas: R, Partitions: 7, Manual: true,
			DMaps: func(d *config.DMaps) {
				// a DMap whose entries live 120 ms unless they say otherwise: a lock taken WITH a timeout says otherwise
				d.Custom = map[string]config.DMap{"c08ttl": {TTLDuration: 120 * time.Millisecond}}
			}}, 3)
		if err != nil {
			t.Fatal(err)
		}
		cfg := fmt.Sprintf("N=3 R=%d", R)
		sum.Configs = append(sum.Configs, cfg)
		paths := allPaths(t, c)
		var resps []Path
		for _, p := range paths {
			if _, ok := p.(*respPath); ok {
				resps = append(resps, p)
			}
		}
		for b := 0; b < batches; b++ {
			rec := NewRecorder()
			var scripts []Script
			for s := 0; s < perBatch; s++ {
				key := fmt.Sprintf("l%d-%d-%d", R, b, s)
				n := 2 + rng.Intn(2)
				timed := rng.Intn(3) != 0
				tau := ms([]int{150, 300}[rng.Intn(2)])
				if !timed {
					tau = 0
				}
				for ci := 0; ci < n; ci++ {
					p := paths[rng.Intn(len(paths))]
					sum.Paths[p.Name()]++
					sc := Script{Client: fmt.Sprintf("s%d.%d", s, ci), Path: p}
					at := ms(rng.Intn(120))
					delta := ms([]int{100, 250, 500}[rng.Intn(3)])
					sc.Steps = append(sc.Steps, Step{Op: "lock", Key: key, D: tau, Deadline: delta, At: at})
					switch x := rng.Intn(10); {
					case x < 4:
						// hold for a while, then unlock
						sc.Steps = append(sc.Steps, Step{Op: "sleep", D: ms(20 + rng.Intn(80))}, Step{Op: "unlock", Key: key})
					case x < 6:
						// lease, then unlock
						sc.Steps = append(sc.Steps, Step{Op: "sleep", D: ms(30)}, Step{Op: "lease", Key: key, D: ms(200)},
							Step{Op: "sleep", D: ms(60 + rng.Intn(200))}, Step{Op: "unlock", Key: key})
					case x < 8 && timed:
						// let it expire, then present the stale token
						sc.Steps = append(sc.Steps, Step{Op: "sleep", D: tau + ms(40+rng.Intn(100))}, Step{Op: "unlock", Key: key})
					case x < 9 && timed:
						sc.Steps = append(sc.Steps, Step{Op: "sleep", D: tau + ms(40)}, Step{Op: "lease", Key: key, D: ms(100)})
					default:
						sc.Steps = append(sc.Steps, Step{Op: "sleep", D: ms(50)}, Step{Op: "unlock", Key: key},
							Step{Op: "unlock", Key: key}) // second unlock presents a token that is no longer current
					}
					sum.Evaluations += len(sc.Steps)
					scripts = append(scripts, sc)
				}
				if rng.Intn(3) == 0 && len(resps) > 0 {
					// a stranger presents a forged token while the lock is (probably) held
					p := resps[rng.Intn(len(resps))]
					scripts = append(scripts, Script{Client: fmt.Sprintf("s%d.f", s), Path: p, Steps: []Step{
						{Op: "unlockforged", Key: key, At: ms(60 + rng.Intn(100))}, {Op: "leaseforged", Key: key, D: ms(500)}}})
				}
				// a late comer after everything timed out must get the lock if it is timed
				if timed {
					p := paths[rng.Intn(len(paths))]
					scripts = append(scripts, Script{Client: fmt.Sprintf("s%d.z", s), Path: p, Steps: []Step{
						{Op: "lock", Key: key, D: ms(100), Deadline: ms(1500), At: ms(700)}, {Op: "unlock", Key: key}}})
				}
			}
			rec.Run("c08", scripts, nil)
			record(w, rec, &seq, sum, seen, trace.Ev{"cfg": cfg}, func(h *History) bool { return h.Overlap })
		}
		// Locks with a timeout on a DMap that has a (shorter) default time-to-live: "a lock taken with a timeout is released
		// automatically no earlier than that timeout" - the holder unlocks at 300 ms, a competitor that tries from 170 ms to
		// 270 ms does not get it, a late comer does
		for b := 0; b < envInt("VERIF_C08_TTLDMAP", 2); b++ {
			rec := NewRecorder()
			var scripts []Script
			for s := 0; s < 5; s++ {
				key := fmt.Sprintf("lt%d-%d-%d", R, b, s)
				tau := ms([]int{500, 700}[rng.Intn(2)])
				for ci, plan := range [][]Step{
					{{Op: "lock", Key: key, D: tau, Deadline: ms(100)}, {Op: "sleep", D: ms(300)}, {Op: "unlock", Key: key}},
					{{Op: "lock", Key: key, D: tau, Deadline: ms(100), At: ms(170)}, {Op: "sleep", D: ms(20)}, {Op: "unlock", Key: key}},
					{{Op: "lock", Key: key, D: ms(100), Deadline: ms(1200), At: ms(800)}, {Op: "unlock", Key: key}},
				} {
					p := paths[rng.Intn(len(paths))]
					if _, ok := p.(*pipePath); ok {
						p = paths[0]
					}
					sum.Paths[p.Name()]++
					scripts = append(scripts, Script{Client: fmt.Sprintf("t%d.%d", s, ci), Path: p, Steps: plan})
					sum.Evaluations += len(plan)
				}
			}
			rec.Run("c08ttl", scripts, nil)
			record(w, rec, &seq, sum, seen, trace.Ev{"cfg": cfg + ", DMap with a default time-to-live of 120 ms"}, func(h *History) bool { return h.Overlap })
		}
		// Simultaneous lockers: a handful of Lock calls on a fresh key released at the same instant; exactly one may get the
		// lock (the others fail at their deadline), and only its token unlocks
		for b := 0; b < envInt("VERIF_SIMUL", 30); b++ {
			rec := NewRecorder()
			key := fmt.Sprintf("sim%d-%d", R, b)
			var scripts []Script
			nl := 4 + rng.Intn(5)
			for ci := 0; ci < nl; ci++ {
				p := paths[rng.Intn(len(paths))]
				if _, ok := p.(*pipePath); ok {
					p = paths[0]
				}
				sum.Paths[p.Name()]++
				scripts = append(scripts, Script{Client: fmt.Sprintf("x%d", ci), Path: p, Steps: []Step{
					{Op: "lock", Key: key, D: 0, Deadline: ms(30)}, {Op: "sleep", D: ms(60)}, {Op: "unlock", Key: key}}})
				sum.Evaluations += 2
			}
			rec.RunBarrier("c08", scripts)
			record(w, rec, &seq, sum, seen, trace.Ev{"cfg": cfg, "simultaneous": true}, func(h *History) bool { return h.Overlap })
		}
		// Expiry races: the holder's Unlock (or Lease) is held at the point between its token check
		// and its effect until the lock has timed out and a competitor has taken it.  The gate only
		// decides when the goroutine continues; the verdict comes from the recorded replies.
		ctl := sched.Install(int64(envInt("VERIF_SEED", 1)))
		races := envInt("VERIF_RACES", 3)
		for b := 0; b < races; b++ {
			for _, kind := range []string{"unlock", "lease"} {
				rec := NewRecorder()
				key := fmt.Sprintf("race%d-%s-%d", R, kind, b)
				pa, pb, pc := paths[rng.Intn(len(paths))], paths[rng.Intn(len(paths))], paths[rng.Intn(len(paths))]
				g := ctl.Hold(kind+".checked", 0, sched.KeyIs("c08", key))
				go func() {
					if _, ok := g.WaitArrived(3 * time.Second); ok {
						time.Sleep(ms(110))
					}
					g.Release()
				}()
				var scripts []Script
				if kind == "unlock" {
					scripts = []Script{
						{Client: "a", Path: pa, Steps: []Step{{Op: "lock", Key: key, D: ms(100), Deadline: ms(100)},
							{Op: "sleep", D: ms(60)}, {Op: "unlock", Key: key}}},
						{Client: "b", Path: pb, Steps: []Step{{Op: "lock", Key: key, D: 0, Deadline: ms(500), At: ms(30)},
							{Op: "sleep", D: ms(500)}, {Op: "unlock", Key: key}}},
						{Client: "c", Path: pc, Steps: []Step{{Op: "lock", Key: key, D: 0, Deadline: ms(150), At: ms(300)},
							{Op: "unlock", Key: key}}},
					}
				} else {
					scripts = []Script{
						{Client: "a", Path: pa, Steps: []Step{{Op: "lock", Key: key, D: ms(100), Deadline: ms(100)},
							{Op: "sleep", D: ms(60)}, {Op: "lease", Key: key, D: ms(300)}}},
						{Client: "b", Path: pb, Steps: []Step{{Op: "lock", Key: key, D: 0, Deadline: ms(500), At: ms(30)},
							{Op: "sleep", D: ms(900)}, {Op: "unlock", Key: key}}},
						{Client: "c", Path: pc, Steps: []Step{{Op: "lock", Key: key, D: 0, Deadline: ms(150), At: ms(650)},
							{Op: "unlock", Key: key}}},
					}
				}
				for _, sc := range scripts {
					sum.Paths[sc.Path.Name()]++
					sum.Evaluations += len(sc.Steps)
				}
				rec.Run("c08", scripts, nil)
				g.Release()
				record(w, rec, &seq, sum, seen, trace.Ev{"cfg": cfg, "race": kind}, func(h *History) bool { return h.Overlap })
			}
		}
		ctl.Reset()
		// A client that waits longer for a lock than it waits for any single reply (a cluster client's read timeout is 3 s by
		// default, here 150 ms): the Lock call still answers at the deadline - with the lock or with "not acquired" - and
		// what it gave up does not go on acquiring locks that nobody will ever release
		imp, err := ImpatientClusterClient(c.Live()[0], ms(150))
		if err != nil {
			t.Fatal(err)
		}
		for b := 0; b < envInt("VERIF_IMPATIENT", 4); b++ {
			rec := NewRecorder()
			key := fmt.Sprintf("imp%d-%d", R, b)
			pa, pz := paths[rng.Intn(len(paths))], paths[rng.Intn(len(paths))]
			hold := ms([]int{350, 900}[b%2]) // released while the impatient client is still waiting / after its deadline
			scripts := []Script{
				{Client: "a", Path: pa, Steps: []Step{{Op: "lock", Key: key, D: 0, Deadline: ms(100)}, {Op: "sleep", D: hold}, {Op: "unlock", Key: key}}},
				{Client: "b", Path: imp, Steps: []Step{{Op: "lock", Key: key, D: 0, Deadline: ms(600), At: ms(40)}, {Op: "sleep", D: ms(30)}, {Op: "unlock", Key: key}}},
				// once everybody is done the lock is free
				{Client: "z", Path: pz, Steps: []Step{{Op: "lock", Key: key, D: 0, Deadline: ms(300), At: ms(2200)}, {Op: "unlock", Key: key}}},
			}
			for _, sc := range scripts {
				sum.Paths[sc.Path.Name()]++
				sum.Evaluations += len(sc.Steps)
			}
			rec.Run("c08", scripts, nil)
			record(w, rec, &seq, sum, seen, trace.Ev{"cfg": cfg, "impatient": true}, func(h *History) bool { return h.Overlap })
		}
		imp.Close()
		for _, p := range paths {
			p.Close()
		}
		c.Shutdown()
	}
	// A lock held while the storage underneath it is rewritten: small tables, the members' own compaction worker every 25 ms,
	// and other keys of the same DMap written and deleted while the lock (with and without a timeout) is held.  The lock entry
	// is moved from table to table; it stays the holder's.
	{
		c, err := cluster.Start(cluster.Options{Replicas: 1, Partitions: 3, Manual: true, TableSize: 2048, Housekeeping: 25 * time.Millisecond}, 2)
		if err != nil {
			t.Fatal(err)
		}
		cfg := "N=2 R=1 T=2048, compaction worker every 25 ms"
		sum.Configs = append(sum.Configs, cfg)
		paths := allPaths(t, c)
		for b := 0; b < envInt("VERIF_COMPACTED_LOCKS", 4); b++ {
			rec := NewRecorder()
			key := fmt.Sprintf("held-%d", b)
			tau := ms([]int{0, 3000}[b%2])
			pa, pb := paths[rng.Intn(len(paths))], paths[rng.Intn(len(paths))]
			stop := make(chan struct{})
			var churn sync.WaitGroup
			churn.Add(1)
			go func() {
				defer churn.Done()
				time.Sleep(ms(40))
				for n := 0; ; n++ {
					select {
					case <-stop:
						return
					default:
					}
					k := fmt.Sprintf("junk-%d-%d", b, n%60)
					paths[0].Put(context.Background(), "c08", k, fmt.Sprintf("%0100d", n), PutOpts{})
					if n%2 == 1 {
						paths[0].Delete(context.Background(), "c08", k)
					}
				}
			}()
			scripts := []Script{
				{Client: "a", Path: pa, Steps: []Step{{Op: "lock", Key: key, D: tau, Deadline: ms(100)}, {Op: "sleep", D: ms(900)}, {Op: "unlock", Key: key}}},
				{Client: "b", Path: pb, Steps: []Step{{Op: "lock", Key: key, D: 0, Deadline: ms(200), At: ms(450)}, {Op: "unlock", Key: key}}},
				{Client: "z", Path: pb, Steps: []Step{{Op: "lock", Key: key, D: 0, Deadline: ms(300), At: ms(1300)}, {Op: "unlock", Key: key}}},
			}
			for _, sc := range scripts {
				sum.Paths[sc.Path.Name()]++
				sum.Evaluations += len(sc.Steps)
			}
			rec.Run("c08", scripts, nil)
			close(stop)
			churn.Wait()
			record(w, rec, &seq, sum, seen, trace.Ev{"cfg": cfg, "compaction": true}, func(h *History) bool { return h.Overlap })
		}
		for _, p := range paths {
			p.Close()
		}
		c.Shutdown()
	}
	if err := w.Close(); err != nil {
		t.Fatal(err)
	}
	writeSummary(t, out, "c08.summary.json", sum)
}

// TestC15 runs every operation x option combination x initial state through every client path,
// each case on a key of its own, and records the tiny sequential histories.
func TestC15(t *testing.T) {
	out := os.Getenv("VERIF_OUT")
	if out == "" {
		t.Skip("VERIF_OUT not set")
	}
	rng := rand.New(rand.NewSource(int64(envInt("VERIF_SEED", 1))))
	fraction := envInt("VERIF_FRACTION", 100) // percent of the cases to run
	w, err := trace.New(filepath.Join(out, "c15.ndjson"))
	if err != nil {
		t.Fatal(err)
	}
	sum := &summary{Paths: map[string]int{}}
	seq := 0
	seen := map[string]bool{}
	ms := func(n int) time.Duration { return time.Duration(n) * time.Millisecond }
	// cluster shapes: the quick tier runs the first one, the thorough tier all of them (VERIF_C15_SHAPES)
	shapes := []struct {
		N, R int
		P    uint64
		T    int
	}{{3, 2, 13, 0}, {1, 1, 7, 0}, {2, 1, 7, 512}, {3, 3, 13, 0}, {2, 2, 7, 512}}
	if k := envInt("VERIF_C15_SHAPES", 1); k < len(shapes) {
		shapes = shapes[:k]
	}
	n := 0
	for si, sh := range shapes {
		func() {
			shape := fmt.Sprintf("N=%d R=%d P=%d T=%d", sh.N, sh.R, sh.P, sh.T)
			c, err := cluster.Start(cluster.Options{Replicas: sh.R, Partitions: sh.P, TableSize: sh.T, Manual: true, Housekeeping: housekeeping(sh.T)}, sh.N)
			if err != nil {
				t.Fatal(err)
			}
			defer c.Shutdown()
			sum.Configs = append(sum.Configs, shape)
			paths := allPaths(t, c)
			for _, m := range c.Live()[:1] {
				pp, err := Pipeline(m)
				if err != nil {
					t.Fatal(err)
				}
				paths = append(paths, pp)
			}
			defer func() {
				for _, p := range paths {
					p.Close()
				}
			}()
			type kase struct {
				name  string
				steps func(key string) []Step // the operation under test and its follow-ups (after the initial state)
				lock  bool
			}
			var cases []kase
			for _, cond := range []string{"", "NX", "XX"} {
				for _, mode := range []string{"", "EX", "PX", "EXAT", "PXAT"} {
					cond, mode := cond, mode
					cases = append(cases, kase{name: "put" + cond + mode, steps: func(key string) []Step {
						o := PutOpts{NX: cond == "NX", XX: cond == "XX", Mode: mode}
						switch mode {
						case "EX", "PX":
							o.D = ms(120)
						case "EXAT", "PXAT":
							o.D = time.Duration(time.Now().Add(ms(420)).UnixMilli()) * time.Millisecond
						}
						at := ms(300)
						if mode == "EXAT" || mode == "PXAT" {
							at = 0
						}
						return []Step{{Op: "put", Key: key, Val: "new-" + key, Opts: o, At: at}, {Op: "get", Key: key},
							{Op: "get", Key: key, At: ms(470)}}
					}})
				}
			}
			for _, msv := range []bool{false, true} {
				msv := msv
				cases = append(cases, kase{name: fmt.Sprintf("expire ms=%v", msv), steps: func(key string) []Step {
					return []Step{{Op: "expire", Key: key, D: ms(100), Ms: msv, At: ms(300)}, {Op: "get", Key: key}, {Op: "get", Key: key, At: ms(450)}}
				}})
			}
			cases = append(cases, kase{name: "getput", steps: func(key string) []Step {
				return []Step{{Op: "getput", Key: key, Val: "gp-" + key, At: ms(300)}, {Op: "get", Key: key}, {Op: "get", Key: key, At: ms(450)}}
			}})
			cases = append(cases, kase{name: "del1", steps: func(key string) []Step {
				return []Step{{Op: "mdel", Keys: []string{key}, At: ms(300)}, {Op: "get", Key: key}}
			}})
			for n := 2; n <= 4; n++ {
				n := n
				cases = append(cases, kase{name: fmt.Sprintf("del%d", n), steps: func(key string) []Step {
					ks := []string{key}
					for j := 1; j < n; j++ {
						ks = append(ks, fmt.Sprintf("%s+%d", key, j))
					}
					st := []Step{}
					for _, k := range ks[1:] {
						st = append(st, Step{Op: "put", Key: k, Val: "x-" + k})
					}
					st = append(st, Step{Op: "mdel", Keys: ks, At: ms(300)})
					for _, k := range ks {
						st = append(st, Step{Op: "get", Key: k})
					}
					return st
				}})
			}
			cases = append(cases, kase{name: "lock", lock: true, steps: func(key string) []Step {
				// (a Get of the lock key would return the random token, which the driver cannot name)
				return []Step{{Op: "lock", Key: key, D: 0, Deadline: ms(50), At: ms(300)}, {Op: "lease", Key: key, D: ms(100)},
					{Op: "unlock", Key: key}, {Op: "get", Key: key}}
			}})
			cases = append(cases, kase{name: "locktimeout", lock: true, steps: func(key string) []Step {
				return []Step{{Op: "lock", Key: key, D: ms(120), Deadline: ms(50), At: ms(300)},
					{Op: "lock", Key: key, D: ms(100), Deadline: ms(40), At: ms(330), Slot: 1},
					{Op: "lock", Key: key, D: ms(100), Deadline: ms(400), At: ms(480), Slot: 2}, {Op: "unlock", Key: key, Slot: 2}}
			}})
			numCases := []kase{
				{name: "incr", steps: func(key string) []Step {
					return []Step{{Op: "incr", Key: key, Delta: 4, At: ms(300)}, {Op: "get", Key: key, Num: true}, {Op: "get", Key: key, Num: true, At: ms(450)}}
				}},
				{name: "incr by zero", steps: func(key string) []Step {
					// the "INCRBY key 0" idiom: creates a missing counter with the value 0, on every path
					return []Step{{Op: "incr", Key: key, Delta: 0, At: ms(300)}, {Op: "get", Key: key, Num: true}, {Op: "get", Key: key, Num: true, At: ms(450)}}
				}},
				{name: "decr by zero", steps: func(key string) []Step {
					return []Step{{Op: "decr", Key: key, Delta: 0, At: ms(300)}, {Op: "get", Key: key, Num: true}}
				}},
				{name: "decr", steps: func(key string) []Step {
					return []Step{{Op: "decr", Key: key, Delta: 3, At: ms(300)}, {Op: "get", Key: key, Num: true}, {Op: "get", Key: key, Num: true, At: ms(450)}}
				}},
			}
			fltCase := kase{name: "incrbyfloat", steps: func(key string) []Step {
				return []Step{{Op: "incrf", Key: key, Delta: 512, At: ms(300)}, {Op: "get", Key: key, Float: true}}
			}}
			rec := NewRecorder()
			var scripts []Script
			add := func(k kase, init string, p Path, setup []Step) {
				if rng.Intn(100) >= fraction {
					return
				}
				if k.lock {
					if _, ok := p.(*pipePath); ok {
						return
					}
				}
				n++
				key := fmt.Sprintf("q%d", n)
				// the initial state is established through an embedded client on the first member
				var st []Step
				for _, s := range setup {
					s.Key = key
					st = append(st, s)
				}
				sum.Paths[p.Name()]++
				// ... by the same script, so that the operation under test can never overlap it however slow the machine is
				for j := range st {
					st[j].Via = paths[0]
				}
				steps := append(st, k.steps(key)...)
				scripts = append(scripts, Script{Client: fmt.Sprintf("u%d", n), Path: p, Steps: steps})
				sum.Evaluations += len(steps)
				if len(sum.Samples) < 3 && rng.Intn(50) == 0 {
					sum.Samples = append(sum.Samples, map[string]any{"case": k.name, "initial": init, "path": p.Name(), "steps": steps})
				}
			}
			for _, p := range paths {
				for _, k := range cases {
					add(k, "absent", p, nil)
					add(k, "present", p, []Step{{Op: "put", Val: "old"}})
					add(k, "present+ttl", p, []Step{{Op: "put", Val: "old", Opts: PutOpts{Mode: "PX", D: ms(420)}}})
				}
				for _, k := range numCases {
					add(k, "absent", p, nil)
					add(k, "present", p, []Step{{Op: "incr", Delta: 10}})
					add(k, "present+ttl", p, []Step{{Op: "incr", Delta: 10}, {Op: "expire", D: ms(420), Ms: true}})
				}
				add(fltCase, "absent", p, nil)
				add(fltCase, "present", p, []Step{{Op: "incrf", Delta: 1024}})
			}
			if len(sum.Samples) == 0 && len(scripts) > 0 {
				sum.Samples = append(sum.Samples, map[string]any{"path": scripts[len(scripts)-1].Path.Name(), "steps": scripts[len(scripts)-1].Steps})
			}
			rec.Run("c15", scripts, nil)
			record(w, rec, &seq, sum, seen, trace.Ev{"cfg": shape}, func(h *History) bool { return true })
			// one pipeline carrying many operations, one per key, of every kind, spread over all partitions: every future must
			// get the reply of its own command
			for _, p := range paths {
				pp, ok := p.(*pipePath)
				if !ok {
					continue
				}
				for b := 0; b < envInt("VERIF_BATCHES", 4); b++ {
					rec := NewRecorder()
					var setup, batch []Step
					var fin Script
					fin = Script{Client: "fin", Path: paths[rng.Intn(len(paths))]}
					for i := 0; i < 24; i++ {
						key := fmt.Sprintf("b%d-%d-%d", si, b, i)
						kind := rng.Intn(8)
						present := rng.Intn(2) == 0
						switch {
						case kind >= 5 && kind <= 6: // numeric keys
							if present {
								setup = append(setup, Step{Op: "incr", Key: key, Delta: 10 + i})
							}
							if kind == 5 {
								batch = append(batch, Step{Op: "incr", Key: key, Delta: 1 + i})
							} else {
								batch = append(batch, Step{Op: "decr", Key: key, Delta: 1 + i})
							}
							fin.Steps = append(fin.Steps, Step{Op: "get", Key: key, Num: true})
						case kind == 7:
							if present {
								setup = append(setup, Step{Op: "incrf", Key: key, Delta: 1024})
							}
							batch = append(batch, Step{Op: "incrf", Key: key, Delta: 512})
							fin.Steps = append(fin.Steps, Step{Op: "get", Key: key, Float: true})
						default:
							if present {
								setup = append(setup, Step{Op: "put", Key: key, Val: "old-" + key})
							}
							switch kind {
							case 0:
								batch = append(batch, Step{Op: "put", Key: key, Val: "new-" + key, Opts: PutOpts{NX: rng.Intn(3) == 0}})
							case 1:
								batch = append(batch, Step{Op: "get", Key: key})
							case 2:
								batch = append(batch, Step{Op: "del", Key: key})
							case 3:
								batch = append(batch, Step{Op: "getput", Key: key, Val: "gp-" + key})
							default:
								batch = append(batch, Step{Op: "put", Key: key, Val: "xx-" + key, Opts: PutOpts{XX: true}})
							}
							fin.Steps = append(fin.Steps, Step{Op: "get", Key: key})
						}
					}
					rec.Run("c15", []Script{{Client: "setup", Path: paths[0], Steps: setup}}, nil)
					rec.Batch(context.Background(), "c15", "batch", pp, batch)
					rec.Run("c15", []Script{fin}, nil)
					sum.Evaluations += len(setup) + len(batch) + len(fin.Steps)
					sum.Paths[pp.Name()+"-batch"]++
					record(w, rec, &seq, sum, seen, trace.Ev{"cfg": shape, "batch": true}, func(h *History) bool { return true })
				}
			}
			// one Delete that names hundreds of keys living on all members (every member owns well over a hundred of them): it
			// removes every one of them and reports their number, through whichever member it enters
			nbulk := envInt("VERIF_BULK", 420)
			bulk := []Path{paths[rng.Intn(len(paths))], paths[sh.N-1]}
			for _, p := range paths {
				if strings.HasPrefix(p.Name(), "cc@") || p.Name() == fmt.Sprintf("resp@%d", (si+1)%sh.N) {
					bulk = append(bulk, p)
				}
			}
			for bi, p := range bulk {
				rec := NewRecorder()
				var ks []string
				var setup, fin []Step
				for i := 0; i < nbulk; i++ {
					k := fmt.Sprintf("bulk%d-%d-%d", si, bi, i)
					if i%7 != 3 { // a few of the named keys do not exist
						setup = append(setup, Step{Op: "put", Key: k, Val: "v-" + k})
					}
					ks = append(ks, k)
					fin = append(fin, Step{Op: "get", Key: k})
				}
				rec.Run("c15", []Script{{Client: "setup", Path: paths[0], Steps: setup}}, nil)
				rec.Run("c15", []Script{{Client: "bulk", Path: p, Steps: []Step{{Op: "mdel", Keys: ks}}}}, nil)
				rec.Run("c15", []Script{{Client: "fin", Path: paths[(bi+1)%len(paths)], Steps: fin}}, nil)
				sum.Evaluations += len(setup) + 1 + len(fin)
				sum.Paths[p.Name()+"-bulkdel"]++
				record(w, rec, &seq, sum, seen, trace.Ev{"cfg": shape, "bulk": true}, func(h *History) bool { return true })
			}
			// first contact: the operation under test is the first command its entry member ever sees for that DMap (a member
			// keeps a registry of the DMaps it has handled, filled on demand).  A fresh DMap per case; the key lives on other
			// members (the entry member is neither the owner nor a backup owner of its partition); the initial state and the
			// final read go through the embedded client of the key's owner.
			if sh.N > sh.R {
				type fcase struct {
					name  string
					setup func(k string) []Step
					steps func(k string) []Step
				}
				putOld := func(k string) []Step { return []Step{{Op: "put", Key: k, Val: "old-" + k}} }
				fcs := []fcase{
					{"del", putOld, func(k string) []Step { return []Step{{Op: "del", Key: k}} }},
					{"mdel", putOld, func(k string) []Step { return []Step{{Op: "mdel", Keys: []string{k, k + "-nokey"}}} }},
					{"get", putOld, func(k string) []Step { return []Step{{Op: "get", Key: k}} }},
					{"putXX", putOld, func(k string) []Step { return []Step{{Op: "put", Key: k, Val: "new-" + k, Opts: PutOpts{XX: true}}} }},
					{"putNX", putOld, func(k string) []Step { return []Step{{Op: "put", Key: k, Val: "new-" + k, Opts: PutOpts{NX: true}}} }},
					{"expire", putOld, func(k string) []Step { return []Step{{Op: "expire", Key: k, D: ms(60000), Ms: true}} }},
					{"getput", putOld, func(k string) []Step { return []Step{{Op: "getput", Key: k, Val: "new-" + k}} }},
					{"incr", func(k string) []Step { return []Step{{Op: "incr", Key: k, Delta: 10}} },
						func(k string) []Step { return []Step{{Op: "incr", Key: k, Delta: 5}} }},
				}
				for fi, fc := range fcs {
					for e := 0; e < sh.N; e++ {
						for _, p := range []Path{paths[e], paths[sh.N+e], paths[2*sh.N]} {
							if p == paths[2*sh.N] && (e != 0 || fc.name != "mdel") {
								continue // the cluster client sends single-key requests to the owner; its multi-key Delete goes to any member
							}
							dmName := fmt.Sprintf("fc%d-%d-%d-%s", si, fi, e, strings.ReplaceAll(p.Name(), "@", "-"))
							key := ""
							var owner *cluster.Member
							for i := 0; i < 400 && key == ""; i++ {
								k := fmt.Sprintf("f%d", i)
								o, _ := c.OwnerOf(c.Live()[0], dmName, k)
								ok := o != nil && o.Index != e
								for _, b := range c.BackupsOf(c.Live()[0], dmName, k) {
									if b.Index == e {
										ok = false
									}
								}
								if ok {
									key, owner = k, o
								}
							}
							if key == "" {
								continue
							}
							via := paths[owner.Index]
							var steps []Step
							for _, st := range fc.setup(key) {
								st.Via = via
								steps = append(steps, st)
							}
							steps = append(steps, fc.steps(key)...)
							steps = append(steps, Step{Op: "get", Key: key, Num: fc.name == "incr", Via: via})
							rec := NewRecorder()
							rec.Run(dmName, []Script{{Client: "fc", Path: p, Steps: steps}}, nil)
							sum.Evaluations += len(steps)
							sum.Paths[p.Name()+"-first-contact"]++
							record(w, rec, &seq, sum, seen, trace.Ev{"cfg": shape, "first_contact": fc.name}, func(h *History) bool { return true })
						}
					}
				}
			}
		}()
	}
	if err := w.Close(); err != nil {
		t.Fatal(err)
	}
	writeSummary(t, out, "c15.summary.json", sum)
}
