//go:build verif

// Package rt applies join/leave sequences to real clusters and logs, at every stabilisation, the
// routing table seen by every member and by a cluster client (RoutingTrace.tla).
package rt

import (
	"bufio"
	"context"
	"encoding/json"
	"fmt"
	"math/rand"
	"os"
	"path/filepath"
	"sort"
	"strconv"
	"strings"
	"testing"
	"time"

	"github.com/olric-data/olric"
	"github.com/olric-data/olric/config"
	"github.com/olric-data/olric/internal/cluster/partitions"
	"github.com/olric-data/olric/verifharness/cluster"
	"github.com/olric-data/olric/verifharness/trace"
)

func envInt(name string, def int) int {
	if v := os.Getenv(name); v != "" {
		if n, err := strconv.Atoi(v); err == nil {
			return n
		}
	}
	return def
}

type event struct {
	Ev string `json:"ev"` // join leave write rejoin
	M  int    `json:"m"`
	P  int    `json:"p"`
}

type world struct {
	c       *cluster.Cluster
	byModel map[int]*cluster.Member // model member id -> real member
	order   []*cluster.Member       // join order
	w       *trace.Writer
	R       int
	nkeys   int
	lf100   int // the configured load factor in hundredths
}

func (w *world) names() map[string]string {
	out := map[string]string{}
	for i, m := range w.order {
		out[m.Name] = "m" + strconv.Itoa(i)
	}
	return out
}

func (w *world) logStable() error {
	c := w.c
	nm := w.names()
	name := func(s string) string {
		if x, ok := nm[s]; ok {
			return x
		}
		return "departed:" + s
	}
	var members []string
	for _, m := range w.order {
		if !m.Stopped {
			members = append(members, nm[m.Name])
		}
	}
	// the members' own tables identify a member by name and id: the incarnation of a member that was restarted under its
	// old address is another member
	inc := map[string]string{}
	for i, m := range w.order {
		inc[m.Incarnation()] = "m" + strconv.Itoa(i)
	}
	incName := func(s string) string {
		if x, ok := inc[s]; ok {
			return x
		}
		return "departed:" + s
	}
	conv := func(t cluster.Table) ([][]string, [][]string) {
		var os, bs [][]string
		for p := range t.Owners {
			o, b := []string{}, []string{}
			for _, x := range t.Owners[p] {
				o = append(o, incName(x))
			}
			for _, x := range t.Backups[p] {
				b = append(b, incName(x))
			}
			os, bs = append(os, o), append(bs, b)
		}
		return os, bs
	}
	var views []trace.Ev
	var coords []string
	parts := c.Opts.Partitions
	for _, m := range c.Live() {
		o, b := conv(m.TableByIncarnation(parts))
		views = append(views, trace.Ev{"who": nm[m.Name], "owners": o, "backups": b})
		co := m.V.RoutingTable.Discovery().GetCoordinator()
		coords = append(coords, incName(fmt.Sprintf("%s#%d", co.Name, co.ID)))
	}
	// the table a client obtains (CLUSTER.ROUTINGTABLE through the last live member)
	live := c.Live()
	cc, err := olric.NewClusterClient([]string{live[len(live)-1].Name})
	if err != nil {
		return err
	}
	rt, err := cc.RoutingTable(context.Background())
	cc.Close(context.Background())
	if err != nil {
		return err
	}
	var co, cb [][]string
	for p := uint64(0); p < parts; p++ {
		o, b := []string{}, []string{}
		for _, x := range rt[p].PrimaryOwners {
			o = append(o, name(x))
		}
		for _, x := range rt[p].ReplicaOwners {
			b = append(b, name(x))
		}
		co, cb = append(co, o), append(cb, b)
	}
	views = append(views, trace.Ev{"who": "client", "owners": co, "backups": cb})
	// what the client API tells: RoutingTable() of every member's embedded client, Members() of every embedded client and of
	// a cluster client (names of the listed members, and the one flagged as coordinator)
	var lists []trace.Ev
	memberList := func(who string, ms []olric.Member, err error) error {
		if err != nil {
			return err
		}
		var names, coord []string
		for _, x := range ms {
			id := incName(fmt.Sprintf("%s#%d", x.Name, x.ID))
			names = append(names, id)
			if x.Coordinator {
				coord = append(coord, id)
			}
		}
		sort.Strings(names)
		if names == nil {
			names = []string{}
		}
		if coord == nil {
			coord = []string{}
		}
		lists = append(lists, trace.Ev{"who": who, "names": names, "coordinators": coord})
		return nil
	}
	for _, m := range c.Live() {
		ec := m.DB.NewEmbeddedClient()
		ert, err := ec.RoutingTable(context.Background())
		if err != nil {
			return err
		}
		var eo, eb [][]string
		for p := uint64(0); p < parts; p++ {
			o, b := []string{}, []string{}
			for _, x := range ert[p].PrimaryOwners {
				o = append(o, name(x))
			}
			for _, x := range ert[p].ReplicaOwners {
				b = append(b, name(x))
			}
			eo, eb = append(eo, o), append(eb, b)
		}
		views = append(views, trace.Ev{"who": "embedded client of " + nm[m.Name], "owners": eo, "backups": eb})
		ms, err := ec.Members(context.Background())
		if err := memberList("embedded client of "+nm[m.Name], ms, err); err != nil {
			return err
		}
	}
	cc2, err := olric.NewClusterClient([]string{live[0].Name})
	if err != nil {
		return err
	}
	ms, err := cc2.Members(context.Background())
	cc2.Close(context.Background())
	if err := memberList("cluster client", ms, err); err != nil {
		return err
	}
	holds := []trace.Ev{}
	for _, m := range c.Live() {
		for p := uint64(0); p < parts; p++ {
			if m.V.Primary.PartitionByID(p).Length() > 0 {
				holds = append(holds, trace.Ev{"m": nm[m.Name], "kind": "p", "part": int(p)})
			}
			if m.V.Backup.PartitionByID(p).Length() > 0 {
				holds = append(holds, trace.Ev{"m": nm[m.Name], "kind": "b", "part": int(p)})
			}
		}
	}
	keys := []trace.Ev{}
	for j := 0; j < 8; j++ {
		k := fmt.Sprintf("sample-%d", j)
		var ps []int
		var os []string
		for _, m := range c.Live() {
			hkey := partitions.HKey("rt", k)
			part := m.V.Primary.PartitionByHKey(hkey)
			ps = append(ps, int(part.ID()))
			os = append(os, incName(fmt.Sprintf("%s#%d", part.Owner().Name, part.Owner().ID)))
		}
		// the client's own computation: hash modulo the number of partitions of the table it fetched
		hkey := partitions.HKey("rt", k)
		cp := hkey % uint64(len(rt))
		ps = append(ps, int(cp))
		ow := rt[cp].PrimaryOwners
		os = append(os, name(ow[len(ow)-1]))
		keys = append(keys, trace.Ev{"k": k, "parts": ps, "owners": os})
	}
	w.w.Emit(trace.Ev{"t": "stable", "members": members, "coordinator": coords[0], "coordinators": coords, "R": w.R,
		"lf100": w.lf100, "views": views, "holds": holds, "keys": keys, "lists": lists})
	return nil
}

func (w *world) write(n int) {
	live := w.c.Live()
	dm, err := live[0].DB.NewEmbeddedClient().NewDMap("rt")
	if err != nil {
		return
	}
	for i := 0; i < n; i++ {
		w.nkeys++
		dm.Put(context.Background(), fmt.Sprintf("k%d", w.nkeys), "v")
	}
}

// TestRouting is the driver.
func TestRouting(t *testing.T) {
	out := os.Getenv("VERIF_OUT")
	if out == "" {
		t.Skip("VERIF_OUT not set")
	}
	rng := rand.New(rand.NewSource(int64(envInt("VERIF_SEED", 1))))
	tw, err := trace.New(filepath.Join(out, "rt.ndjson"))
	if err != nil {
		t.Fatal(err)
	}
	var seqs [][]event
	fromTLC := 0
	if beh := os.Getenv("VERIF_BEH"); beh != "" {
		f, err := os.Open(beh)
		if err != nil {
			t.Fatal(err)
		}
		sc := bufio.NewScanner(f)
		sc.Buffer(make([]byte, 1<<20), 1<<24)
		for sc.Scan() {
			var evs []event
			if err := json.Unmarshal([]byte(sc.Text()), &evs); err != nil {
				t.Fatal(err)
			}
			seqs = append(seqs, evs)
			fromTLC++
		}
		f.Close()
	}
	// seeded random sequences over up to 6 members, with re-joins under the same address
	for i := 0; i < envInt("VERIF_RT_RANDOM", 0); i++ {
		var evs []event
		alive := map[int]bool{1: true}
		dead := []int{}
		next := 2
		n := 3 + rng.Intn(envInt("VERIF_RT_LEN", 4))
		for j := 0; j < n; j++ {
			x := rng.Intn(10)
			switch {
			case x < 4 && next <= 6:
				evs = append(evs, event{Ev: "join", M: next})
				alive[next] = true
				next++
			case x < 5 && len(dead) > 0:
				m := dead[len(dead)-1]
				dead = dead[:len(dead)-1]
				evs = append(evs, event{Ev: "rejoin", M: m})
				alive[m] = true
			case x < 8 && len(alive) > 1:
				var ids []int
				for id := range alive {
					ids = append(ids, id)
				}
				sort.Ints(ids)
				// bias towards the coordinator (the oldest)
				victim := ids[rng.Intn(len(ids))]
				if rng.Intn(3) == 0 {
					for _, id := range ids {
						if id < victim {
							victim = id
						}
					}
				}
				evs = append(evs, event{Ev: "leave", M: victim})
				delete(alive, victim)
				dead = append(dead, victim)
			case x == 8 && len(alive) > 1:
				var ids []int
				for id := range alive {
					ids = append(ids, id)
				}
				sort.Ints(ids)
				evs = append(evs, event{Ev: "restart", M: ids[rng.Intn(len(ids))]})
			default:
				evs = append(evs, event{Ev: "write"})
			}
		}
		seqs = append(seqs, evs)
	}
	// restarts under the old address, of an ordinary member and of the coordinator (always part of the run)
	seqs = append(seqs, []event{{Ev: "join", M: 2}, {Ev: "join", M: 3}, {Ev: "write"}, {Ev: "restart", M: 2}, {Ev: "write"}, {Ev: "restart", M: 1}, {Ev: "join", M: 4}},
		[]event{{Ev: "join", M: 2}, {Ev: "write"}, {Ev: "restart", M: 2}, {Ev: "join", M: 3}, {Ev: "leave", M: 1}})
	// sequences that always run with the members' own timers, whatever their position: the founding coordinator leaves, data is
	// written, a member joins - whoever is coordinator then has to keep pushing until the emptied previous owners are gone
	free := map[int]bool{}
	for _, evs := range [][]event{
		{{Ev: "join", M: 2}, {Ev: "leave", M: 1}, {Ev: "write"}, {Ev: "join", M: 3}},
		{{Ev: "join", M: 2}, {Ev: "join", M: 3}, {Ev: "leave", M: 1}, {Ev: "write"}, {Ev: "join", M: 4}},
	} {
		free[len(seqs)] = true
		seqs = append(seqs, evs)
	}
	evals, nontriv, unstable := 0, 0, 0
	var notes []string
	var samples []any
	// LF: the configured load factor in hundredths (0 = the default, 1.25); a tighter one must be honoured as well
	cfgs := []struct {
		R  int
		P  uint64
		LF int
	}{{1, 7, 0}, {2, 13, 0}, {3, 7, 0}, {2, 71, 110}, {1, 23, 105}}
	for si, evs := range seqs {
		cf := cfgs[si%len(cfgs)]
		// every third sequence runs with the members' own timers (routing-table push every 200 ms, balancer every 100 ms)
		// instead of pushes and balancer runs triggered by the driver
		manual := si%3 != 2 && !free[si]
		lf := cf.LF
		if lf == 0 {
			lf = 125
		}
		c, err := cluster.Start(cluster.Options{Replicas: cf.R, Partitions: cf.P, Manual: manual,
			Tweak: func(c *config.Config) {
				if cf.LF != 0 {
					c.LoadFactor = float64(cf.LF) / 100
				}
			}}, 1)
		if err != nil {
			t.Fatal(err)
		}
		w := &world{c: c, byModel: map[int]*cluster.Member{1: c.Members[0]}, order: []*cluster.Member{c.Members[0]}, w: tw, R: cf.R, lf100: lf}
		var desc []string
		tw.Emit(trace.Ev{"t": "reset", "seq": si + 1, "cfg": fmt.Sprintf("R=%d P=%d manual=%v load-factor=%d%%", cf.R, cf.P, manual, lf)})
		w.write(20)
		failed := false
		changes := 0
		for _, e := range evs {
			switch e.Ev {
			case "join":
				if _, ok := w.byModel[e.M]; ok {
					continue
				}
				if len(c.Live()) >= 2 {
					w.write(12) // the member that joins finds partitions whose backup copies hold data
				}
				m, err := c.AddMember()
				if err != nil {
					t.Fatalf("join: %v", err)
				}
				w.byModel[e.M] = m
				w.order = append(w.order, m)
				changes++
			case "rejoin":
				old := w.byModel[e.M]
				if old == nil || !old.Stopped {
					continue
				}
				time.Sleep(150 * time.Millisecond) // let the ports be released
				m, err := c.Rejoin(old)
				if err != nil {
					t.Logf("rejoin failed (port busy?): %v", err)
					continue
				}
				w.byModel[e.M] = m
				w.order = append(w.order, m)
				changes++
			case "restart":
				// the member dies without a leave message and comes back under its old address before the others have
				// noticed: they learn about the new incarnation from an update of the member's metadata, not from a
				// leave followed by a join
				old := w.byModel[e.M]
				if old == nil || old.Stopped || len(c.Live()) <= 1 {
					continue
				}
				if err := c.Stop(old, false); err != nil {
					t.Logf("stop: %v", err)
				}
				var m *cluster.Member
				var err error
				for try := 0; try < 10; try++ {
					if m, err = c.Rejoin(old); err == nil {
						break
					}
					time.Sleep(30 * time.Millisecond)
				}
				if err != nil {
					t.Logf("restart failed (port busy?): %v", err)
					e.Ev = "crash"
				} else {
					w.byModel[e.M] = m
					w.order = append(w.order, m)
				}
				changes++
			case "leave":
				m := w.byModel[e.M]
				if m == nil || m.Stopped || len(c.Live()) <= 1 {
					continue
				}
				graceful := rng.Intn(2) == 0
				if err := c.Stop(m, graceful); err != nil {
					t.Logf("stop: %v", err)
				}
				e.Ev = map[bool]string{true: "leave", false: "crash"}[graceful]
				changes++
			case "write":
				w.write(15)
			}
			evals++
			desc = append(desc, fmt.Sprintf("%s %d", e.Ev, e.M))
			tw.Emit(trace.Ev{"t": "event", "ev": e.Ev, "m": e.M})
			if e.Ev == "write" {
				continue
			}
			if manual && e.Ev == "join" {
				// the table the members hold once the join has been pushed and before any data has moved: partitions have
				// previous owners and former backup owners that still hold data - the same clauses apply to it
				if err := c.WaitPushFixpoint(8 * time.Second); err == nil {
					if err := w.logStable(); err != nil {
						t.Logf("sequence %d: %v", si+1, err)
						failed = true
						break
					}
				}
			}
			if err := c.WaitStable(15*time.Second, false); err != nil {
				// liveness of stabilisation is observed with a time-out: inconclusive, not a violation
				t.Logf("sequence %d (%v): %v", si+1, desc, err)
				notes = append(notes, fmt.Sprintf("sequence %d %v: %v", si+1, desc, err))
				unstable++
				failed = true
				break
			}
			if err := w.logStable(); err != nil {
				t.Logf("sequence %d: %v", si+1, err)
				failed = true
				break
			}
		}
		if !failed && changes >= 2 {
			nontriv++
		}
		if len(samples) < 3 && len(desc) >= 3 {
			samples = append(samples, strings.Join(desc, ", "))
		}
		c.ShutdownAsync()
	}
	cluster.WaitBackground(20 * time.Second)
	if err := tw.Close(); err != nil {
		t.Fatal(err)
	}
	sum := map[string]any{"evaluations": evals, "sequences": len(seqs), "from_tlc": fromTLC, "distinct_nontrivial": nontriv, "samples": samples,
		"not_stabilised": unstable, "notes": notes}
	b, _ := json.MarshalIndent(sum, "", " ")
	os.WriteFile(filepath.Join(out, "rt.summary.json"), b, 0o644)
}
