//go:build verif

package scan

import (
	"bufio"
	"context"
	"encoding/json"
	"fmt"
	"os"
	"path/filepath"
	"sort"
	"strings"
	"sync"
	"testing"
	"time"

	"github.com/olric-data/olric"
	"github.com/olric-data/olric/internal/cluster/partitions"
	"github.com/olric-data/olric/verifharness/cluster"
	"github.com/olric-data/olric/verifharness/trace"
)

type scenario struct {
	Count   int        `json:"count"`
	After   int        `json:"after"` // let the iterator's routing table be refreshed after this many keys of a moved partition (99 = never)
	Primary [][]string `json:"primary"`
	Replica [][]string `json:"replica"`
}

// startsPartition reports whether every key of the partitions before p has been yielded already, i.e. the
// next fetch belongs to partition p.
func startsPartition(got, want []string, p, parts uint64, dm string) bool {
	seen := map[string]bool{}
	for _, k := range got {
		seen[k] = true
	}
	for _, k := range want {
		if partitions.HKey(dm, k)%parts < p && !seen[k] {
			return false
		}
	}
	return true
}

// realKey finds a key name for model key `k` that the DMap `dm` places in partition p.
func realKey(dm, k string, p, parts uint64) string {
	for i := 0; ; i++ {
		name := fmt.Sprintf("%s-%d-%d", k, p, i)
		if partitions.HKey(dm, name)%parts == p {
			return name
		}
	}
}

// TestScanModel builds every initial state of Iterator.tla (owners of a partition and their key lists
// in scan order, page size) on a real cluster whose partitions have a previous owner that still holds
// data, and iterates each DMap to completion through both client iterators.
func TestScanModel(t *testing.T) {
	out := os.Getenv("VERIF_OUT")
	beh := os.Getenv("VERIF_BEH")
	if out == "" || beh == "" {
		t.Skip("VERIF_OUT / VERIF_BEH not set")
	}
	var scs []scenario
	f, err := os.Open(beh)
	if err != nil {
		t.Fatal(err)
	}
	sc := bufio.NewScanner(f)
	for sc.Scan() {
		var s scenario
		if err := json.Unmarshal([]byte(sc.Text()), &s); err != nil {
			t.Fatal(err)
		}
		if len(s.Replica) == 0 && len(s.Primary) <= 2 {
			scs = append(scs, s)
		}
	}
	f.Close()
	w, err := trace.New(filepath.Join(out, "scanmodel.ndjson"))
	if err != nil {
		t.Fatal(err)
	}
	const parts = 7
	c, err := cluster.Start(cluster.Options{Replicas: 1, Partitions: parts, Manual: true}, 1)
	if err != nil {
		t.Fatal(err)
	}
	defer c.Shutdown()
	ctx := context.Background()
	emb := c.Members[0].DB.NewEmbeddedClient()
	dms := map[int]olric.DMap{}
	put := func(si int, key string) {
		dm, ok := dms[si]
		if !ok {
			dm, err = emb.NewDMap(fmt.Sprintf("it%d", si))
			if err != nil {
				t.Fatal(err)
			}
			dms[si] = dm
		}
		if err := dm.Put(ctx, key, "v"); err != nil {
			t.Fatalf("put: %v", err)
		}
	}
	// phase 1: what the first owner of every partition holds
	for si, s := range scs {
		dmn := fmt.Sprintf("it%d", si)
		for p := uint64(0); p < parts; p++ {
			for _, k := range s.Primary[0] {
				put(si, realKey(dmn, k, p, parts))
			}
		}
	}
	// a member joins and the routing table is pushed; nothing moves (the balancer is not run)
	if _, err := c.AddMember(); err != nil {
		t.Fatal(err)
	}
	deadline := time.Now().Add(5 * time.Second)
	for time.Now().Before(deadline) {
		c.Push()
		if len(c.Members[0].Table(parts).Members) == 2 && len(c.Members[1].Table(parts).Members) == 2 {
			break
		}
		time.Sleep(20 * time.Millisecond)
	}
	c.Push()
	tab := c.Members[0].Table(parts)
	moved := map[uint64]bool{}
	for p := uint64(0); p < parts; p++ {
		if len(tab.Owners[p]) == 2 {
			moved[p] = true
		}
	}
	if len(moved) == 0 {
		t.Fatalf("no partition changed its owner: %v", tab.Owners)
	}
	// phase 2: what the new owner of a moved partition holds (same names: rewritten there)
	present := map[int]map[string]bool{}
	for si, s := range scs {
		dmn := fmt.Sprintf("it%d", si)
		present[si] = map[string]bool{}
		for p := uint64(0); p < parts; p++ {
			for _, k := range s.Primary[0] {
				present[si][realKey(dmn, k, p, parts)] = true
			}
			if len(s.Primary) == 2 && moved[p] {
				for _, k := range s.Primary[1] {
					name := realKey(dmn, k, p, parts)
					put(si, name)
					present[si][name] = true
				}
			}
		}
	}
	cc, err := olric.NewClusterClient([]string{c.Members[1].Name})
	if err != nil {
		t.Fatal(err)
	}
	defer cc.Close(ctx)
	evals, nontriv := 0, 0
	var samples []any
	firstMoved := uint64(0)
	for p := uint64(0); p < parts; p++ {
		if moved[p] {
			firstMoved = p
			break
		}
	}
	type result struct {
		si  int
		evs []trace.Ev
	}
	results := make([]result, len(scs))
	var wg sync.WaitGroup
	sem := make(chan struct{}, 96)
	for si, s := range scs {
		wg.Add(1)
		sem <- struct{}{}
		go func(si int, s scenario) {
			defer wg.Done()
			defer func() { <-sem }()
			dmn := fmt.Sprintf("it%d", si)
			want := []string{}
			for k := range present[si] {
				want = append(want, k)
			}
			sort.Strings(want)
			var evs []trace.Ev
			evs = append(evs, trace.Ev{"t": "reset", "seq": si + 1, "cfg": fmt.Sprintf("model scenario count=%d primary=%v refresh-after=%d moved=%d", s.Count, s.Primary, s.After, len(moved))})
			cdm, err := cc.NewDMap(dmn)
			if err != nil {
				panic(err)
			}
			edm, err := c.Members[si%2].DB.NewEmbeddedClient().NewDMap(dmn)
			if err != nil {
				panic(err)
			}
			vias := []string{"cluster-client", "embedded"}
			for vi, dm := range []olric.DMap{cdm, edm} {
				if s.After != 99 && vi != si%2 {
					continue // a paused run costs a second: one client per scenario
				}
				via := vias[vi] + " (fragmented partition, model scenario)"
				it, err := dm.Scan(ctx, olric.Count(s.Count))
				if err != nil {
					evs = append(evs, trace.Ev{"t": "scan", "via": via, "count": s.Count, "pat": "", "want": want, "got": []string{}, "fin": false, "exact": true, "calls": 0, "bound": 0})
					continue
				}
				got := []string{}
				fin := false
				inPart := 0
				prefix := fmt.Sprintf("-%d-", firstMoved)
				paused := false
				for n := 0; n < 10*len(want)+500; n++ {
					// the client re-fetches its routing table every second: wait that long once, after
					// `After` keys of the first partition that has a previous owner
					if !paused && s.After != 99 && inPart == s.After && (s.After > 0 || len(got) > 0 || firstMoved == 0) && (inPart > 0 || startsPartition(got, want, firstMoved, parts, dmn)) {
						time.Sleep(1150 * time.Millisecond)
						paused = true
					}
					if !it.Next() {
						fin = true
						break
					}
					k := it.Key()
					got = append(got, k)
					if strings.Contains(k, prefix) {
						inPart++
					}
				}
				it.Close()
				evs = append(evs, trace.Ev{"t": "scan", "via": via, "count": s.Count, "pat": "", "want": want, "got": got, "fin": fin, "exact": true, "calls": 0, "bound": 0})
			}
			results[si] = result{si, evs}
		}(si, s)
	}
	wg.Wait()
	for si, r := range results {
		for _, e := range r.evs {
			w.Emit(e)
			if e["t"] == "scan" {
				evals++
			}
		}
		s := scs[si]
		if len(s.Primary) == 2 && len(s.Primary[0]) > 0 && len(s.Primary[1]) > 0 {
			nontriv++
		}
		if len(samples) < 2 && len(s.Primary) == 2 && len(s.Primary[1]) == 3 && len(s.Primary[0]) == 1 {
			samples = append(samples, s)
		}
	}
	if err := w.Close(); err != nil {
		t.Fatal(err)
	}
	sum := map[string]any{"evaluations": evals, "distinct_nontrivial": nontriv, "scenarios": len(scs), "moved_partitions": len(moved), "samples": samples}
	b, _ := json.MarshalIndent(sum, "", " ")
	os.WriteFile(filepath.Join(out, "scanmodel.summary.json"), b, 0o644)
}
