//go:build verif

// Package scan iterates DMaps of real clusters to completion - client iterators and raw DM.SCAN
// cursor walks - and logs what was yielded next to what was present (ScanTrace.tla).
package scan

import (
	"context"
	"encoding/json"
	"fmt"
	"math/rand"
	"os"
	"path/filepath"
	"regexp"
	"sort"
	"strings"
	"strconv"
	"testing"
	"time"

	"github.com/olric-data/olric"
	"github.com/olric-data/olric/internal/cluster/partitions"
	"github.com/olric-data/olric/verifharness/cluster"
	"github.com/olric-data/olric/verifharness/trace"
	"github.com/redis/go-redis/v9"
)

func envInt(name string, def int) int {
	if v := os.Getenv(name); v != "" {
		if n, err := strconv.Atoi(v); err == nil {
			return n
		}
	}
	return def
}

type state struct {
	c       *cluster.Cluster
	dm      string
	present map[string]bool
	w       *trace.Writer
	evals   int
	nontriv int
	multi   bool // some fragment spans >= 2 tables or was compacted, or a partition has >= 2 owners
}

func (s *state) want(pat string) []string {
	var re *regexp.Regexp
	if pat != "" {
		re = regexp.MustCompile(pat)
	}
	out := []string{}
	for k := range s.present {
		if re == nil || re.MatchString(k) {
			out = append(out, k)
		}
	}
	sort.Strings(out)
	return out
}

func iterate(it olric.Iterator, limit int) ([]string, bool) {
	got := []string{}
	defer it.Close()
	for n := 0; n < limit; n++ {
		if !it.Next() {
			return got, true
		}
		got = append(got, it.Key())
	}
	return got, false
}

func (s *state) scanVia(name string, dm olric.DMap, count int, pat string) {
	var opts []olric.ScanOption
	if count > 0 {
		opts = append(opts, olric.Count(count))
	}
	if pat != "" {
		opts = append(opts, olric.Match(pat))
	}
	it, err := dm.Scan(context.Background(), opts...)
	s.evals++
	if err != nil {
		s.w.Emit(trace.Ev{"t": "scan", "via": name, "count": count, "pat": pat, "want": s.want(pat), "got": []string{}, "fin": false,
			"exact": true, "calls": 0, "bound": 0, "detail": err.Error()})
		return
	}
	got, fin := iterate(it, 10*len(s.present)+1000)
	s.w.Emit(trace.Ev{"t": "scan", "via": name, "count": count, "pat": pat, "want": s.want(pat), "got": got, "fin": fin,
		"exact": true, "calls": 0, "bound": 0})
	if s.multi {
		s.nontriv++
	}
}

// rawWalk walks the cursors of DM.SCAN for one partition on one owner.
func (s *state) rawWalk(m *cluster.Member, partID uint64, replica bool, count int, pat string, keysOfPart map[string]bool) {
	rc := redis.NewClient(&redis.Options{Addr: m.Name, MaxRetries: -1})
	defer rc.Close()
	ctx := context.Background()
	got := []string{}
	cursor := "0"
	calls, fin := 0, false
	kind := partitions.PRIMARY
	if replica {
		kind = partitions.BACKUP
	}
	st, _ := m.V.DMap.VerifStats(s.dm, partID, kind)
	bound := st.Length + st.NumTables + 2
	for calls < bound+50 {
		args := []any{"dm.scan", partID, s.dm, cursor}
		if pat != "" {
			args = append(args, "MATCH", pat)
		}
		if count > 0 {
			args = append(args, "COUNT", count)
		}
		if replica {
			args = append(args, "RC")
		}
		res, err := rc.Do(ctx, args...).Slice()
		calls++
		if err != nil || len(res) != 2 {
			break
		}
		cursor = fmt.Sprint(res[0])
		if ks, ok := res[1].([]any); ok {
			for _, k := range ks {
				got = append(got, fmt.Sprint(k))
			}
		}
		if cursor == "0" {
			fin = true
			break
		}
	}
	var re *regexp.Regexp
	if pat != "" {
		re = regexp.MustCompile(pat)
	}
	want := []string{}
	for k := range keysOfPart {
		if re == nil || re.MatchString(k) {
			want = append(want, k)
		}
	}
	sort.Strings(want)
	s.evals++
	via := fmt.Sprintf("raw part=%d member=%d replica=%v", partID, m.Index, replica)
	s.w.Emit(trace.Ev{"t": "scan", "via": via, "count": count, "pat": pat, "want": want, "got": got, "fin": fin, "exact": false,
		"calls": calls, "bound": bound})
	if st.NumTables >= 2 {
		s.nontriv++
	}
}

// busyScans: iterations whose pages alternate with other work on the DMap - compaction of every fragment, writes of new keys,
// overwrites and deletes of "victim" keys.  The keys that are present and untouched all the time must be yielded (the
// statement: "every key that was present during the whole iteration"), nothing may be yielded that was never stored.
func (s *state) busyScans(rng *rand.Rand, label string, put, del func(k string)) {
	c := s.c
	ctx := context.Background()
	var stable, victims []string
	for k := range s.present {
		if rng.Intn(4) == 0 {
			victims = append(victims, k)
		} else {
			stable = append(stable, k)
		}
	}
	sort.Strings(stable)
	sort.Strings(victims)
	may := map[string]bool{}
	for k := range s.present {
		may[k] = true
	}
	fresh := 0
	work := func() {
		switch rng.Intn(4) {
		case 0:
			for _, m := range c.Live() {
				for p := uint64(0); p < c.Opts.Partitions; p++ {
					m.V.DMap.VerifCompact(s.dm, p, partitions.PRIMARY)
					m.V.DMap.VerifCompact(s.dm, p, partitions.BACKUP)
				}
			}
		case 1:
			fresh++
			k := fmt.Sprintf("busy-%s-%d", strings.ReplaceAll(label, " ", "_"), fresh)
			may[k] = true
			put(k)
		case 2:
			if len(victims) > 0 {
				put(victims[rng.Intn(len(victims))]) // overwrite: the entry moves to the newest table
			}
		default:
			if len(victims) > 0 {
				del(victims[rng.Intn(len(victims))])
			}
		}
	}
	mayList := func() []string {
		out := []string{}
		for k := range may {
			out = append(out, k)
		}
		sort.Strings(out)
		return out
	}
	emb := c.Live()[rng.Intn(len(c.Live()))]
	edm, err := emb.DB.NewEmbeddedClient().NewDMap(s.dm)
	if err != nil {
		panic(err)
	}
	cc, err := olric.NewClusterClient([]string{c.Live()[0].Name})
	if err != nil {
		panic(err)
	}
	defer cc.Close(ctx)
	cdm, err := cc.NewDMap(s.dm)
	if err != nil {
		panic(err)
	}
	for _, via := range []struct {
		name string
		dm   olric.DMap
	}{{"embedded@" + strconv.Itoa(emb.Index), edm}, {"cluster-client", cdm}} {
		for _, cnt := range []int{1, 3, 10} {
			it, err := via.dm.Scan(ctx, olric.Count(cnt))
			if err != nil {
				continue
			}
			got, fin := []string{}, false
			for n := 0; n < 20*len(may)+2000; n++ {
				if !it.Next() {
					fin = true
					break
				}
				got = append(got, it.Key())
				if n%cnt == cnt-1 && rng.Intn(3) == 0 {
					work()
				}
			}
			it.Close()
			s.evals++
			s.w.Emit(trace.Ev{"t": "busyscan", "via": via.name + " " + label, "count": cnt, "stable": stable, "may": mayList(), "got": got, "fin": fin})
			s.nontriv++
		}
	}
	// raw cursor walks of the primary fragments, work between the pages
	rc := map[int]*redis.Client{}
	for _, m := range c.Live() {
		rc[m.Index] = redis.NewClient(&redis.Options{Addr: m.Name, MaxRetries: -1})
		defer rc[m.Index].Close()
	}
	for p := uint64(0); p < c.Opts.Partitions; p++ {
		for _, m := range c.Live() {
			if !m.V.DMap.VerifHasFragment(s.dm, p, partitions.PRIMARY) {
				continue
			}
			// the keys of this fragment that stay: stable keys it holds now
			held := s.fragmentKeys(m, p, partitions.PRIMARY)
			st := []string{}
			for _, k := range stable {
				if held[k] {
					st = append(st, k)
				}
			}
			cnt := []int{1, 2, 3, 10}[rng.Intn(4)]
			got, cursor, fin := []string{}, "0", false
			for calls := 0; calls < 20*len(may)+2000; calls++ {
				res, err := rc[m.Index].Do(ctx, "dm.scan", p, s.dm, cursor, "COUNT", cnt).Slice()
				if err != nil || len(res) != 2 {
					break
				}
				cursor = fmt.Sprint(res[0])
				if ks, ok := res[1].([]any); ok {
					for _, k := range ks {
						got = append(got, fmt.Sprint(k))
					}
				}
				if cursor == "0" {
					fin = true
					break
				}
				if rng.Intn(2) == 0 {
					work()
				}
			}
			s.evals++
			s.w.Emit(trace.Ev{"t": "busyscan", "via": fmt.Sprintf("raw part=%d member=%d %s", p, m.Index, label), "count": cnt, "stable": st, "may": mayList(), "got": got, "fin": fin})
		}
	}
}

// copiesByMember returns, for one partition, the keys each member's fragment of the given kind holds.
func (s *state) fragmentKeys(m *cluster.Member, partID uint64, kind partitions.Kind) map[string]bool {
	out := map[string]bool{}
	for _, e := range m.V.DMap.VerifEntries(s.dm, partID, kind) {
		out[e.Key] = true
	}
	return out
}

func (s *state) allScans(rng *rand.Rand, label string) {
	c := s.c
	counts := []int{1, 2, 3, 10, 0, 1000}
	pats := []string{"", "^k1", "^nomatch", "5$"}
	emb := c.Live()[rng.Intn(len(c.Live()))]
	edm, err := emb.DB.NewEmbeddedClient().NewDMap(s.dm)
	if err != nil {
		panic(err)
	}
	cc, err := olric.NewClusterClient([]string{c.Live()[0].Name})
	if err != nil {
		panic(err)
	}
	defer cc.Close(context.Background())
	cdm, err := cc.NewDMap(s.dm)
	if err != nil {
		panic(err)
	}
	for _, cnt := range counts {
		pat := pats[rng.Intn(len(pats))]
		if cnt == 1 || cnt == 0 {
			pat = ""
		}
		s.scanVia("embedded@"+strconv.Itoa(emb.Index)+" "+label, edm, cnt, pat)
		s.scanVia("cluster-client "+label, cdm, cnt, pat)
	}
	// raw cursor walks on every fragment that exists
	for p := uint64(0); p < c.Opts.Partitions; p++ {
		for _, m := range c.Live() {
			for _, replica := range []bool{false, true} {
				kind := partitions.PRIMARY
				if replica {
					kind = partitions.BACKUP
				}
				if !m.V.DMap.VerifHasFragment(s.dm, p, kind) {
					continue
				}
				keys := s.fragmentKeys(m, p, kind)
				cnt := counts[rng.Intn(4)]
				pat := pats[rng.Intn(len(pats))]
				s.rawWalk(m, p, replica, cnt, pat, keys)
			}
		}
	}
}

// TestScan is the driver.
func TestScan(t *testing.T) {
	out := os.Getenv("VERIF_OUT")
	if out == "" {
		t.Skip("VERIF_OUT not set")
	}
	rng := rand.New(rand.NewSource(int64(envInt("VERIF_SEED", 1))))
	rounds := envInt("VERIF_ROUNDS", 1)
	w, err := trace.New(filepath.Join(out, "scan.ndjson"))
	if err != nil {
		t.Fatal(err)
	}
	ctx := context.Background()
	seq := 0
	evals, nontriv := 0, 0
	var configs []string
	var samples []any
	type cfg struct {
		N, R, T, Keys int
		Fragmented    bool
	}
	cfgs := []cfg{{1, 1, 0, 0, false}, {1, 1, 512, 60, false}, {3, 1, 0, 120, false}, {3, 2, 1024, 150, false}, {2, 1, 512, 80, true}, {3, 2, 512, 90, true}, {2, 2, 0, 1, false},
		{2, 1, 0, 10, true}, {3, 1, 512, 16, true}, {2, 1, 0, 24, true}}
	for r := 0; r < rounds; r++ {
		for _, cf := range cfgs {
			n0 := cf.N
			if cf.Fragmented {
				n0 = cf.N - 1
			}
			c, err := cluster.Start(cluster.Options{Replicas: cf.R, Partitions: 7, TableSize: cf.T, Manual: true}, n0)
			if err != nil {
				t.Fatal(err)
			}
			label := fmt.Sprintf("N=%d R=%d T=%d keys=%d fragmented=%v", cf.N, cf.R, cf.T, cf.Keys, cf.Fragmented)
			configs = append(configs, label)
			s := &state{c: c, dm: "scan", present: map[string]bool{}, w: w, multi: cf.T > 0 || cf.Fragmented}
			seq++
			w.Emit(trace.Ev{"t": "reset", "seq": seq, "cfg": label})
			dm, err := c.Members[0].DB.NewEmbeddedClient().NewDMap("scan")
			if err != nil {
				t.Fatal(err)
			}
			nkeys := cf.Keys
			if r > 0 && nkeys > 1 {
				nkeys = 1 + rng.Intn(300)
			}
			put := func(k string) {
				if err := dm.Put(ctx, k, fmt.Sprintf("%040d", rng.Intn(1000))); err != nil {
					t.Fatalf("put: %v", err)
				}
				s.present[k] = true
			}
			del := func(k string) {
				if _, err := dm.Delete(ctx, k); err != nil {
					t.Fatalf("delete: %v", err)
				}
				delete(s.present, k)
			}
			for i := 0; i < nkeys; i++ {
				put(fmt.Sprintf("k%d", i))
			}
			s.allScans(rng, "after inserts")
			// a history that shapes the tables: overwrites, deletes, compaction
			for i := 0; i < nkeys; i++ {
				switch rng.Intn(4) {
				case 0:
					put(fmt.Sprintf("k%d", i))
				case 1:
					del(fmt.Sprintf("k%d", i))
				}
			}
			for i := 0; i < nkeys/3; i++ {
				put(fmt.Sprintf("k%d", nkeys+i))
			}
			s.allScans(rng, "after overwrites and deletes")
			if cf.T > 0 {
				for _, m := range c.Live() {
					for p := uint64(0); p < 7; p++ {
						m.V.DMap.VerifCompact("scan", p, partitions.PRIMARY)
						m.V.DMap.VerifCompact("scan", p, partitions.BACKUP)
					}
				}
				s.allScans(rng, "after compaction")
				for i := 0; i < nkeys/2; i++ {
					if rng.Intn(2) == 0 {
						put(fmt.Sprintf("k%d", rng.Intn(nkeys+1)))
					} else {
						del(fmt.Sprintf("k%d", rng.Intn(nkeys+1)))
					}
				}
				s.allScans(rng, "after more churn")
				s.busyScans(rng, "busy", put, del)
				s.allScans(rng, "after the busy iterations")
			}
			if cf.Fragmented {
				// a member joins; the routing table is pushed but no fragment has moved yet: partitions with
				// a previous owner that still holds the data
				if _, err := c.AddMember(); err != nil {
					t.Fatal(err)
				}
				deadline := time.Now().Add(5 * time.Second)
				for time.Now().Before(deadline) {
					c.Push()
					ok := true
					for _, m := range c.Live() {
						if len(m.Table(7).Members) != len(c.Live()) {
							ok = false
						}
					}
					if ok {
						break
					}
					time.Sleep(30 * time.Millisecond)
				}
				c.Push()
				s.allScans(rng, "previous owners hold data")
				for i := 0; i < 30; i++ {
					put(fmt.Sprintf("k%d", nkeys*2+i)) // lands on the new owners
				}
				s.allScans(rng, "data on previous and new owners")
				// new keys and rewrites of old keys interleaved: the new owner's fragment then holds, in its
				// own scan order, keys whose old version is still on the previous owner
				for i := 0; i < nkeys+20; i++ {
					if rng.Intn(2) == 0 {
						put(fmt.Sprintf("k%d", rng.Intn(nkeys+1)))
					} else {
						put(fmt.Sprintf("k%d", nkeys*3+i))
					}
				}
				s.allScans(rng, "keys rewritten on the new owner")
				for mv := 1; mv <= 3; mv++ {
					c.Balance() // one table per fragment moves
					s.allScans(rng, fmt.Sprintf("after table move %d", mv))
				}
				if err := c.WaitStable(10*time.Second, true); err != nil {
					t.Fatal(err)
				}
				s.allScans(rng, "after the hand-over")
			}
			evals += s.evals
			nontriv += s.nontriv
			if len(samples) < 2 && len(s.present) > 0 && len(s.present) < 40 {
				samples = append(samples, map[string]any{"cfg": label, "present": s.want("")})
			}
			c.ShutdownAsync()
		}
	}
	cluster.WaitBackground(15 * time.Second)
	if err := w.Close(); err != nil {
		t.Fatal(err)
	}
	if len(samples) == 0 {
		samples = append(samples, map[string]any{"cfg": configs[0]})
	}
	sum := map[string]any{"evaluations": evals, "distinct_nontrivial": nontriv, "configs": configs, "samples": samples}
	b, _ := json.MarshalIndent(sum, "", " ")
	os.WriteFile(filepath.Join(out, "scan.summary.json"), b, 0o644)
}
