//go:build verif

// Package sched drives the trace/gate points that olric exposes under the "verif" build tag
// (internal/verifhook).  It can delay goroutines at chosen points (seeded), hold the n-th
// arrival at a point until the driver releases it, and run a callback at a point (crash
// injection).  It never changes what the code computes: it only decides when a goroutine
// that reached a point continues.
package sched

import (
	"bytes"
	"math/rand"
	"runtime"
	"strconv"
	"strings"
	"sync"
	"sync/atomic"
	"time"

	"github.com/olric-data/olric/internal/verifhook"
)

// Rule delays arrivals at every point whose name has the given prefix.
type Rule struct {
	Prefix string
	Prob   float64       // probability that an arrival is delayed
	Max    time.Duration // delay is uniform in (0, Max]
}

// Gate holds one arrival at a point.
type Gate struct {
	point   string
	match   func(kv []any) bool
	skip    int
	arrived chan []any
	release chan struct{}
	once    sync.Once
	fn      func(kv []any)
	taken   bool
}

// Arrived is closed over: it delivers the arguments of the held arrival.
func (g *Gate) Arrived() <-chan []any { return g.arrived }

// Release lets the held goroutine continue (idempotent; also disarms the gate).
func (g *Gate) Release() { g.once.Do(func() { close(g.release) }) }

// WaitArrived waits for the arrival.
func (g *Gate) WaitArrived(d time.Duration) ([]any, bool) {
	select {
	case kv := <-g.arrived:
		return kv, true
	case <-time.After(d):
		return nil, false
	}
}

// Controller is the installed handler.
type Controller struct {
	mu     sync.Mutex
	rng    *rand.Rand
	rules  []Rule
	gates  []*Gate
	counts map[string]int
	delays int
	rec    *Recording
	recOn  atomic.Bool
}

// Event is one arrival at a point: its position in the order in which the arrivals were registered (under the controller's
// mutex, i.e. while the goroutine still holds whatever lock protects the change the point names), the goroutine, the
// point and its arguments.
type Event struct {
	Seq   int
	G     int64
	Point string
	KV    []any
}

// Recording collects the arrivals that match a filter.
type Recording struct {
	match  func(point string, kv []any) bool
	Events []Event
}

// Record starts recording (replacing an earlier recording); Stop returns what was recorded.
func (c *Controller) Record(match func(point string, kv []any) bool) {
	c.mu.Lock()
	c.rec = &Recording{match: match}
	c.recOn.Store(true)
	c.mu.Unlock()
}

func (c *Controller) Stop() []Event {
	c.mu.Lock()
	defer c.mu.Unlock()
	if c.rec == nil {
		return nil
	}
	evs := c.rec.Events
	c.rec = nil
	c.recOn.Store(false)
	return evs
}

// goid is the id of the calling goroutine (ids are never re-used within a process).
func goid() int64 {
	var buf [64]byte
	b := buf[:runtime.Stack(buf[:], false)]
	b = bytes.TrimPrefix(b, []byte("goroutine "))
	if i := bytes.IndexByte(b, ' '); i > 0 {
		n, _ := strconv.ParseInt(string(b[:i]), 10, 64)
		return n
	}
	return 0
}

var (
	instMu sync.Mutex
	inst   *Controller
)

// Install installs (once per process) the controller and returns it.
func Install(seed int64) *Controller {
	instMu.Lock()
	defer instMu.Unlock()
	if inst == nil {
		inst = &Controller{rng: rand.New(rand.NewSource(seed)), counts: map[string]int{}}
		verifhook.Install(inst.handle)
	}
	return inst
}

func (c *Controller) handle(point string, kv []any) {
	var g int64
	if c.recOn.Load() { // the stack walk is not free
		g = goid()
	}
	c.mu.Lock()
	c.counts[point]++
	if c.rec != nil && (c.rec.match == nil || c.rec.match(point, kv)) {
		c.rec.Events = append(c.rec.Events, Event{Seq: len(c.rec.Events) + 1, G: g, Point: point, KV: append([]any(nil), kv...)})
	}
	var gt *Gate
	for _, x := range c.gates {
		if x.taken || x.point != point || (x.match != nil && !x.match(kv)) {
			continue
		}
		if x.skip > 0 {
			x.skip--
			continue
		}
		x.taken = true
		gt = x
		break
	}
	var d time.Duration
	if gt == nil {
		for _, r := range c.rules {
			if strings.HasPrefix(point, r.Prefix) && c.rng.Float64() < r.Prob {
				d = time.Duration(1 + c.rng.Int63n(int64(r.Max)))
				c.delays++
				break
			}
		}
	}
	c.mu.Unlock()
	if gt != nil {
		cp := append([]any(nil), kv...)
		select {
		case gt.arrived <- cp:
		default:
		}
		if gt.fn != nil {
			gt.fn(cp)
		}
		<-gt.release
		return
	}
	if d > 0 {
		time.Sleep(d)
	}
}

// Delays replaces the delay rules.
func (c *Controller) Delays(rules ...Rule) {
	c.mu.Lock()
	c.rules = append([]Rule(nil), rules...)
	c.mu.Unlock()
}

// Hold arms a gate: the (skip+1)-th matching arrival at point blocks until Release.
func (c *Controller) Hold(point string, skip int, match func(kv []any) bool) *Gate {
	g := &Gate{point: point, match: match, skip: skip, arrived: make(chan []any, 1), release: make(chan struct{})}
	c.mu.Lock()
	c.gates = append(c.gates, g)
	c.mu.Unlock()
	return g
}

// HoldFn is Hold with a callback that runs in the held goroutine before it blocks.
func (c *Controller) HoldFn(point string, skip int, match func(kv []any) bool, fn func(kv []any)) *Gate {
	g := c.Hold(point, skip, match)
	g.fn = fn
	return g
}

// Reset releases every gate and removes gates and rules.
func (c *Controller) Reset() {
	c.mu.Lock()
	gs := c.gates
	c.gates = nil
	c.rules = nil
	c.mu.Unlock()
	for _, g := range gs {
		g.Release()
	}
}

// Counts returns how often each point was reached, and the number of injected delays.
func (c *Controller) Counts() (map[string]int, int) {
	c.mu.Lock()
	defer c.mu.Unlock()
	m := map[string]int{}
	for k, v := range c.counts {
		m[k] = v
	}
	return m, c.delays
}

// KeyIs matches arrivals whose arguments are (dmap, key, ...).
func KeyIs(dmap, key string) func(kv []any) bool {
	return func(kv []any) bool {
		if len(kv) < 2 {
			return false
		}
		a, _ := kv[0].(string)
		b, _ := kv[1].(string)
		return a == dmap && b == key
	}
}
