// Package trace writes NDJSON traces for TLC.  TLC's integers are 32 bit: the writer refuses
// any integer outside of that range instead of letting ndJsonDeserialize wrap it silently.
package trace

import (
	"bufio"
	"bytes"
	"encoding/json"
	"fmt"
	"os"
	"sync"
)

type Ev map[string]any

type Writer struct {
	mu    sync.Mutex
	f     *os.File
	w     *bufio.Writer
	Lines int
}

func New(path string) (*Writer, error) {
	f, err := os.Create(path)
	if err != nil {
		return nil, err
	}
	return &Writer{f: f, w: bufio.NewWriterSize(f, 1<<20)}, nil
}

func checkInts(v any) error {
	switch x := v.(type) {
	case int:
		if x > 2147483647 || x < -2147483648 {
			return fmt.Errorf("integer %d does not fit TLC", x)
		}
	case int64:
		if x > 2147483647 || x < -2147483648 {
			return fmt.Errorf("integer %d does not fit TLC", x)
		}
	case uint64:
		if x > 2147483647 {
			return fmt.Errorf("integer %d does not fit TLC", x)
		}
	case float64, float32:
		return fmt.Errorf("float %v in trace", x)
	case map[string]any:
		for _, e := range x {
			if err := checkInts(e); err != nil {
				return err
			}
		}
	case Ev:
		for _, e := range x {
			if err := checkInts(e); err != nil {
				return err
			}
		}
	case []any:
		for _, e := range x {
			if err := checkInts(e); err != nil {
				return err
			}
		}
	case []Ev:
		for _, e := range x {
			if err := checkInts(e); err != nil {
				return err
			}
		}
	case []int:
		for _, e := range x {
			if err := checkInts(e); err != nil {
				return err
			}
		}
	}
	return nil
}

// Emit appends one event.  It panics on an integer TLC cannot represent: that is a bug of the
// driver, never a property violation.
func (t *Writer) Emit(e Ev) {
	if err := checkInts(e); err != nil {
		panic("verif/trace: " + err.Error())
	}
	b, err := json.Marshal(e)
	if err != nil {
		panic("verif/trace: " + err.Error())
	}
	if bytes.Contains(b, []byte(":null")) || bytes.Contains(b, []byte("[null")) || bytes.Contains(b, []byte(",null")) {
		panic("verif/trace: null in event (nil slice or map?): " + string(b))
	}
	t.mu.Lock()
	t.w.Write(b)
	t.w.WriteByte('\n')
	t.Lines++
	t.mu.Unlock()
}

// Raw appends already encoded lines (traces recorded by parallel scenarios into their own files).
func (t *Writer) Raw(b []byte) {
	t.mu.Lock()
	defer t.mu.Unlock()
	t.w.Write(b)
	t.Lines += bytes.Count(b, []byte("\n"))
}

func (t *Writer) Close() error {
	t.mu.Lock()
	defer t.mu.Unlock()
	if err := t.w.Flush(); err != nil {
		return err
	}
	return t.f.Close()
}
