SPECIFICATION Spec
CONSTANTS
  Clients = {"a", "b", "c"}
  Entry <- EntryMap
  Delta <- DeltaMap
  Calls = 2
  OwnerLock = TRUE
  Kind = "incr"
INVARIANTS NoLostUpdate SingleChain
CHECK_DEADLOCK FALSE
