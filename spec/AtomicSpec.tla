---------------------------- MODULE AtomicSpec ----------------------------
(* C07 at the design level: Incr/Decr/IncrByFloat and GetPut are read-modify-write sequences
   (internal/dmap atomic.go): take a fine-grained lock named after the key, Get, compute, Put, release.
   OwnerLock = TRUE: the call is forwarded to the partition owner and the lock lives there (the code as
   repaired, D14).  OwnerLock = FALSE: the lock lives on the member the call entered through (the code as
   found): callers on different members do not exclude each other - configuration AtomicSpec_old.cfg is
   expected to violate NoLostUpdate.

   Each client runs Calls calls; Kind = "incr" adds Delta[c], Kind = "getput" swaps in a fresh value and returns
   the old one. *)
EXTENDS Naturals, FiniteSets, Sequences, TLC

CONSTANTS Clients, Entry, Calls, Delta, OwnerLock, Kind
\* Entry[c] : the member through which client c calls;  Delta[c] : its increment

VARIABLES val, locks, pc, seen, done, rets, fresh
vars == <<val, locks, pc, seen, done, rets, fresh>>

LockOf(c) == IF OwnerLock THEN "owner" ELSE Entry[c]
Init == /\ val = 0 /\ locks = {} /\ pc = [c \in Clients |-> "idle"] /\ seen = [c \in Clients |-> 0]
        /\ done = [c \in Clients |-> 0] /\ rets = <<>> /\ fresh = 100

Acquire(c) == /\ pc[c] = "idle" /\ done[c] < Calls /\ LockOf(c) \notin locks
              /\ locks' = locks \cup {LockOf(c)} /\ pc' = [pc EXCEPT ![c] = "locked"]
              /\ UNCHANGED <<val, seen, done, rets, fresh>>
\* [atomic.read]
Read(c) == /\ pc[c] = "locked" /\ seen' = [seen EXCEPT ![c] = val] /\ pc' = [pc EXCEPT ![c] = "read"]
           /\ UNCHANGED <<val, locks, done, rets, fresh>>
Write(c) == /\ pc[c] = "read"
            /\ IF Kind = "incr"
               THEN /\ val' = seen[c] + Delta[c] /\ rets' = Append(rets, seen[c] + Delta[c]) /\ fresh' = fresh
               ELSE /\ val' = fresh /\ rets' = Append(rets, seen[c]) /\ fresh' = fresh + 1
            /\ locks' = locks \ {LockOf(c)} /\ pc' = [pc EXCEPT ![c] = "idle"]
            /\ done' = [done EXCEPT ![c] = @ + 1] /\ UNCHANGED seen
Next == \E c \in Clients : Acquire(c) \/ Read(c) \/ Write(c)
Spec == Init /\ [][Next]_vars

Quiescent == \A c \in Clients : pc[c] = "idle" /\ done[c] = Calls
RECURSIVE Sum(_)
Sum(S) == IF S = {} THEN 0 ELSE LET c == CHOOSE c \in S : TRUE IN Calls * Delta[c] + Sum(S \ {c})
\* no acknowledged delta is lost; the returned values are pairwise different (each call saw exactly the calls before it)
NoLostUpdate == (Quiescent /\ Kind = "incr") => (val = Sum(Clients) /\ Cardinality({rets[i] : i \in 1..Len(rets)}) = Len(rets))
\* GetPut: a single chain - no old value is returned twice
SingleChain == (Kind = "getput") => Cardinality({rets[i] : i \in 1..Len(rets)}) = Len(rets)
=============================================================================
