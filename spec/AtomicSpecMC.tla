---- MODULE AtomicSpecMC ----
EXTENDS AtomicSpec
EntryMap == [c \in {"a", "b", "c"} |-> CASE c = "a" -> "m1" [] c = "b" -> "m1" [] c = "c" -> "m2"]
DeltaMap == [c \in {"a", "b", "c"} |-> CASE c = "a" -> 1 [] c = "b" -> 2 [] c = "c" -> 4]
====
