SPECIFICATION Spec
CONSTANTS
  Clients = {"a", "b", "c"}
  Entry <- EntryMap
  Delta <- DeltaMap
  Calls = 2
  OwnerLock = FALSE
  Kind = "incr"
INVARIANTS NoLostUpdate SingleChain
CHECK_DEADLOCK FALSE
