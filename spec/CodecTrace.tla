---------------------------- MODULE CodecTrace ----------------------------
(* C17: values and keys read back identical; oversize input is rejected.

   rt    a value of a supported type was written and read back into the same type through some
         client, directly, after migration to a joined member, and after the loss of a member:
         the canonical rendering read back must equal the one written
   size  the size-class machine: a key longer than the maximum is rejected with key-too-large, an
         entry that cannot fit a storage table with entry-too-large, anything else is stored; the
         neighbours written before are unharmed
   TLA+ contributes equality on opaque renderings and the size classes; the concrete values come from
   the Go driver (DESIGN.md section 9). *)
EXTENDS Integers, Sequences, TLC, Json

CONSTANTS TraceFile
Trace == ndJsonDeserialize(TraceFile)
VARIABLES i, err, seq
vars == <<i, err, seq>>
Ev == Trace[i]
Fail(msg) == /\ err' = IF err = "" THEN msg ELSE err
             /\ PrintT("FAIL|" \o ToString(seq) \o "|" \o ToString(i) \o "|" \o msg)
Ok == err' = err

MaxKey == 255
\* size class of a Put: what the reply must be
SizeClass(klen, esize, T) == IF klen > MaxKey + 1 THEN {"keytoolarge"}
                             ELSE IF klen = MaxKey + 1 THEN {"keytoolarge", "ok"}      \* the documented limit is ambiguous by one
                             ELSE IF esize >= T THEN {"entrytoolarge"}
                             ELSE {"ok"}

Reset == Ev.t = "reset" /\ seq' = Ev.seq /\ err' = ""
Rt == /\ Ev.t = "rt" /\ seq' = Ev.n
      /\ IF Ev.ret # "ok" THEN Fail("round trip failed (" \o Ev.ret \o ") for " \o Ev.type \o " at stage " \o Ev.stage)
         ELSE IF Ev.outv # Ev.inv THEN Fail("value read back differs for " \o Ev.type \o " at stage " \o Ev.stage \o " via " \o Ev.path)
         ELSE Ok
Size == /\ Ev.t = "size" /\ seq' = Ev.n
        /\ IF Ev.ret \notin SizeClass(Ev.klen, Ev.esize, Ev.T) THEN Fail("size class violated: reply " \o Ev.ret)
           ELSE IF Ev.ret = "ok" /\ ~Ev.readback THEN Fail("an accepted entry does not read back")
           ELSE IF Ev.ret = "ok" /\ Ev.copies # Ev.R THEN Fail("an accepted entry is not held, equal, by the owner and every backup")
           ELSE IF Ev.ret # "ok" /\ Ev.stored THEN Fail("a rejected entry left a copy behind")
           ELSE IF ~Ev.neighbours THEN Fail("a neighbour was damaged")
           ELSE Ok
Next == i <= Len(Trace) /\ i' = i + 1 /\ (Reset \/ Rt \/ Size)
Spec == i = 1 /\ err = "" /\ seq = 0 /\ [][Next]_vars
=============================================================================
