SPECIFICATION Spec
CONSTANTS
  TS = {1, 2, 3}
  MaxFrags = 3
INVARIANTS NewestWins RepairTargets
CHECK_DEADLOCK FALSE
