---------------------------- MODULE Conflict ----------------------------
(* C06: conflicting copies resolve to the newest write.

   Closed, exhaustively enumerated: one key with copies on the primary owner (A), one previous
   owner (X) and two backup owners (Y, Z); each copy is missing or carries a write timestamp in TS
   and a value that names where it sits (so ties carry different values).
     NewestWins     what a read may return: a copy of maximal timestamp (any on a tie), not-found iff
                    there is no copy - checked against the code's algorithm (collect, sort descending
                    with an arbitrary order among equals, take the first)
     RepairTargets  with read-repair one read leaves the owner's copy and every backup that held a
                    copy with another timestamp at the newest version; other copies are unconstrained
     Merge*         importing fragments keeps, per key, a copy of maximal timestamp whatever the
                    arrival order and however often a fragment is re-delivered *)
EXTENDS Naturals, Sequences, FiniteSets, TLC, SequencesExt, FiniteSetsExt

CONSTANTS TS, MaxFrags

Pos == {"A", "X", "Y", "Z"}
None == [ts |-> 0, val |-> "none"]
Copy(p, t) == [ts |-> t, val |-> p \o ToString(t)]

\* ---- abstract rules (also used by ConflictTrace.tla) ----
MaxTs(S) == IF S = {} THEN 0 ELSE Max({c.ts : c \in S})
Newest(S) == {c \in S : c.ts = MaxTs(S)}
\* replies a read may give for the set S of existing copies
ReadMay(S) == IF S = {} THEN {"notfound"} ELSE {c.val : c \in Newest(S)}

VARIABLES lay, frags, phase
vars == <<lay, frags, phase>>
Present(l) == {l[p] : p \in {q \in Pos : l[q].ts # 0}}

\* fragments: each maps the two keys to a copy or None; values name the fragment
Keys == {"k1", "k2"}
FragSet == [Keys -> {None} \cup {[ts |-> t, val |-> "f"] : t \in TS}]
Init == /\ lay \in [Pos -> {None} \cup UNION {{Copy(p, t) : t \in TS} : p \in Pos}]
        /\ \A p \in Pos : lay[p].ts # 0 => lay[p].val = p \o ToString(lay[p].ts)
        /\ frags = <<>>                                            \* fragments are explored by ConflictMerge
        /\ phase = "init"
Next == phase = "init" /\ phase' = "done" /\ UNCHANGED <<lay, frags>>
Spec == Init /\ [][Next]_vars

\* the code: versions in collection order A, X, Y, Z; any total order that sorts by timestamp descending
CodeRead(l) == LET vs == Present(l) IN
               IF vs = {} THEN {"notfound"} ELSE {c.val : c \in {x \in vs : \A y \in vs : y.ts <= x.ts}}
NewestWins == CodeRead(lay) \subseteq ReadMay(Present(lay)) /\ CodeRead(lay) # {}

\* read repair (get.go readRepair): every collected version whose timestamp differs from the winner's is
\* overwritten with the winner; the owner's slot is always collected (nil entry = missing)
Repaired(l, w) == [p \in Pos |-> IF p = "A" THEN (IF l[p].ts = w.ts THEN l[p] ELSE w)
                                 ELSE IF p \in {"Y", "Z"} /\ l[p].ts # 0 /\ l[p].ts # w.ts THEN w
                                 ELSE l[p]]
RepairTargets == \A w \in Newest(Present(lay)) :
                    LET r == Repaired(lay, w) IN
                    /\ r["A"].ts = MaxTs(Present(lay))
                    /\ \A p \in {"Y", "Z"} : (lay[p].ts # 0 /\ lay[p].ts # MaxTs(Present(lay))) => r[p] = w

\* ---- merge ----
MergeEntry(cur, inc) == IF inc.ts = 0 THEN {cur} ELSE IF cur.ts = 0 THEN {inc}
                        ELSE IF inc.ts > cur.ts THEN {inc} ELSE IF inc.ts < cur.ts THEN {cur} ELSE {cur, inc}
\* all results of importing fragment f into store s (ties may go either way)
MergeFrag(s, f) == {g \in [Keys -> UNION {MergeEntry(s[k], f[k]) : k \in Keys}] : \A k \in Keys : g[k] \in MergeEntry(s[k], f[k])}
RECURSIVE MergeAll(_, _)
MergeAll(S, fs) == IF fs = <<>> THEN S ELSE MergeAll(UNION {MergeFrag(s, Head(fs)) : s \in S}, Tail(fs))
Empty == [k \in Keys |-> None]
\* abstract result: per key a copy of maximal timestamp among the delivered fragments
MergeMay(F, g) == \A k \in Keys : LET S == {f[k] : f \in F} \ {None} IN
                     IF S = {} THEN g[k] = None ELSE g[k].ts = MaxTs(S)
=============================================================================
