SPECIFICATION MSpec
CONSTANTS
  TS = {1, 2}
  MaxFrags = 3
INVARIANT MergeOrderIndependent
CHECK_DEADLOCK FALSE
