---------------------------- MODULE ConflictMerge ----------------------------
(* Merge half of C06: every delivery sequence (any order, one fragment re-delivered) of up to MaxFrags
   fragments leaves per key a copy of maximal timestamp. *)
EXTENDS Conflict
VARIABLES fs, ph2
Frag(i, t1, t2) == [k \in Keys |-> IF k = "k1" THEN (IF t1 = 0 THEN None ELSE [ts |-> t1, val |-> "f" \o ToString(i)])
                                           ELSE (IF t2 = 0 THEN None ELSE [ts |-> t2, val |-> "f" \o ToString(i)])]
MInit == /\ \E n \in 1..MaxFrags : \E t \in [1..n -> (TS \cup {0}) \X (TS \cup {0})] :
              LET base == [i \in 1..n |-> Frag(i, t[i][1], t[i][2])] IN
              \E perm \in Permutations(1..n) : \E rep \in 0..n :
                 fs = [j \in 1..n |-> base[perm[j]]] \o (IF rep = 0 THEN <<>> ELSE <<base[rep]>>)
         /\ ph2 = "init" /\ lay = [p \in Pos |-> None] /\ frags = <<>> /\ phase = "init"
MNext == ph2 = "init" /\ ph2' = "done" /\ UNCHANGED <<fs, lay, frags, phase>>
MSpec == MInit /\ [][MNext]_<<fs, ph2, lay, frags, phase>>
MergeOrderIndependent == \A g \in MergeAll({Empty}, fs) : MergeMay({fs[j] : j \in 1..Len(fs)}, g)
=============================================================================
