SPECIFICATION TSpec
CONSTANTS
  TraceFile = "trace.ndjson"
  TS = {1, 2, 3}
  MaxFrags = 3
CHECK_DEADLOCK FALSE
