---------------------------- MODULE ConflictTrace ----------------------------
(* C06 on real clusters (harness/reg TestC06): copies planted white box on the primary owner, a
   previous owner and two backup owners with chosen timestamps, one Get, copies read back; and
   fragments delivered to a member in every order with one re-delivery.  Judged with the abstract
   rules of Conflict.tla. *)
EXTENDS Conflict, Json

CONSTANTS TraceFile
Trace == ndJsonDeserialize(TraceFile)
VARIABLES i, err, seq
tvars == <<i, err, seq>>
Ev == Trace[i]
Fail(msg) == /\ err' = IF err = "" THEN msg ELSE err
             /\ PrintT("FAIL|" \o ToString(seq) \o "|" \o ToString(i) \o "|" \o msg)
Ok == err' = err
SeqSet(s) == {s[j] : j \in 1..Len(s)}
Lay(s) == [p \in Pos |-> LET c == CHOOSE x \in SeqSet(s) : x.pos = p IN [ts |-> c.ts, val |-> c.val]]

Reset == Ev.t = "reset" /\ seq' = Ev.seq /\ err' = ""
Read == /\ Ev.t = "read" /\ seq' = Ev.n
        /\ LET b == Lay(Ev.before)  a == Lay(Ev.after)  S == Present(b)  mx == MaxTs(S)
               reply == IF Ev.ret = "val" THEN Ev.v ELSE Ev.ret IN
           IF reply \notin ReadMay(S) THEN Fail("a read did not return a newest copy: " \o reply)
           ELSE IF ~Ev.rr /\ a # b THEN Fail("a read without read-repair changed a copy")
           ELSE IF Ev.rr /\ S # {} /\ a["A"].ts # mx THEN Fail("read-repair left the owner's copy behind")
           ELSE IF Ev.rr /\ \E p \in {"Y", "Z"} : b[p].ts # 0 /\ b[p].ts # mx /\ (a[p].ts # mx \/ a[p].val # reply)
                THEN Fail("read-repair left a stale backup copy behind")
           ELSE IF Ev.rr /\ \E p \in Pos : a[p].ts # 0 /\ a[p].ts < b[p].ts THEN Fail("read-repair replaced a copy by an older one")
           ELSE Ok
\* the owner holds the newest copy and its expiry has passed; older copies without expiry exist: the answer is not-found
ReadExp == /\ Ev.t = "readexp" /\ seq' = Ev.n
           /\ IF Ev.ret # "notfound"
              THEN Fail("the newest copy has expired, yet the read answered " \o (IF Ev.ret = "val" THEN "with an older copy: " \o Ev.v ELSE Ev.ret))
              ELSE Ok
\* a newest copy whose expiry has passed may have been collected by the eviction worker before the result was read
ExpiredVals == UNION {{x.val : x \in {y \in SeqSet(Ev.frags[j]) : y.exp}} : j \in 1..Len(Ev.frags)}
MergeMayOrEvicted(F, g, X) == \A k \in Keys : LET S == {f[k] : f \in F} \ {None} IN
                                IF S = {} THEN g[k] = None
                                ELSE \/ g[k].ts = MaxTs(S)
                                     \/ g[k] = None /\ \E c \in Newest(S) : c.val \in X
Merge == /\ Ev.t = "merge" /\ seq' = Ev.n
         /\ LET F == {[k \in Keys |-> LET e == CHOOSE x \in SeqSet(Ev.frags[j]) : x.k = k IN [ts |-> e.ts, val |-> e.val]] : j \in 1..Len(Ev.frags)}
                g == [k \in Keys |-> LET e == CHOOSE x \in SeqSet(Ev.result) : x.k = k IN [ts |-> e.ts, val |-> e.val]] IN
            IF ~MergeMayOrEvicted(F, g, ExpiredVals) THEN Fail("merging fragments did not keep the newest copy of a key")
            ELSE IF \E k \in Keys : g[k].ts # 0 /\ g[k] \notin {f[k] : f \in F} THEN Fail("merging fragments produced a copy nobody delivered")
            ELSE Ok
TNext == i <= Len(Trace) /\ i' = i + 1 /\ (Reset \/ Read \/ ReadExp \/ Merge) /\ UNCHANGED <<lay, frags, phase>>
TSpec == i = 1 /\ err = "" /\ seq = 0 /\ lay = [p \in Pos |-> None] /\ frags = <<>> /\ phase = "trace" /\ [][TNext]_<<tvars, vars>>
=============================================================================
