---------------------------- MODULE DMapKey ----------------------------
(* Prototype: one key, stable membership.  Owner copy L, backup copies B[1..NB].
   Writes: lock -> check -> each backup -> local -> unlock.  Reads: local, then each
   backup, newest timestamp wins.  Deletes: lock -> (local missing? return) -> backups -> local.
   History-based linearizability check at quiescence. *)
EXTENDS Naturals, Sequences, FiniteSets, TLC, SequencesExt

CONSTANTS Clients, NB, Prog, LockWrites, LockDeletes
\* Prog[c] : sequence of ops, op = [kind |-> "put"|"putnx"|"putxx"|"get"|"del", val |-> v]

VARIABLES L, B, lock, pc, opi, ts, clock, acc, hist, hclock
vars == <<L, B, lock, pc, opi, ts, clock, acc, hist, hclock>>

None == [val |-> "nil", ts |-> 0]
Backups == 1..NB

Op(c) == Prog[c][opi[c]]
IsWrite(k) == k \in {"put", "putnx", "putxx"}

Init == /\ L = None /\ B = [b \in Backups |-> None] /\ lock = "free"
        /\ pc = [c \in Clients |-> "idle"] /\ opi = [c \in Clients |-> 1]
        /\ ts = [c \in Clients |-> 0] /\ clock = 0
        /\ acc = [c \in Clients |-> <<>>]            \* versions gathered by a reader
        /\ hist = <<>> /\ hclock = 0                   \* completed ops: [c, kind, val, ret, inv, res]

\* invocation: newEnv takes the timestamp *before* the lock
Start(c) == /\ pc[c] = "idle" /\ opi[c] <= Len(Prog[c])
            /\ clock' = clock + 1 /\ ts' = [ts EXCEPT ![c] = clock + 1]
            /\ hclock' = hclock + 1
            /\ hist' = Append(hist, [c |-> c, kind |-> Op(c).kind, val |-> Op(c).val, ret |-> "?", inv |-> hclock + 1, res |-> 0])
            /\ pc' = [pc EXCEPT ![c] = IF Op(c).kind = "get" THEN "rd_local"
                                       ELSE IF Op(c).kind = "del" THEN "del_lock" ELSE "wr_lock"]
            /\ UNCHANGED <<L, B, lock, opi, acc>>

Finish(c, ret) ==
  LET j == CHOOSE j \in 1..Len(hist) : hist[j].c = c /\ hist[j].res = 0 IN
  /\ hist' = [hist EXCEPT ![j].ret = ret, ![j].res = hclock + 1]
  /\ hclock' = hclock + 1
  /\ opi' = [opi EXCEPT ![c] = @ + 1]

\* ---- write ----
WrLock(c) == /\ pc[c] = "wr_lock" /\ (LockWrites => lock = "free")
             /\ lock' = IF LockWrites THEN c ELSE lock
             /\ pc' = [pc EXCEPT ![c] = "wr_check"] /\ UNCHANGED <<L, B, opi, ts, clock, acc, hist, hclock>>
WrCheck(c) == /\ pc[c] = "wr_check"
              /\ LET k == Op(c).kind
                     fail == (k = "putnx" /\ L.val # "nil") \/ (k = "putxx" /\ L.val = "nil") IN
                 IF fail THEN /\ Finish(c, IF k = "putnx" THEN "found" ELSE "notfound")
                              /\ pc' = [pc EXCEPT ![c] = "idle"]
                              /\ lock' = IF lock = c THEN "free" ELSE lock
                         ELSE /\ pc' = [pc EXCEPT ![c] = IF NB = 0 THEN "wr_local" ELSE "wr_b1"]
                              /\ UNCHANGED <<hist, hclock, opi, lock>>
              /\ UNCHANGED <<L, B, ts, clock, acc>>
WrBackup(c, b) == /\ pc[c] = "wr_b" \o ToString(b)
                  /\ B' = [B EXCEPT ![b] = [val |-> Op(c).val, ts |-> ts[c]]]
                  /\ pc' = [pc EXCEPT ![c] = IF b = NB THEN "wr_local" ELSE "wr_b" \o ToString(b + 1)]
                  /\ UNCHANGED <<L, lock, opi, ts, clock, acc, hist, hclock>>
WrLocal(c) == /\ pc[c] = "wr_local"
              /\ L' = [val |-> Op(c).val, ts |-> ts[c]]
              /\ lock' = IF lock = c THEN "free" ELSE lock
              /\ Finish(c, "ok") /\ pc' = [pc EXCEPT ![c] = "idle"]
              /\ UNCHANGED <<B, ts, clock, acc>>

\* ---- delete ----
DelLock(c) == /\ pc[c] = "del_lock" /\ (LockDeletes => lock = "free")
              /\ lock' = IF LockDeletes THEN c ELSE lock
              /\ pc' = [pc EXCEPT ![c] = "del_check"] /\ UNCHANGED <<L, B, opi, ts, clock, acc, hist, hclock>>
DelCheck(c) == /\ pc[c] = "del_check"
               /\ IF L.val = "nil"
                  THEN /\ Finish(c, "ok") /\ pc' = [pc EXCEPT ![c] = "idle"]
                       /\ lock' = IF lock = c THEN "free" ELSE lock
                  ELSE /\ pc' = [pc EXCEPT ![c] = IF NB = 0 THEN "del_local" ELSE "del_b1"]
                       /\ UNCHANGED <<hist, hclock, opi, lock>>
               /\ UNCHANGED <<L, B, ts, clock, acc>>
DelBackup(c, b) == /\ pc[c] = "del_b" \o ToString(b)
                   /\ B' = [B EXCEPT ![b] = None]
                   /\ pc' = [pc EXCEPT ![c] = IF b = NB THEN "del_local" ELSE "del_b" \o ToString(b + 1)]
                   /\ UNCHANGED <<L, lock, opi, ts, clock, acc, hist, hclock>>
DelLocal(c) == /\ pc[c] = "del_local"
               /\ L' = None /\ lock' = IF lock = c THEN "free" ELSE lock
               /\ Finish(c, "ok") /\ pc' = [pc EXCEPT ![c] = "idle"]
               /\ UNCHANGED <<B, ts, clock, acc>>

\* ---- read ---- (read lock is held only for the local read; a writer holding the lock blocks it)
RdLocal(c) == /\ pc[c] = "rd_local" /\ lock = "free"
              /\ acc' = [acc EXCEPT ![c] = <<L>>]
              /\ pc' = [pc EXCEPT ![c] = IF NB = 0 THEN "rd_decide" ELSE "rd_b1"]
              /\ UNCHANGED <<L, B, lock, opi, ts, clock, hist, hclock>>
RdBackup(c, b) == /\ pc[c] = "rd_b" \o ToString(b)
                  /\ acc' = [acc EXCEPT ![c] = Append(@, B[b])]
                  /\ pc' = [pc EXCEPT ![c] = IF b = NB THEN "rd_decide" ELSE "rd_b" \o ToString(b + 1)]
                  /\ UNCHANGED <<L, B, lock, opi, ts, clock, hist, hclock>>
RdDecide(c) == /\ pc[c] = "rd_decide"
               /\ LET live == {i \in 1..Len(acc[c]) : acc[c][i].val # "nil"} IN
                  IF live = {} THEN Finish(c, "nil")
                  ELSE \E i \in live : /\ \A j \in live : acc[c][j].ts <= acc[c][i].ts
                                       /\ Finish(c, acc[c][i].val)
               /\ pc' = [pc EXCEPT ![c] = "idle"] /\ acc' = [acc EXCEPT ![c] = <<>>]
               /\ UNCHANGED <<L, B, lock, ts, clock>>

Next == \E c \in Clients :
          \/ Start(c) \/ WrLock(c) \/ WrCheck(c) \/ WrLocal(c)
          \/ DelLock(c) \/ DelCheck(c) \/ DelLocal(c)
          \/ RdLocal(c) \/ RdDecide(c)
          \/ \E b \in Backups : WrBackup(c, b) \/ DelBackup(c, b) \/ RdBackup(c, b)
Spec == Init /\ [][Next]_vars

\* ---- linearizability of the completed history (checked at quiescence) ----
Quiescent == \A c \in Clients : pc[c] = "idle" /\ opi[c] > Len(Prog[c])
ApplyOp(reg, h) ==
  CASE h.kind = "put"   -> [reg |-> h.val, ret |-> "ok"]
    [] h.kind = "putnx" -> IF reg = "nil" THEN [reg |-> h.val, ret |-> "ok"] ELSE [reg |-> reg, ret |-> "found"]
    [] h.kind = "putxx" -> IF reg # "nil" THEN [reg |-> h.val, ret |-> "ok"] ELSE [reg |-> reg, ret |-> "notfound"]
    [] h.kind = "get"   -> [reg |-> reg, ret |-> reg]
    [] h.kind = "del"   -> [reg |-> "nil", ret |-> "ok"]
RECURSIVE Legal(_, _)
Legal(order, reg) == IF order = <<>> THEN TRUE ELSE
   LET r == ApplyOp(reg, hist[Head(order)]) IN r.ret = hist[Head(order)].ret /\ Legal(Tail(order), r.reg)
RespectsRealTime(order) == \A i, j \in 1..Len(order) : i < j => ~(hist[order[j]].res < hist[order[i]].inv)
Linearizable == Quiescent => \E order \in SetToSeqs(1..Len(hist)) : RespectsRealTime(order) /\ Legal(order, "nil")
\* all copies agree once nothing is in flight
MirrorAtQuiescence == Quiescent => \A b \in Backups : B[b] = L
=============================================================================
