---------------------------- MODULE DMapKey ----------------------------
(* One key of one DMap in a cluster with stable membership, at the grain of the owner's critical
   sections (internal/dmap put.go, delete.go, get.go as repaired).  Owner copy L, backup copies
   B[1..NB].  One action per trace point of the code (verifhook.At names in brackets):

     write : Start (the write timestamp is taken here, BEFORE the fragment lock: newEnv)
             -> WrLock [put.locked] -> WrCheck NX/XX against L [put.checked]
             -> WrLocal [entry.stored] -> WrBackup(b) for b = 1..NB, one at a time [put.replica] -> return
     delete: DelLock [del.locked] -> DelCheck (L missing and no other holder: return)
             -> DelBackups (all backups) [del.replicas] -> DelLocal [del.local] -> return
     read  : RdLocal (under the read lock, so not while a writer holds the lock) [get.owners]
             -> RdBackup(b) [get.replicas] -> RdDecide: newest timestamp wins
             -> with ReadRepair: RrStep over the copies that differed AT READ TIME, the owner's own copy under
                the fragment lock, a backup's copy with a plain entry write [get.repair.before .. get.repaired]

   Properties: Linearizable (every complete history of Put/PutNX/PutXX/Get/Delete on the key has a
   linearization; checked at quiescence over the recorded history) and MirrorAtQuiescence (all copies
   equal when nothing is in flight - C04 at the design level).

   With ReadRepair = FALSE both hold.  With ReadRepair = TRUE TLC finds the histories of known finding D23
   (a Get that overlaps writes re-installs the version it saw): configuration DMapKey_rr.cfg is expected to
   FAIL and the check reports it as such.  LockWrites / LockDeletes = FALSE remove the fragment lock and are used to
   see that the properties depend on it. *)
EXTENDS Naturals, Sequences, FiniteSets, TLC, SequencesExt

CONSTANTS Clients, NB, Prog, LockWrites, LockDeletes, ReadRepair
\* Prog[c] : sequence of ops, op = [kind |-> "put"|"putnx"|"putxx"|"get"|"del", val |-> v]

VARIABLES L, B, lock, pc, opi, ts, clock, acc, rr, hist, hclock
vars == <<L, B, lock, pc, opi, ts, clock, acc, rr, hist, hclock>>

None == [val |-> "nil", ts |-> 0]
Backups == 1..NB

Op(c) == Prog[c][opi[c]]

Init == /\ L = None /\ B = [b \in Backups |-> None] /\ lock = "free"
        /\ pc = [c \in Clients |-> "idle"] /\ opi = [c \in Clients |-> 1]
        /\ ts = [c \in Clients |-> 0] /\ clock = 0
        /\ acc = [c \in Clients |-> <<>>]            \* versions gathered by a reader: <<L, B[1], .., B[NB]>>
        /\ rr = [c \in Clients |-> [w |-> None, todo |-> {}]]   \* read repair in progress: winner, copies still to write (0 = owner)
        /\ hist = <<>> /\ hclock = 0                   \* completed ops: [c, kind, val, ret, inv, res]

Start(c) == /\ pc[c] = "idle" /\ opi[c] <= Len(Prog[c])
            /\ clock' = clock + 1 /\ ts' = [ts EXCEPT ![c] = clock + 1]
            /\ hclock' = hclock + 1
            /\ hist' = Append(hist, [c |-> c, kind |-> Op(c).kind, val |-> Op(c).val, ret |-> "?", inv |-> hclock + 1, res |-> 0])
            /\ pc' = [pc EXCEPT ![c] = IF Op(c).kind = "get" THEN "rd_local"
                                       ELSE IF Op(c).kind = "del" THEN "del_lock" ELSE "wr_lock"]
            /\ UNCHANGED <<L, B, lock, opi, acc, rr>>

Finish(c, ret) ==
  LET j == CHOOSE j \in 1..Len(hist) : hist[j].c = c /\ hist[j].res = 0 IN
  /\ hist' = [hist EXCEPT ![j].ret = ret, ![j].res = hclock + 1]
  /\ hclock' = hclock + 1
  /\ opi' = [opi EXCEPT ![c] = @ + 1]
Release(c) == IF lock = c THEN "free" ELSE lock

\* ---- write ----
WrLock(c) == /\ pc[c] = "wr_lock" /\ (LockWrites => lock = "free")
             /\ lock' = IF LockWrites THEN c ELSE lock
             /\ pc' = [pc EXCEPT ![c] = "wr_check"] /\ UNCHANGED <<L, B, opi, ts, clock, acc, rr, hist, hclock>>
WrCheck(c) == /\ pc[c] = "wr_check"
              /\ LET k == Op(c).kind
                     fail == (k = "putnx" /\ L.val # "nil") \/ (k = "putxx" /\ L.val = "nil") IN
                 IF fail THEN /\ Finish(c, IF k = "putnx" THEN "found" ELSE "notfound")
                              /\ pc' = [pc EXCEPT ![c] = "idle"] /\ lock' = Release(c)
                         ELSE /\ pc' = [pc EXCEPT ![c] = "wr_local"]
                              /\ UNCHANGED <<hist, hclock, opi, lock>>
              /\ UNCHANGED <<L, B, ts, clock, acc, rr>>
\* the primary copy first (an entry the owner rejects never reaches the replicas)
WrLocal(c) == /\ pc[c] = "wr_local"
              /\ L' = [val |-> Op(c).val, ts |-> ts[c]]
              /\ IF NB = 0 THEN Finish(c, "ok") /\ pc' = [pc EXCEPT ![c] = "idle"] /\ lock' = Release(c)
                 ELSE pc' = [pc EXCEPT ![c] = "wr_b1"] /\ UNCHANGED <<hist, hclock, opi, lock>>
              /\ UNCHANGED <<B, ts, clock, acc, rr>>
WrBackup(c, b) == /\ pc[c] = "wr_b" \o ToString(b)
                  /\ B' = [B EXCEPT ![b] = [val |-> Op(c).val, ts |-> ts[c]]]
                  /\ IF b = NB THEN Finish(c, "ok") /\ pc' = [pc EXCEPT ![c] = "idle"] /\ lock' = Release(c)
                     ELSE pc' = [pc EXCEPT ![c] = "wr_b" \o ToString(b + 1)] /\ UNCHANGED <<hist, hclock, opi, lock>>
                  /\ UNCHANGED <<L, ts, clock, acc, rr>>

\* ---- delete ----
DelLock(c) == /\ pc[c] = "del_lock" /\ (LockDeletes => lock = "free")
              /\ lock' = IF LockDeletes THEN c ELSE lock
              /\ pc' = [pc EXCEPT ![c] = "del_check"] /\ UNCHANGED <<L, B, opi, ts, clock, acc, rr, hist, hclock>>
\* a key that is missing on the owner is still deleted on the replicas when there are any (repaired D12)
DelCheck(c) == /\ pc[c] = "del_check"
               /\ IF L.val = "nil" /\ NB = 0
                  THEN /\ Finish(c, "ok") /\ pc' = [pc EXCEPT ![c] = "idle"] /\ lock' = Release(c)
                  ELSE /\ pc' = [pc EXCEPT ![c] = IF NB = 0 THEN "del_local" ELSE "del_backups"]
                       /\ UNCHANGED <<hist, hclock, opi, lock>>
               /\ UNCHANGED <<L, B, ts, clock, acc, rr>>
DelBackups(c) == /\ pc[c] = "del_backups"
                 /\ B' = [b \in Backups |-> None]
                 /\ pc' = [pc EXCEPT ![c] = "del_local"]
                 /\ UNCHANGED <<L, lock, opi, ts, clock, acc, rr, hist, hclock>>
DelLocal(c) == /\ pc[c] = "del_local"
               /\ L' = None /\ lock' = Release(c)
               /\ Finish(c, "ok") /\ pc' = [pc EXCEPT ![c] = "idle"]
               /\ UNCHANGED <<B, ts, clock, acc, rr>>

\* ---- read ---- (the read lock is held only for the local read; a writer holding the lock blocks it)
RdLocal(c) == /\ pc[c] = "rd_local" /\ lock = "free"
              /\ acc' = [acc EXCEPT ![c] = <<L>>]
              /\ pc' = [pc EXCEPT ![c] = IF NB = 0 THEN "rd_decide" ELSE "rd_b1"]
              /\ UNCHANGED <<L, B, lock, opi, ts, clock, rr, hist, hclock>>
RdBackup(c, b) == /\ pc[c] = "rd_b" \o ToString(b)
                  /\ acc' = [acc EXCEPT ![c] = Append(@, B[b])]
                  /\ pc' = [pc EXCEPT ![c] = IF b = NB THEN "rd_decide" ELSE "rd_b" \o ToString(b + 1)]
                  /\ UNCHANGED <<L, B, lock, opi, ts, clock, rr, hist, hclock>>
RdDecide(c) ==
  /\ pc[c] = "rd_decide"
  /\ LET live == {i \in 1..Len(acc[c]) : acc[c][i].val # "nil"} IN
     IF live = {} THEN /\ Finish(c, "nil") /\ pc' = [pc EXCEPT ![c] = "idle"] /\ rr' = rr
     ELSE \E i \in live :
            /\ \A j \in live : acc[c][j].ts <= acc[c][i].ts
            /\ LET w == acc[c][i]
                   stale == {j \in 1..Len(acc[c]) : acc[c][j].ts # w.ts} IN   \* index 1 = owner, j+1 = backup j
               IF ReadRepair /\ stale # {}
               THEN /\ rr' = [rr EXCEPT ![c] = [w |-> w, todo |-> {j - 1 : j \in stale}]]
                    /\ pc' = [pc EXCEPT ![c] = "rd_repair"]
                    /\ UNCHANGED <<hist, hclock, opi>>
               ELSE /\ Finish(c, w.val) /\ pc' = [pc EXCEPT ![c] = "idle"] /\ rr' = rr
  /\ acc' = [acc EXCEPT ![c] = <<>>]
  /\ UNCHANGED <<L, B, lock, ts, clock>>
\* read repair writes the version the reader saw, without looking at what the copy holds by now
RrStep(c) ==
  /\ pc[c] = "rd_repair"
  /\ IF rr[c].todo = {}
     THEN /\ Finish(c, rr[c].w.val) /\ pc' = [pc EXCEPT ![c] = "idle"]
          /\ rr' = [rr EXCEPT ![c] = [w |-> None, todo |-> {}]] /\ UNCHANGED <<L, B>>
     ELSE \E t \in rr[c].todo :
            /\ (t = 0 => lock = "free")          \* the owner's own copy is written under the fragment lock
            /\ L' = IF t = 0 THEN rr[c].w ELSE L
            /\ B' = IF t = 0 THEN B ELSE [B EXCEPT ![t] = rr[c].w]
            /\ rr' = [rr EXCEPT ![c].todo = @ \ {t}]
            /\ UNCHANGED <<pc, hist, hclock, opi>>
  /\ UNCHANGED <<lock, ts, clock, acc>>

Next == \E c \in Clients :
          \/ Start(c) \/ WrLock(c) \/ WrCheck(c) \/ WrLocal(c)
          \/ DelLock(c) \/ DelCheck(c) \/ DelBackups(c) \/ DelLocal(c)
          \/ RdLocal(c) \/ RdDecide(c) \/ RrStep(c)
          \/ \E b \in Backups : WrBackup(c, b) \/ RdBackup(c, b)
Spec == Init /\ [][Next]_vars

\* ---- linearizability of the completed history (checked at quiescence) ----
Quiescent == \A c \in Clients : pc[c] = "idle" /\ opi[c] > Len(Prog[c])
ApplyOp(reg, h) ==
  CASE h.kind = "put"   -> [reg |-> h.val, ret |-> "ok"]
    [] h.kind = "putnx" -> IF reg = "nil" THEN [reg |-> h.val, ret |-> "ok"] ELSE [reg |-> reg, ret |-> "found"]
    [] h.kind = "putxx" -> IF reg # "nil" THEN [reg |-> h.val, ret |-> "ok"] ELSE [reg |-> reg, ret |-> "notfound"]
    [] h.kind = "get"   -> [reg |-> reg, ret |-> reg]
    [] h.kind = "del"   -> [reg |-> "nil", ret |-> "ok"]
RECURSIVE Legal(_, _)
Legal(order, reg) == IF order = <<>> THEN TRUE ELSE
   LET r == ApplyOp(reg, hist[Head(order)]) IN r.ret = hist[Head(order)].ret /\ Legal(Tail(order), r.reg)
RespectsRealTime(order) == \A i, j \in 1..Len(order) : i < j => ~(hist[order[j]].res < hist[order[i]].inv)
Linearizable == Quiescent => \E order \in SetToSeqs(1..Len(hist)) : RespectsRealTime(order) /\ Legal(order, "nil")
\* all copies agree once nothing is in flight
MirrorAtQuiescence == Quiescent => \A b \in Backups : B[b] = L
\* the fragment lock is exclusive
InCS(c) == pc[c] \in {"wr_check", "wr_local", "del_check", "del_backups", "del_local"} \cup {"wr_b" \o ToString(b) : b \in Backups}
LockDiscipline == (LockWrites /\ LockDeletes) => \A c, d \in Clients : (c # d /\ InCS(c)) => ~InCS(d)
=============================================================================
