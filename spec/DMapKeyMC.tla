---- MODULE DMapKeyMC ----
(* Model-checking instance of DMapKey: three clients, two operations each, on one key. *)
EXTENDS DMapKey
P3 == [c \in {"c1","c2","c3"} |-> CASE c = "c1" -> <<[kind |-> "put", val |-> "v1"], [kind |-> "get", val |-> "-"]>>
                                   [] c = "c2" -> <<[kind |-> "putnx", val |-> "v2"], [kind |-> "del", val |-> "-"]>>
                                   [] c = "c3" -> <<[kind |-> "get", val |-> "-"], [kind |-> "putxx", val |-> "v3"]>>]
P2 == [c \in {"c1","c2"} |-> CASE c = "c1" -> <<[kind |-> "put", val |-> "v1"], [kind |-> "get", val |-> "-"], [kind |-> "del", val |-> "-"]>>
                               [] c = "c2" -> <<[kind |-> "putnx", val |-> "v2"], [kind |-> "get", val |-> "-"], [kind |-> "putxx", val |-> "v3"]>>]
\* the shape of known finding D23: a Get that overlaps a conditional Put and a Delete, with read repair
PRR == [c \in {"c1","c2","c3"} |-> CASE c = "c1" -> <<[kind |-> "put", val |-> "v0"], [kind |-> "del", val |-> "-"], [kind |-> "get", val |-> "-"]>>
                                    [] c = "c2" -> <<[kind |-> "putxx", val |-> "x3"]>>
                                    [] c = "c3" -> <<[kind |-> "get", val |-> "-"]>>]
====
