SPECIFICATION TSpec
CONSTANTS
  TraceFile = "trace.ndjson"
  NB = 0
  Clients <- TraceClients
  Prog <- TraceProg
  LockWrites = TRUE
  LockDeletes = TRUE
  ReadRepair = FALSE
INVARIANT NotDone
POSTCONDITION Report
CHECK_DEADLOCK FALSE
