---------------------------- MODULE DMapKeyTrace ----------------------------
(* Trace validation of DMapKey.tla: the arrivals at the trace points of the owner's write and delete paths, recorded on
   real clusters (harness/reg/dmapkey_test.go, sched.Record: order = the order in which the goroutines registered their
   arrival while still inside the critical section; one client per goroutine), are replayed with DMapKey's own actions:

       put.locked    -> (Start) WrLock          put.checked  -> WrCheck, conditions met
       entry.stored  -> WrLocal                 put.replica  -> WrBackup(next backup)
       put.unlocked  -> WrCheck, condition not met - only if no put.checked came (the reply the model computes from its
                        own copy must then be a refusal too); otherwise the operation has finished with its last write
       del.locked    -> (Start) DelLock         del.replicas -> (DelCheck) DelBackups
       del.local     -> (DelCheck) DelLocal     del.unlocked -> DelCheck "nothing to delete" or nothing
       entry.stored by a goroutine that is not inside a critical section of the key: a backup member storing the entry -
       covered by the owner's put.replica; get.*: ignored here (reads are judged by RegisterTrace on C01's histories)

   Steps in brackets are not logged and are taken silently when the next line needs them.  An event that no action can
   consume (a write of a client that does not hold the lock, a backup write before the local write, an unlock in the
   middle of a write, ...) ends the run: the sequence is rejected at that line.  LockDiscipline and Mirror (all copies
   equal whenever no client is inside a critical section) must hold in every state that is reached, and the final line compares the
   model's copies with the copies the members hold (white box, write timestamps as version names).

   Acceptance as in RegisterTrace: the position passes the end of the file (inverted invariant NotDone); the highest line
   reached is kept in TLC register 1. *)
EXTENDS DMapKey, Json

CONSTANT TraceFile
Trace == ndJsonDeserialize(TraceFile)

ResetLines == {j \in 1..Len(Trace) : Trace[j].t = "reset"}
TraceClients == UNION {DOMAIN Trace[j].prog : j \in ResetLines}
TraceProg == [c \in TraceClients |->
                LET j == CHOOSE j \in ResetLines : c \in DOMAIN Trace[j].prog IN Trace[j].prog[c]]

VARIABLES i,     \* position in the trace
          cur    \* line of the reset that opened the current sequence (0: none yet)
tvars == <<vars, i, cur>>
\* the clients of the current sequence (every client appears in one sequence only)
Here == IF cur = 0 THEN {} ELSE DOMAIN Trace[cur].prog

Mark(j) == IF j > TLCGet(1) THEN TLCSet(1, j) ELSE TRUE
Ev == Trace[i]
More == i <= Len(Trace)
Consume == i' = i + 1 /\ Mark(i + 1)
Skip == Consume /\ UNCHANGED vars
IsEv(p) == More /\ Ev.t = "ev" /\ Ev.p = p
Known == Ev.c \in Clients
AllIdle == \A c \in Here : pc[c] = "idle"

TInit == Init /\ i = 1 /\ cur = 0 /\ TLCSet(1, 0)

Reset == /\ More /\ Ev.t = "reset" /\ AllIdle /\ Ev.NB = NB
         /\ L' = None /\ B' = [b \in Backups |-> None] /\ lock' = "free" /\ hist' = <<>> /\ hclock' = 0
         /\ UNCHANGED <<pc, opi, ts, clock, acc, rr>> /\ Consume /\ cur' = i

\* ---- silent steps, taken only when the next line needs them ----
SilentStart == /\ More /\ Ev.t = "ev" /\ Ev.p \in {"put.locked", "del.locked"} /\ Known /\ pc[Ev.c] = "idle"
               /\ Start(Ev.c) /\ UNCHANGED i
SilentDelCheck == /\ More /\ Ev.t = "ev" /\ Ev.p \in {"del.replicas", "del.local"} /\ Known /\ pc[Ev.c] = "del_check"
                  /\ DelCheck(Ev.c) /\ pc'[Ev.c] # "idle" /\ UNCHANGED i

\* ---- one action per logged point ----
TPutLocked   == IsEv("put.locked") /\ Known /\ pc[Ev.c] = "wr_lock" /\ WrLock(Ev.c) /\ Consume
TPutChecked  == IsEv("put.checked") /\ Known /\ WrCheck(Ev.c) /\ pc'[Ev.c] = "wr_local" /\ Consume
TStored      == /\ IsEv("entry.stored")
                /\ IF Known /\ pc[Ev.c] = "wr_local" THEN WrLocal(Ev.c) /\ Consume ELSE Skip
TReplica     == IsEv("put.replica") /\ Known /\ (\E b \in Backups : WrBackup(Ev.c, b)) /\ Consume
TPutUnlocked == /\ IsEv("put.unlocked") /\ Known
                /\ IF pc[Ev.c] = "wr_check" THEN WrCheck(Ev.c) /\ pc'[Ev.c] = "idle" /\ Consume
                   ELSE pc[Ev.c] = "idle" /\ Skip
TDelLocked   == IsEv("del.locked") /\ Known /\ pc[Ev.c] = "del_lock" /\ DelLock(Ev.c) /\ Consume
TDelReplicas == /\ IsEv("del.replicas") /\ Known
                /\ IF NB = 0 THEN pc[Ev.c] = "del_local" /\ Skip ELSE DelBackups(Ev.c) /\ Consume
TDelLocal    == IsEv("del.local") /\ Known /\ DelLocal(Ev.c) /\ Consume
TDelUnlocked == /\ IsEv("del.unlocked") /\ Known
                /\ IF pc[Ev.c] = "del_check" THEN DelCheck(Ev.c) /\ pc'[Ev.c] = "idle" /\ Consume
                   ELSE pc[Ev.c] = "idle" /\ Skip
TIgnored     == More /\ Ev.t = "ev" /\ Ev.p \in {"del.previous", "get.owners", "get.replicas"} /\ Skip

\* ---- the copies the members hold at the end ----
Count(s, v) == Cardinality({j \in 1..Len(s) : s[j] = v})
TFinal == /\ More /\ Ev.t = "final" /\ AllIdle
          /\ L.val = Ev.owner
          /\ Len(Ev.backups) = NB
          /\ \A b \in Backups : Cardinality({x \in Backups : B[x].val = B[b].val}) = Count(Ev.backups, B[b].val)
          /\ Skip

TNext == \/ Reset
         \/ /\ UNCHANGED cur
            /\ \/ SilentStart \/ SilentDelCheck
               \/ TPutLocked \/ TPutChecked \/ TStored \/ TReplica \/ TPutUnlocked
               \/ TDelLocked \/ TDelReplicas \/ TDelLocal \/ TDelUnlocked \/ TIgnored \/ TFinal
\* all copies agree whenever nobody is inside a critical section of the key
Mirror == AllIdle => \A b \in Backups : B[b] = L
\* a step that leads to a state in which the lock is not exclusive or the copies differ at rest is not taken: the
\* sequence is rejected at the line that would lead there
LockExclusive == Cardinality({c \in Here : InCS(c)}) <= 1       \* DMapKey!LockDiscipline over the clients that can be active
Safe == LockExclusive /\ Mirror
TSpec == TInit /\ [][TNext /\ Safe']_tvars

NotDone == i <= Len(Trace)
Report == PrintT("MAXI|" \o ToString(TLCGet(1)))
=============================================================================
