SPECIFICATION Spec
CONSTANTS
  Clients = {"c1", "c2"}
  NB = 1
  Prog <- P2
  LockWrites = TRUE
  LockDeletes = TRUE
  ReadRepair = FALSE
INVARIANTS Linearizable MirrorAtQuiescence LockDiscipline
CHECK_DEADLOCK FALSE
