SPECIFICATION Spec
CONSTANTS
  Clients = {"c1", "c2"}
  NB = 1
  Prog <- P2
  LockWrites = TRUE
  LockDeletes = TRUE
INVARIANTS Linearizable MirrorAtQuiescence
CHECK_DEADLOCK FALSE
