SPECIFICATION Spec
CONSTANTS
  Clients = {"c1", "c2", "c3"}
  NB = 1
  Prog <- PRR
  LockWrites = TRUE
  LockDeletes = TRUE
  ReadRepair = TRUE
INVARIANTS Linearizable
CHECK_DEADLOCK FALSE
