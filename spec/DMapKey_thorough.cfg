SPECIFICATION Spec
CONSTANTS
  Clients = {"c1", "c2", "c3"}
  NB = 2
  Prog <- P3
  LockWrites = TRUE
  LockDeletes = TRUE
INVARIANTS Linearizable MirrorAtQuiescence
CHECK_DEADLOCK FALSE
