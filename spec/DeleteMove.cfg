SPECIFICATION Spec
CONSTANTS
  LockFirst = TRUE
INVARIANTS Gone
CHECK_DEADLOCK FALSE
