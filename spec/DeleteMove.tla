---------------------------- MODULE DeleteMove ----------------------------
(* One key of a partition that is being handed over, and one Delete on the new owner that overlaps the hand-over
   (finding D38).  Two fragment locks: the sender's (previous owner) and the receiver's (new owner).

   move:    Export (sender's lock taken, the pack contains the key) -> Merge (needs the receiver's lock; the key arrives)
            -> Drop (the key leaves the sender, sender's lock released).  A request that waits too long is given up:
            MoveTimeout (the sender keeps its table and releases its lock) - but the pack is already under way and the
            receiver merges it when it gets its lock (LateMerge).
   delete:  LockFirst = TRUE   the code as found: lock the receiver's fragment, then delete on the previous owner (needs the
                               sender's lock), then delete locally, unlock, acknowledge
            LockFirst = FALSE  the repair: delete on the previous owner first, then lock, delete locally, unlock, acknowledge

   Gone: once the Delete is acknowledged and nothing is under way any more, the key is stored nowhere.
   NoDeadlock: the move and the delete never wait for each other (only MoveTimeout gets the LockFirst variant out). *)
EXTENDS Naturals

CONSTANT LockFirst

VARIABLES onOld, onNew, sLock, rLock, mv, pack, dl
\* mv: "idle" | "exported" | "merged" | "dropped" | "failed";  pack: the exported table (with the key) is still to be merged
\* dl: "idle" | "locked" | "prevdone" | "prevdone_nolock" | "acked"
vars == <<onOld, onNew, sLock, rLock, mv, pack, dl>>

Init == onOld = TRUE /\ onNew = FALSE /\ sLock = "free" /\ rLock = "free" /\ mv = "idle" /\ pack = FALSE /\ dl = "idle"

Export == mv = "idle" /\ sLock = "free" /\ sLock' = "move" /\ mv' = "exported" /\ pack' = onOld
          /\ UNCHANGED <<onOld, onNew, rLock, dl>>
Merge == mv = "exported" /\ rLock = "free" /\ mv' = "merged" /\ onNew' = (onNew \/ pack) /\ pack' = FALSE
         /\ UNCHANGED <<onOld, sLock, rLock, dl>>
Drop == mv = "merged" /\ mv' = "dropped" /\ onOld' = FALSE /\ sLock' = "free" /\ UNCHANGED <<onNew, rLock, pack, dl>>
\* the sender gives the request up; the receiver's handler is still queued
MoveTimeout == mv = "exported" /\ rLock # "free" /\ mv' = "failed" /\ sLock' = "free" /\ UNCHANGED <<onOld, onNew, rLock, pack, dl>>
LateMerge == mv = "failed" /\ pack /\ rLock = "free" /\ onNew' = TRUE /\ pack' = FALSE /\ UNCHANGED <<onOld, sLock, rLock, mv, dl>>

DelLockFirst == /\ LockFirst /\ dl = "idle" /\ rLock = "free" /\ rLock' = "del" /\ dl' = "locked"
                /\ UNCHANGED <<onOld, onNew, sLock, mv, pack>>
DelPrev == /\ \/ (LockFirst /\ dl = "locked" /\ dl' = "prevdone")
              \/ (~LockFirst /\ dl = "idle" /\ dl' = "prevdone_nolock")
           /\ sLock = "free" /\ onOld' = FALSE                       \* DM.DELENTRY waits for the sender's fragment lock
           /\ UNCHANGED <<onNew, sLock, rLock, mv, pack>>
DelLockLate == ~LockFirst /\ dl = "prevdone_nolock" /\ rLock = "free" /\ rLock' = "del" /\ dl' = "prevdone"
               /\ UNCHANGED <<onOld, onNew, sLock, mv, pack>>
DelLocal == dl = "prevdone" /\ onNew' = FALSE /\ rLock' = "free" /\ dl' = "acked" /\ UNCHANGED <<onOld, sLock, mv, pack>>

Next == Export \/ Merge \/ Drop \/ MoveTimeout \/ LateMerge \/ DelLockFirst \/ DelPrev \/ DelLockLate \/ DelLocal
Spec == Init /\ [][Next]_vars

Quiet == dl = "acked" /\ mv \in {"idle", "dropped", "failed"} /\ ~pack
Gone == Quiet => ~onOld /\ ~onNew
\* the move waits for the receiver's lock while the delete, holding it, waits for the sender's lock
NoDeadlock == ~(mv = "exported" /\ rLock = "del" /\ dl = "locked")
=============================================================================
