SPECIFICATION Spec
CONSTANTS
  LockFirst = FALSE
INVARIANTS Gone NoDeadlock
CHECK_DEADLOCK FALSE
