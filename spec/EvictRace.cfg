SPECIFICATION Spec
CONSTANTS
  Mode = "uncond"
INVARIANTS BackupKept NoLeftover
CHECK_DEADLOCK FALSE
