---------------------------- MODULE EvictRace ----------------------------
(* One key while its partition still has a previous owner (finding D32).

   P  the previous primary owner: it still holds the table with the key's OLD version, written with an expiry
   N  the new primary owner (nothing moved yet)
   B  the backup owner (unchanged by the join)

   The background eviction (internal/dmap/eviction.go: scanFragmentForEviction -> deleteOnCluster) runs on every
   member for every fragment of a primary partition it holds - also on P, for the table that has not moved yet.
   When it finds an expired entry it deletes the key "on the cluster": on the backup owners and locally.  It does
   not look at which version the backup owners hold.

   Mode = "uncond"  the code as it is: B's copy is deleted whatever it holds
          "local"   the repair that was tried and withdrawn: P deletes its own copy only
          "cond"    P's delete on the backups names the version it found expired; B deletes only that version or older

   BackupKept:   a live value on the primary owner has its backup copy                      (C03; "uncond" violates it)
   NoLeftover:   when nothing is left to do, no copy of an expired version is stored         ("local" violates it)
*)
EXTENDS Naturals

CONSTANT Mode
ASSUME Mode \in {"uncond", "local", "cond"}

VARIABLES p, n, b,      \* the copies: None or [ts, ttl]; ttl = TRUE: written with the expiry that passes at Tick
          expired,      \* the deadline of the old version has passed
          overwritten   \* the client's second write has happened
vars == <<p, n, b, expired, overwritten>>

None == [ts |-> 0, ttl |-> FALSE]
Old  == [ts |-> 1, ttl |-> TRUE]
New  == [ts |-> 2, ttl |-> FALSE]      \* a plain Put: no expiry
NewT == [ts |-> 2, ttl |-> TRUE]       \* or a Put with the same deadline

Dead(c) == c # None /\ c.ttl /\ expired
Newest(x, y) == IF x.ts >= y.ts THEN x ELSE y

Init == p = Old /\ n = None /\ b = Old /\ expired = FALSE /\ overwritten = FALSE

\* the client overwrites the key through the new owner before the deadline: primary copy on N, backup copy on B
Overwrite(v) == /\ ~overwritten /\ ~expired
                /\ n' = v /\ b' = v /\ overwritten' = TRUE
                /\ UNCHANGED <<p, expired>>

\* the balancer moves P's table: the receiver keeps the newest version (fragmentMergeFunction)
Move == /\ p # None
        /\ n' = Newest(n, p) /\ p' = None
        /\ UNCHANGED <<b, expired, overwritten>>

Tick == ~expired /\ expired' = TRUE /\ UNCHANGED <<p, n, b, overwritten>>

\* eviction on the previous owner finds its old version expired
EvictOnP == /\ Dead(p)
            /\ p' = None
            /\ b' = CASE Mode = "uncond" -> None
                      [] Mode = "local"  -> b
                      [] Mode = "cond"   -> IF b.ts <= p.ts THEN None ELSE b
            /\ UNCHANGED <<n, expired, overwritten>>

\* eviction on the primary owner: its own copy and the backup copy (same version after a write; the delete names it in "cond")
EvictOnN == /\ Dead(n)
            /\ n' = None
            /\ b' = IF Mode = "cond" /\ b.ts > n.ts THEN b ELSE None
            /\ UNCHANGED <<p, expired, overwritten>>

Next == \/ \E v \in {New, NewT} : Overwrite(v)
        \/ Move \/ Tick \/ EvictOnP \/ EvictOnN

Spec == Init /\ [][Next]_vars

BackupKept == (n # None /\ ~Dead(n)) => b = n
Quiet == expired /\ p = None /\ ~Dead(n)
NoLeftover == Quiet => ~Dead(b)
=============================================================================
