SPECIFICATION Spec
CONSTANTS
  Mode = "cond"
INVARIANTS BackupKept NoLeftover
CHECK_DEADLOCK FALSE
