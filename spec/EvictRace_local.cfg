SPECIFICATION Spec
CONSTANTS
  Mode = "local"
INVARIANTS BackupKept NoLeftover
CHECK_DEADLOCK FALSE
