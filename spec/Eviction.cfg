SPECIFICATION Spec
CONSTANTS
  Keys = {"a", "b", "c", "d"}
  PartOf <- PO
  Parts = {0, 1}
  MaxKeys = 4
  LRUSamples = 2
  MaxOps = 6
  FixD17 = TRUE
INVARIANTS WithinBound PutNeverFails JustWrittenPresent
CHECK_DEADLOCK FALSE
