---------------------------- MODULE Eviction ----------------------------
(* C10: LRU eviction with MaxKeys on one member.  Every owned partition's fragment keeps at most its
   share of the keys (MaxKeys divided by the number of owned partitions, at least one key); a Put
   first makes room - evicting a key that is least recently used within a sample of the fragment -
   then inserts, never fails because of the limit, and the key just written is present afterwards.

   FixD17 = FALSE models the pinned sampler, which draws LRUSamples-1 keys: with LRUSamples = 1 the
   sample is empty and the Put fails. *)
EXTENDS Naturals, FiniteSets, Sequences, TLC

CONSTANTS Keys, PartOf, Parts, MaxKeys, LRUSamples, MaxOps, FixD17

VARIABLES frag, clock, access, nops, lastPut, failed
vars == <<frag, clock, access, nops, lastPut, failed>>

Share == IF MaxKeys \div Cardinality(Parts) = 0 THEN 0 ELSE MaxKeys \div Cardinality(Parts)
Bound == IF Share = 0 THEN 1 ELSE Share

Init == /\ frag = [p \in Parts |-> {}] /\ clock = 0 /\ access = [k \in Keys |-> 0]
        /\ nops = 0 /\ lastPut = "" /\ failed = FALSE

SampleSize == IF FixD17 THEN LRUSamples ELSE LRUSamples - 1
\* any sample of the fragment of the right size (Range order is arbitrary)
Samples(S) == {X \in SUBSET S : Cardinality(X) = (IF Cardinality(S) < SampleSize THEN Cardinality(S) ELSE SampleSize)}

Put(k) ==
  /\ nops < MaxOps
  /\ LET p == PartOf[k]
         full == Cardinality(frag[p]) > 0 /\ Cardinality(frag[p]) >= Share IN
     IF ~full
     THEN /\ frag' = [frag EXCEPT ![p] = @ \cup {k}] /\ failed' = FALSE
     ELSE \E X \in Samples(frag[p]) :
            IF X = {} THEN /\ failed' = TRUE /\ UNCHANGED frag            \* "nothing found to expire with LRU"
            ELSE \E v \in X : /\ \A y \in X : access[v] <= access[y]
                              /\ frag' = [frag EXCEPT ![p] = (@ \ {v}) \cup {k}] /\ failed' = FALSE
  /\ clock' = clock + 1 /\ access' = [access EXCEPT ![k] = clock + 1]
  /\ nops' = nops + 1 /\ lastPut' = k
Touch(k) == /\ nops < MaxOps /\ k \in frag[PartOf[k]]
            /\ clock' = clock + 1 /\ access' = [access EXCEPT ![k] = clock + 1]
            /\ nops' = nops + 1 /\ UNCHANGED <<frag, lastPut, failed>>
Next == \E k \in Keys : Put(k) \/ Touch(k)
Spec == Init /\ [][Next]_vars

WithinBound == \A p \in Parts : Cardinality(frag[p]) <= Bound
PutNeverFails == ~failed
JustWrittenPresent == (lastPut # "" /\ ~failed) => lastPut \in frag[PartOf[lastPut]]
=============================================================================
