---- MODULE EvictionMC ----
EXTENDS Eviction
PO == [k \in {"a", "b", "c", "d"} |-> IF k \in {"a", "b", "c"} THEN 0 ELSE 1]
====
