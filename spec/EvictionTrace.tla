---------------------------- MODULE EvictionTrace ----------------------------
(* C10 on real clusters (harness/reg TestC10).  Deterministic, fully logged.
     put   after every Put: its result, the immediate Get of the same key, and (white box) the
           Length / Inuse of every primary fragment of the DMap on every member with the number of
           partitions that member owns
     idle  an idle-window probe: a Get with the time since the key's last touch *)
EXTENDS Integers, Sequences, FiniteSets, TLC, Json

CONSTANTS TraceFile
Trace == ndJsonDeserialize(TraceFile)
VARIABLES i, err, seq, cfg
vars == <<i, err, seq, cfg>>
Ev == Trace[i]
Fail(msg) == /\ err' = IF err = "" THEN msg ELSE err
             /\ (err = "" => PrintT("FAIL|" \o ToString(seq) \o "|" \o ToString(i) \o "|" \o msg))
Ok == err' = err
SeqSet(s) == {s[j] : j \in 1..Len(s)}
Max2(a, b) == IF a > b THEN a ELSE b

Reset == Ev.t = "reset" /\ seq' = Ev.seq /\ err' = "" /\ cfg' = Ev
\* share of one owned partition; at least one key
KeyBound(owned) == Max2(1, cfg.maxkeys \div owned)
InuseBound(owned) == (cfg.maxinuse \div owned) + cfg.entry
PutEv == /\ Ev.t = "put" /\ UNCHANGED <<seq, cfg>>
         /\ IF Ev.ret # "ok" THEN Fail("Put failed: " \o Ev.ret)
            ELSE IF Ev.get # "val" THEN Fail("the key just written is not readable")
            ELSE IF cfg.maxkeys > 0 /\ \E f \in SeqSet(Ev.frags) : f.owned > 0 /\ f.length > KeyBound(f.owned)
                 THEN Fail("a fragment holds more keys than its share of MaxKeys")
            ELSE IF cfg.maxinuse > 0 /\ \E f \in SeqSet(Ev.frags) : f.owned > 0 /\ f.inuse > InuseBound(f.owned)
                 THEN Fail("a fragment exceeds its share of MaxInuse by more than one entry")
            ELSE Ok
\* a key touched less than the idle window ago must still be there
IdleEv == /\ Ev.t = "idle" /\ UNCHANGED <<seq, cfg>>
          /\ IF Ev.ret = "notfound" /\ Ev.since < cfg.window THEN Fail("a key touched within the idle window was evicted")
             ELSE IF Ev.ret \notin {"val", "notfound"} THEN Fail("idle probe failed: " \o Ev.ret)
             ELSE Ok
\* an untouched key is gone after the window (observed with a generous time-out by the driver)
GoneEv == /\ Ev.t = "gone" /\ UNCHANGED <<seq, cfg>>
          /\ IF ~Ev.gone THEN Fail("an idle key never disappeared") ELSE Ok
Next == i <= Len(Trace) /\ i' = i + 1 /\ (Reset \/ PutEv \/ IdleEv \/ GoneEv)
Spec == i = 1 /\ err = "" /\ seq = 0 /\ cfg = <<>> /\ [][Next]_vars
=============================================================================
