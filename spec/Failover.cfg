SPECIFICATION Spec
CONSTANTS
  Members = {"m1", "m2", "m3"}
  R = 3
  MaxFail = 2
  FailOnlyWhenStable = TRUE
  Promote = FALSE
INVARIANTS Readable
CHECK_DEADLOCK FALSE
