---------------------------- MODULE Failover ----------------------------
(* What happens to the copies of ONE partition when members fail (C02 at the design level; known finding D27).

   Every member may hold the partition's data in its PRIMARY fragment and / or in its BACKUP fragment.  The routing table
   names one primary owner and min(R, live)-1 backup owners, distinct live members other than the primary (C13).  After a
   failure the table is recomputed: any live member may become the primary owner, any admissible set the backup owners.
   The balancer then runs on every member (internal/cluster/balancer):
     primaryCopies : a member that holds primary data and is not the primary owner sends it to the owner and drops it;
     backupCopies  : a member that holds backup data and is not a backup owner sends it to the backup owners and drops it -
                     and SKIPS the partition when there are no backup owners at all.
   A read (internal/dmap get.go) finds the data in the primary fragment of the owner, in the primary fragment of a previous
   owner (here: any live member that still holds primary data), or in the BACKUP fragment of a current backup OWNER.

   Promote = FALSE is the code as it is: a backup owner that is promoted to primary owner keeps its only copy in its backup
   fragment.  It ships that copy away and drops it (one copy fewer than survivors), or - as the last member - keeps it where no
   read looks.  Configuration Failover.cfg (Promote = FALSE) is expected to violate Readable with R = N = 3 and two failures:
   that counterexample is D27.  Promote = TRUE merges the backup fragment of a promoted member into its primary fragment
   first (the repair that was tried and withdrawn, DESIGN.md 13.5); Failover_promote.cfg holds. *)
EXTENDS Naturals, FiniteSets, TLC

CONSTANTS Members, R, MaxFail, Promote, FailOnlyWhenStable

VARIABLES alive, owner, bowners, prim, back, failed
vars == <<alive, owner, bowners, prim, back, failed>>

Min(a, b) == IF a < b THEN a ELSE b
Tables(live) == {t \in [o : live, b : SUBSET live] : t.o \notin t.b /\ Cardinality(t.b) = Min(R, Cardinality(live)) - 1}

Init == /\ alive = Members /\ failed = 0
        /\ \E t \in Tables(Members) : owner = t.o /\ bowners = t.b
        \* written while all members were present: the owner holds the primary copy, every backup owner a backup copy
        /\ prim = [m \in Members |-> m = owner]
        /\ back = [m \in Members |-> m \in bowners]

BalancePrimary(m) == /\ m \in alive /\ prim[m] /\ m # owner
                     /\ prim' = [prim EXCEPT ![owner] = TRUE, ![m] = FALSE]
                     /\ UNCHANGED <<alive, owner, bowners, back, failed>>

BalanceBackup(m) ==
  /\ m \in alive /\ back[m] /\ m \notin bowners
  /\ IF Promote /\ m = owner
     THEN \* adopt the copy, then pass it on
          /\ prim' = [prim EXCEPT ![m] = TRUE]
          /\ back' = [x \in Members |-> IF x \in bowners THEN TRUE ELSE IF x = m THEN FALSE ELSE back[x]]
     ELSE /\ bowners # {}              \* no backup owners: the balancer skips the partition
          /\ back' = [x \in Members |-> IF x \in bowners THEN TRUE ELSE IF x = m THEN FALSE ELSE back[x]]
          /\ prim' = prim
  /\ UNCHANGED <<alive, owner, bowners, failed>>

\* FailOnlyWhenStable: a member fails only when the balancer has nothing left to do (the C02 driver waits for that between
\* two failures).  Without it the model also shows the window in which a primary owner that has become a backup owner has
\* handed its data to the new primary owner and holds nothing yet - the failover twin of known finding D26.
Fail(m) == /\ m \in alive /\ Cardinality(alive) > 1 /\ failed < MaxFail
           /\ (FailOnlyWhenStable => \A x \in alive : ~ENABLED BalancePrimary(x) /\ ~ENABLED BalanceBackup(x))
           /\ alive' = alive \ {m} /\ failed' = failed + 1
           /\ \E t \in Tables(alive \ {m}) : owner' = t.o /\ bowners' = t.b
           /\ UNCHANGED <<prim, back>>

Next == \E m \in Members : Fail(m) \/ BalancePrimary(m) \/ BalanceBackup(m)
Spec == Init /\ [][Next]_vars

Stable == \A m \in alive : ~ENABLED BalancePrimary(m) /\ ~ENABLED BalanceBackup(m)
Found == prim[owner] \/ (\E m \in alive : prim[m]) \/ (\E b \in bowners : back[b])
Holders == {m \in alive : prim[m] \/ back[m]}
\* with at most R-1 failures an acknowledged write is readable once the cluster has stabilised ...
Readable == (Stable /\ failed <= R - 1) => Found
\* ... and no copy is given up for nothing: as many members hold it as the table asks for
CopiesKept == (Stable /\ failed <= R - 1) => Cardinality(Holders) >= Min(R, Cardinality(alive))
=============================================================================
