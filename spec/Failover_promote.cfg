SPECIFICATION Spec
CONSTANTS
  Members = {"m1", "m2", "m3"}
  R = 3
  MaxFail = 2
  FailOnlyWhenStable = TRUE
  Promote = TRUE
INVARIANTS Readable CopiesKept
CHECK_DEADLOCK FALSE
