SPECIFICATION Spec
CHECK_DEADLOCK FALSE
CONSTANTS
  Puts = {p1, p2}
  Nops = {n1}
  Recheck = TRUE
  DeleteByIdentity = TRUE
  Janitors = 2
  Destroys = 1
  Compactions = 1
  ClosedIsDone = TRUE
INVARIANTS Readable LockExclusive
