------------------------------ MODULE FragLife ------------------------------
(* The life of ONE fragment slot (one DMap's store in one partition of one member): created on demand by the first
   writer (loadOrCreateFragment), locked by writers through lockFragment (look up, lock, look again if the fragment was
   closed meanwhile), wiped by the janitor when it is empty (janitor: Range -> Lock -> Length = 0 -> wipeOutFragment) and
   by Destroy whatever it holds and WITHOUT the fragment lock (destroyFragmentOnPartition -> wipeOutFragment).
   wipeOutFragment = close (cancel the fragment's context), destroy the storage, remove the entry from the partition's map -
   by NAME in the code as found (part.Map().Delete(name)), by identity after the repair (CompareAndDelete).

   One action per critical section / lookup of internal/dmap/{fragment,janitor,destroy_handlers,put,delete}.go.
   Client operations: a Put of the operation's own value, and an operation that only holds the fragment lock for a while
   (a Delete of a key that is not there).                                                                             *)
EXTENDS Naturals, FiniteSets

CONSTANTS Puts, Nops,        \* operation identifiers (model values); a Put stores its own identifier
          Recheck,           \* lockFragment looks the fragment up again when it finds it closed (repair of D19)
          DeleteByIdentity,  \* wipeOutFragment removes the map entry only if it still is the wiped fragment (repair of D39)
          Janitors, Destroys, \* how many janitor passes / Destroy calls may happen
          Compactions,        \* how many times the compaction worker may pick the slot up
          ClosedIsDone        \* Fragment.Compaction reports "done" for a closed fragment (repair of D30)

Ops == Puts \cup Nops
None == 0

VARIABLES pmap,     \* the partition's map entry for the DMap: a fragment id, or None
          nfrag,    \* fragments created so far (ids 1..nfrag)
          closed,   \* fragments whose context was cancelled
          data,     \* fragment id -> set of stored Puts
          lock,     \* fragment id -> the fragment lock is held
          pc, frag, \* per operation: control state and the fragment it looked up
          jpc, jfrag, jruns,
          dpc, dfrag, druns,
          cpc, cfrag, cruns, \* compaction worker: Range hands out a fragment, then lock - Compaction() - unlock until "done"
          acked,    \* Puts that were acknowledged
          excused   \* operations that began before a Destroy ended: Destroy may or may not have removed their effect
vars == <<pmap, nfrag, closed, data, lock, pc, frag, jpc, jfrag, jruns, dpc, dfrag, druns, cpc, cfrag, cruns, acked, excused>>

Frags == 1..(Cardinality(Ops) + 1)

Init == /\ pmap = None /\ nfrag = 0 /\ closed = {} /\ data = [f \in Frags |-> {}] /\ lock = [f \in Frags |-> FALSE]
        /\ pc = [o \in Ops |-> "idle"] /\ frag = [o \in Ops |-> None]
        /\ jpc = "idle" /\ jfrag = None /\ jruns = 0
        /\ dpc = "idle" /\ dfrag = None /\ druns = 0
        /\ cpc = "idle" /\ cfrag = None /\ cruns = 0
        /\ acked = {} /\ excused = {}

(* loadOrCreateFragment, under the partition's own mutex *)
Lookup(o) == /\ pc[o] \in {"idle", "retry"}
             /\ nfrag < Cardinality(Frags) \/ pmap # None
             /\ IF pmap = None
                  THEN /\ nfrag' = nfrag + 1 /\ pmap' = nfrag + 1 /\ frag' = [frag EXCEPT ![o] = nfrag + 1]
                  ELSE /\ frag' = [frag EXCEPT ![o] = pmap] /\ UNCHANGED <<nfrag, pmap>>
             /\ pc' = [pc EXCEPT ![o] = "looked"]
             /\ excused' = IF pc[o] = "idle" /\ dpc # "idle" THEN excused \cup {o} ELSE excused
             /\ UNCHANGED <<closed, data, lock, jpc, jfrag, jruns, dpc, dfrag, druns, cpc, cfrag, cruns, acked>>

(* f.Lock(), then the look at f.ctx *)
Lock(o) == /\ pc[o] = "looked" /\ ~lock[frag[o]]
           /\ IF Recheck /\ frag[o] \in closed
                THEN pc' = [pc EXCEPT ![o] = "retry"] /\ UNCHANGED lock          \* Unlock at once, look up again
                ELSE pc' = [pc EXCEPT ![o] = "locked"] /\ lock' = [lock EXCEPT ![frag[o]] = TRUE]
           /\ UNCHANGED <<pmap, nfrag, closed, data, frag, jpc, jfrag, jruns, dpc, dfrag, druns, cpc, cfrag, cruns, acked, excused>>

(* the write (or nothing) and the deferred Unlock; the reply follows *)
Apply(o) == /\ pc[o] = "locked"
            /\ data' = IF o \in Puts THEN [data EXCEPT ![frag[o]] = @ \cup {o}] ELSE data
            /\ lock' = [lock EXCEPT ![frag[o]] = FALSE]
            /\ pc' = [pc EXCEPT ![o] = "done"]
            /\ acked' = IF o \in Puts THEN acked \cup {o} ELSE acked
            /\ UNCHANGED <<pmap, nfrag, closed, frag, jpc, jfrag, jruns, dpc, dfrag, druns, cpc, cfrag, cruns, excused>>

Wipe(f) == /\ closed' = closed \cup {f}
           /\ pmap' = IF DeleteByIdentity /\ pmap # f THEN pmap ELSE None

(* janitor: Range hands out the fragment that is in the map now *)
JRange == /\ jpc = "idle" /\ jruns < Janitors /\ pmap # None
          /\ jfrag' = pmap /\ jpc' = "ranged"
          /\ UNCHANGED <<pmap, nfrag, closed, data, lock, pc, frag, jruns, dpc, dfrag, druns, cpc, cfrag, cruns, acked, excused>>
JLock == /\ jpc = "ranged" /\ ~lock[jfrag]
         /\ lock' = [lock EXCEPT ![jfrag] = TRUE] /\ jpc' = "locked"
         /\ UNCHANGED <<pmap, nfrag, closed, data, pc, frag, jfrag, jruns, dpc, dfrag, druns, cpc, cfrag, cruns, acked, excused>>
JWipe == /\ jpc = "locked"
         /\ IF data[jfrag] = {} THEN Wipe(jfrag) ELSE UNCHANGED <<closed, pmap>>
         /\ lock' = [lock EXCEPT ![jfrag] = FALSE] /\ jpc' = "idle" /\ jruns' = jruns + 1
         /\ UNCHANGED <<nfrag, data, pc, frag, jfrag, dpc, dfrag, druns, cpc, cfrag, cruns, acked, excused>>

(* Destroy: everything that began before it ends is excused *)
Started == {o \in Ops : pc[o] # "idle"}
DStart == /\ dpc = "idle" /\ druns < Destroys
          /\ dpc' = "started" /\ excused' = excused \cup Started
          /\ UNCHANGED <<pmap, nfrag, closed, data, lock, pc, frag, jpc, jfrag, jruns, dfrag, druns, cpc, cfrag, cruns, acked>>
DLoad == /\ dpc = "started"
         /\ IF pmap = None THEN dpc' = "idle" /\ druns' = druns + 1 /\ UNCHANGED dfrag
                           ELSE dpc' = "loaded" /\ dfrag' = pmap /\ UNCHANGED druns
         /\ excused' = excused \cup Started
         /\ UNCHANGED <<pmap, nfrag, closed, data, lock, pc, frag, jpc, jfrag, jruns, cpc, cfrag, cruns, acked>>
DWipe == /\ dpc = "loaded"
         /\ Wipe(dfrag)                      \* no fragment lock
         /\ dpc' = "idle" /\ druns' = druns + 1 /\ excused' = excused \cup Started
         /\ UNCHANGED <<nfrag, data, lock, pc, frag, jpc, jfrag, jruns, dfrag, cpc, cfrag, cruns, acked>>

(* compaction worker (doCompaction / callCompactionOnFragment): Range hands out the fragment that is in the map; then, until
   Compaction() says "done": Lock, one compaction step, Unlock, a millisecond's pause.  The storage of an open fragment is
   done after one step here (what a step moves is KVStore.tla's business); a CLOSED fragment reported "not done" for ever in
   the code as found - the worker never came back and the member was never compacted again (D30) *)
Others == <<pmap, nfrag, closed, data, pc, frag, jpc, jfrag, jruns, dpc, dfrag, druns, acked, excused>>
CRange == /\ cpc = "idle" /\ cruns < Compactions /\ pmap # None
          /\ cfrag' = pmap /\ cpc' = "ranged" /\ UNCHANGED <<lock, cruns>> /\ UNCHANGED Others
CLock == /\ cpc = "ranged" /\ ~lock[cfrag]
         /\ lock' = [lock EXCEPT ![cfrag] = TRUE] /\ cpc' = "locked" /\ UNCHANGED <<cfrag, cruns>> /\ UNCHANGED Others
CStep == /\ cpc = "locked"
         /\ lock' = [lock EXCEPT ![cfrag] = FALSE]
         /\ IF cfrag \in closed /\ ~ClosedIsDone
              THEN cpc' = "ranged" /\ UNCHANGED cruns          \* "not done": call again
              ELSE cpc' = "idle" /\ cruns' = cruns + 1
         /\ UNCHANGED cfrag /\ UNCHANGED Others

Next == \/ \E o \in Ops : Lookup(o) \/ Lock(o) \/ Apply(o)
        \/ JRange \/ JLock \/ JWipe \/ DStart \/ DLoad \/ DWipe
        \/ CRange \/ CLock \/ CStep
Spec == Init /\ [][Next]_vars
\* the worker's own steps are taken when they can be
FairSpec == Spec /\ WF_vars(CLock) /\ WF_vars(CStep) /\ \A o \in Ops : WF_vars(Lock(o)) /\ WF_vars(Apply(o)) /\ WF_vars(Lookup(o))
                 /\ WF_vars(JLock) /\ WF_vars(JWipe)
\* the compaction worker always gets through the slot (it is idle again and again)
WorkerReturns == []<>(cpc = "idle")

(* what a user relies on: an acknowledged Put that began after every Destroy before it had ended is found by a read
   (reads look the fragment up in the partition's map) *)
Readable == \A o \in acked \ excused : pmap # None /\ o \in data[pmap]
(* the fragment lock is exclusive; nobody but the map's fragment is ever written by a Put that saw it open *)
LockExclusive == /\ \A o1, o2 \in Ops : (o1 # o2 /\ pc[o1] = "locked" /\ pc[o2] = "locked") => frag[o1] # frag[o2]
                 /\ \A o \in Ops : (pc[o] = "locked" /\ jpc = "locked") => frag[o] # jfrag
                 /\ \A o \in Ops : (pc[o] = "locked" /\ cpc = "locked") => frag[o] # cfrag
                 /\ (jpc = "locked" /\ cpc = "locked") => jfrag # cfrag
=============================================================================
