\* lockFragment repaired, wipeOutFragment removes the map entry by name: must violate Readable (D39)
SPECIFICATION Spec
CHECK_DEADLOCK FALSE
CONSTANTS
  Puts = {p1}
  Nops = {n1}
  Recheck = TRUE
  DeleteByIdentity = FALSE
  Janitors = 1
  Destroys = 1
  Compactions = 0
  ClosedIsDone = TRUE
INVARIANTS Readable LockExclusive
