\* with the repair the worker always gets through
SPECIFICATION FairSpec
CHECK_DEADLOCK FALSE
CONSTANTS
  Puts = {p1}
  Nops = {n1}
  Recheck = TRUE
  DeleteByIdentity = TRUE
  Janitors = 1
  Destroys = 1
  Compactions = 2
  ClosedIsDone = TRUE
PROPERTY WorkerReturns
