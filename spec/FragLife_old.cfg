\* the code as found before 6e5e8d4: no second look after the lock; must violate Readable (D19)
SPECIFICATION Spec
CHECK_DEADLOCK FALSE
CONSTANTS
  Puts = {p1, p2}
  Nops = {}
  Recheck = FALSE
  DeleteByIdentity = FALSE
  Janitors = 1
  Destroys = 0
  Compactions = 0
  ClosedIsDone = TRUE
INVARIANTS Readable LockExclusive
