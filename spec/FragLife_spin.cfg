\* Fragment.Compaction reports "not done" for a closed fragment (the code as found): must violate WorkerReturns (D30)
SPECIFICATION FairSpec
CHECK_DEADLOCK FALSE
CONSTANTS
  Puts = {p1}
  Nops = {}
  Recheck = TRUE
  DeleteByIdentity = TRUE
  Janitors = 1
  Destroys = 1
  Compactions = 1
  ClosedIsDone = FALSE
PROPERTY WorkerReturns
