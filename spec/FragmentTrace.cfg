SPECIFICATION Spec
CONSTANTS
  TraceFile = "trace.ndjson"
CHECK_DEADLOCK FALSE
