---------------------------- MODULE FragmentTrace ----------------------------
(* C20 on real clusters (harness/reg TestC20Cluster): after a churn over a fixed key set, with the members' own compaction
   worker and janitor running, every fragment of every member - primary and backup - holds at most the live data, what the
   garbage threshold lets a table keep (40 %), and a small constant number of tables.  One event per fragment with the storage
   engine's statistics (white box). *)
EXTENDS Integers, Sequences, TLC, Json

CONSTANTS TraceFile
Trace == ndJsonDeserialize(TraceFile)
VARIABLES i, err, seq, T
vars == <<i, err, seq, T>>
Ev == Trace[i]
Fail(msg) == /\ err' = IF err = "" THEN msg ELSE err
             /\ (err = "" => PrintT("FAIL|" \o ToString(seq) \o "|" \o ToString(i) \o "|" \o msg))
Ok == err' = err
Reset == Ev.t = "reset" /\ seq' = Ev.seq /\ T' = Ev.T /\ err' = ""
Frag == /\ Ev.t = "frag" /\ UNCHANGED <<seq, T>>
        /\ LET where == (IF Ev.kind = "b" THEN "backup" ELSE "primary") \o " fragment of partition " \o ToString(Ev.part) \o " on member " \o ToString(Ev.m) IN
           IF Ev.allocated # Ev.tables * T THEN Fail("storage accounting is off in the " \o where)
           ELSE IF 60 * Ev.allocated > 100 * (Ev.inuse + 3 * T + Ev.tables * Ev.maxe)
                THEN Fail("allocation not bounded after churn and compaction in the " \o where \o ": " \o ToString(Ev.tables) \o " tables for "
                          \o ToString(Ev.inuse) \o " bytes in use")
           \* the same bound against the data that is alive: entries whose expiry has passed are not live data, wherever they are stored
           ELSE IF 60 * Ev.allocated > 100 * (Ev.alive + 3 * T + Ev.tables * Ev.maxe)
                THEN Fail("storage of expired entries is not given back in the " \o where \o ": " \o ToString(Ev.tables) \o " tables for "
                          \o ToString(Ev.alive) \o " bytes of live data")
           ELSE Ok
Next == i <= Len(Trace) /\ i' = i + 1 /\ (Reset \/ Frag)
Spec == i = 1 /\ err = "" /\ seq = 0 /\ T = 0 /\ [][Next]_vars
=============================================================================
