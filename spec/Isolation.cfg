SPECIFICATION Spec
CONSTANTS
  DMaps = {"ab", "a"}
  Keys = {"c", "bc"}
  Vals = {"x", "y"}
  MaxOps = 4
  Export = FALSE
  AllPaths = FALSE
VIEW view
INVARIANT ExportInv
PROPERTY Independent
CHECK_DEADLOCK FALSE
