---------------------------- MODULE Isolation ----------------------------
(* C19: DMaps are independent maps; Destroy empties one DMap on every member and leaves it usable.

   Abstract state: dm -> key -> value ("nil" = absent).  An operation names one DMap and changes only
   that DMap's map; Destroy(dm) makes every key of dm absent - on every member, primary and backup
   copies - and nothing else.  TLC explores all operation sequences over two DMaps whose names and keys
   collide when concatenated ("ab"+"c" = "a"+"bc") and exports one path per distinct state. *)
EXTENDS Naturals, Sequences, FiniteSets, TLC, Json

CONSTANTS DMaps, Keys, Vals, MaxOps, Export, AllPaths
VARIABLES m, nops, log
vars == <<m, nops, log>>
\* AllPaths: every operation sequence is a state of its own (sequences that reach the same abstract state need
\* not reach the same implementation state: which members know the DMap, which fragments exist)
view == IF AllPaths THEN <<m, nops, log>> ELSE <<m, nops, <<>> >>
Init == m = [d \in DMaps |-> [k \in Keys |-> "nil"]] /\ nops = 0 /\ log = <<>>
Logged(r) == log' = Append(log, r) /\ nops' = nops + 1
Put(d, k, v) == nops < MaxOps /\ m' = [m EXCEPT ![d][k] = v] /\ Logged([op |-> "put", d |-> d, k |-> k, v |-> v])
Delete(d, k) == nops < MaxOps /\ m' = [m EXCEPT ![d][k] = "nil"] /\ Logged([op |-> "del", d |-> d, k |-> k])
Destroy(d) == nops < MaxOps /\ m' = [m EXCEPT ![d] = [k \in Keys |-> "nil"]] /\ Logged([op |-> "destroy", d |-> d])
Next == \E d \in DMaps : Destroy(d) \/ \E k \in Keys : Delete(d, k) \/ \E v \in Vals : Put(d, k, v)
Spec == Init /\ [][Next]_vars
\* an operation on one DMap never changes another one
Independent == [][\A d \in DMaps : (log' # log /\ log'[Len(log')].d # d) => m'[d] = m[d]]_vars
ExportInv == Export => PrintT("BEH " \o ToJson(log))
=============================================================================
