---------------------------- MODULE IsolationTrace ----------------------------
(* C19 on real clusters (harness/reg TestC19): operations on two DMaps with colliding name+key
   concatenations, through every client; after each operation both DMaps are read completely
   (every key through a random client, a full scan, and - white box - every member's primary and
   backup fragments).  The abstract per-DMap maps of Isolation.tla are the oracle. *)
EXTENDS Integers, Sequences, FiniteSets, TLC, Json

CONSTANTS TraceFile
Trace == ndJsonDeserialize(TraceFile)
VARIABLES i, err, seq, mm
vars == <<i, err, seq, mm>>
Ev == Trace[i]
Fail(msg) == /\ err' = IF err = "" THEN msg ELSE err
             /\ (err = "" => PrintT("FAIL|" \o ToString(seq) \o "|" \o ToString(i) \o "|" \o msg))
Ok == err' = err
SeqSet(s) == {s[j] : j \in 1..Len(s)}
Key(d, k) == <<d, k>>
Val(d, k) == IF Key(d, k) \in DOMAIN mm THEN mm[Key(d, k)] ELSE "nil"
Set(f, x, v) == [y \in DOMAIN f \cup {x} |-> IF y = x THEN v ELSE f[y]]
PresentOf(d) == {x[2] : x \in {y \in DOMAIN mm : y[1] = d /\ mm[y] # "nil"}}

Reset == Ev.t = "reset" /\ seq' = Ev.seq /\ err' = "" /\ mm' = <<>>
Op == /\ Ev.t = "op" /\ UNCHANGED seq
      /\ IF Ev.ret \notin {"ok", "val", "num", "none"} THEN mm' = mm /\ Fail(Ev.op \o " on " \o Ev.d \o " failed: " \o Ev.ret)
         ELSE /\ Ok
              /\ mm' = CASE Ev.op \in {"put", "getput", "incr", "lock"} -> Set(mm, Key(Ev.d, Ev.k), Ev.v)
                         [] Ev.op \in {"del", "unlock"} -> Set(mm, Key(Ev.d, Ev.k), "nil")
                         [] Ev.op = "destroy" -> [x \in DOMAIN mm |-> IF x[1] = Ev.d THEN "nil" ELSE mm[x]]
                         [] OTHER -> mm
\* complete read-back of one DMap
Obs == /\ Ev.t = "obs" /\ UNCHANGED <<seq, mm>>
       /\ IF \E g \in SeqSet(Ev.gets) : g.v # Val(Ev.d, g.k)
          THEN Fail("DMap " \o Ev.d \o ": a read disagrees with what was done to this DMap (after " \o Ev.after \o ")")
          ELSE IF SeqSet(Ev.scan) # PresentOf(Ev.d) THEN Fail("DMap " \o Ev.d \o ": a scan does not yield exactly its keys (after " \o Ev.after \o ")")
          ELSE IF SeqSet(Ev.stored) # PresentOf(Ev.d) THEN Fail("DMap " \o Ev.d \o ": some member's fragments hold other keys than its own (after " \o Ev.after \o ")")
          \* where the number of copies is reported: every key is stored as often as the replica count says
          ELSE IF "copies" \in DOMAIN Ev /\ \E x \in SeqSet(Ev.copies) : x.n # Ev.want
               THEN Fail("DMap " \o Ev.d \o ": a key lost or gained a copy (after " \o Ev.after \o ")")
          ELSE Ok
Next == i <= Len(Trace) /\ i' = i + 1 /\ (Reset \/ Op \/ Obs)
Spec == i = 1 /\ err = "" /\ seq = 0 /\ mm = <<>> /\ [][Next]_vars
=============================================================================
