SPECIFICATION Spec
CONSTANTS
  Keys = {"a", "b", "c"}
  MaxOwners = 2
  MaxReplicas = 1
  Counts = {1, 2, 3}
  FixIdx = TRUE
  MaxRefresh = 1
  Export = FALSE
INVARIANTS ExactlyOnce NoDupEver Bounded ExportInit
PROPERTY Terminates
CHECK_DEADLOCK FALSE
