---------------------------- MODULE Iterator ----------------------------
(* cluster_iterator.go for ONE partition: the owners lists of the routing table (previous owners
   first, current owner last), a working copy `route` from which finished owners are removed,
   per-owner cursors (0 = start AND finished), a de-duplication set and a page.  One step = one
   fetchData round (primary owners, then replica owners).

   Modelled as the code does it (FixIdx = FALSE):
     - the round iterates the routing table's FULL owners list, not the working copy;
     - a finished owner is removed from the working copy BY ITS INDEX IN THE FULL LIST;
     - the working copy is a Go slice that shares its backing array with the routing table's
       list, so the removal shifts the routing table's own entries (Aliased);
     - the routing table is re-fetched every second (Refresh): the full list is whole again while
       the working copy keeps its removals.
   FixIdx = TRUE is the repaired algorithm: rounds iterate the working copy and remove by name.

   Every initial state (owners, their key lists in scan order, page size) is exported as a scenario
   that the Go driver builds on a real cluster with a fragmented partition (harness/scan). *)
EXTENDS Naturals, Sequences, FiniteSets, TLC, SequencesExt, Json

CONSTANTS Keys, MaxOwners, MaxReplicas, Counts, FixIdx, MaxRefresh, Export

VARIABLES fullP, fullR, keysOf, count, viewP, viewR, shared, routeP, routeR, cur, seen, out, done, rounds, refreshes
vars == <<fullP, fullR, keysOf, count, viewP, viewR, shared, routeP, routeR, cur, seen, out, done, rounds, refreshes>>

SeqSet(s) == {s[i] : i \in 1..Len(s)}
KeyLists == UNION {SetToSeqs(S) : S \in SUBSET Keys}

Init == /\ \E np \in 1..MaxOwners, nr \in 0..MaxReplicas :
             /\ fullP = [i \in 1..np |-> i] /\ fullR = [i \in 1..nr |-> 10 + i]
             /\ keysOf \in [SeqSet(fullP) \cup SeqSet(fullR) -> KeyLists]
        /\ count \in Counts
        /\ viewP = fullP /\ viewR = fullR /\ shared = TRUE
        /\ routeP = fullP /\ routeR = fullR
        /\ cur = [o \in SeqSet(fullP) \cup SeqSet(fullR) |-> 0]
        /\ seen = {} /\ out = <<>> /\ done = FALSE /\ rounds = 0 /\ refreshes = 0

\* abstract paged scan of one owner (DM.SCAN with COUNT)
Page(o, c) == LET ks == keysOf[o] n == Len(ks)
                  hi == IF c + count >= n THEN n ELSE c + count IN
              [keys |-> SubSeq(ks, c + 1, hi), next |-> IF c + count >= n THEN 0 ELSE c + count]

\* Go: route = append(route[:idx], route[idx+1:]...) when len(route) > idx (0-based idx = i - 1)
CanRemove(route, i) == Len(route) > 0 /\ Len(route) > i - 1
RemoveIdx(route, i) == IF CanRemove(route, i) THEN RemoveAt(route, i) ELSE route
\* the same append seen through the routing table's slice, which shares the backing array
ShiftView(view, route, i) ==
  IF ~CanRemove(route, i) THEN view
  ELSE [j \in 1..Len(view) |-> IF j >= i /\ j < Len(route) THEN view[j + 1] ELSE view[j]]

\* scanOnOwners for one kind
RECURSIVE ScanKind(_, _, _, _, _, _, _)
ScanKind(list, i, view, route, c, sn, pg) ==
  IF i > Len(list) THEN [view |-> view, route |-> route, cur |-> c, seen |-> sn, page |-> pg] ELSE
  LET o == list[i]
      r == Page(o, c[o])
      fresh == SelectSeq(r.keys, LAMBDA k : k \notin sn)
      \* a page may name a key twice (it cannot here: key lists have no repetition)
      sn2 == sn \cup SeqSet(r.keys)
      c2 == [c EXCEPT ![o] = r.next]
      route2 == IF r.next # 0 THEN route
                ELSE IF FixIdx THEN SelectSeq(route, LAMBDA x : x # o) ELSE RemoveIdx(route, i)
      view2 == IF r.next # 0 \/ FixIdx \/ ~shared THEN view ELSE ShiftView(view, route, i)
  IN ScanKind(list, i + 1, view2, route2, c2, sn2, pg \o fresh)

Round ==
  /\ ~done
  /\ LET listP == IF FixIdx THEN routeP ELSE viewP          \* getOwners() is taken once per kind and round
         a == ScanKind(listP, 1, viewP, routeP, cur, seen, <<>>)
         listR == IF FixIdx THEN routeR ELSE viewR
         b == ScanKind(listR, 1, viewR, routeR, a.cur, a.seen, a.page) IN
     /\ viewP' = a.view /\ viewR' = b.view
     /\ routeP' = a.route /\ routeR' = b.route /\ cur' = b.cur /\ seen' = b.seen
     /\ out' = out \o b.page
     /\ done' = (b.page = <<>> /\ a.route = <<>> /\ b.route = <<>>)
  /\ rounds' = rounds + 1
  /\ UNCHANGED <<fullP, fullR, keysOf, count, shared, refreshes>>

\* fetchRoutingTablePeriodically: the iterator's routing table is replaced by a fresh one
Refresh == /\ ~done /\ refreshes < MaxRefresh /\ rounds > 0
           /\ viewP' = fullP /\ viewR' = fullR /\ shared' = FALSE /\ refreshes' = refreshes + 1
           /\ UNCHANGED <<fullP, fullR, keysOf, count, routeP, routeR, cur, seen, out, done, rounds>>
           \* exported for the driver: "let a second pass after this many keys of the partition were consumed"
           /\ (Export => PrintT("BEH " \o ToJson([count |-> count, after |-> Len(out),
                                                   primary |-> [j \in 1..Len(fullP) |-> keysOf[fullP[j]]],
                                                   replica |-> [j \in 1..Len(fullR) |-> keysOf[fullR[j]]]])))

Next == Round \/ Refresh
Spec == Init /\ [][Next]_vars /\ WF_vars(Round)

AllKeys == UNION {SeqSet(keysOf[o]) : o \in DOMAIN keysOf}
Terminates == <>done
Bounded == rounds <= 4 * (Cardinality(Keys) + 2)
ExactlyOnce == done => /\ SeqSet(out) = AllKeys /\ Len(out) = Cardinality(AllKeys)
NoDupEver == Len(out) = Cardinality(SeqSet(out))
RoundsBound == rounds <= 8
ExportInit == (Export /\ rounds = 0) =>
                PrintT("BEH " \o ToJson([count |-> count, after |-> 99, primary |-> [j \in 1..Len(fullP) |-> keysOf[fullP[j]]],
                                          replica |-> [j \in 1..Len(fullR) |-> keysOf[fullR[j]]]]))
=============================================================================
