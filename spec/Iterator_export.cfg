SPECIFICATION Spec
CONSTANTS
  Keys = {"a", "b", "c"}
  MaxOwners = 2
  MaxReplicas = 0
  Counts = {1, 2, 3}
  FixIdx = TRUE
  MaxRefresh = 1
  Export = TRUE
INVARIANTS ExactlyOnce NoDupEver ExportInit
CONSTRAINT RoundsBound
CHECK_DEADLOCK FALSE
