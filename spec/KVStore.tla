---------------------------- MODULE KVStore ----------------------------
(* Implementation-shaped model of internal/kvstore: a fragment's store is a list of
   fixed-size append-only tables (kvstore.go, table/table.go), compaction (compaction.go),
   table transfer (transport.go) and scan cursors (scanCommon).  One action per public
   call of storage.Engine.  Ghost variable `ref` is the abstract map (KVStoreAbs) the
   store must behave as; `dst` is the abstract content of the receiver of transferred
   tables.

   Fix* constants switch between the behaviour of the pinned tree (FALSE) and the
   repaired algorithm (TRUE); see DESIGN.md section 7 (D1..D6).

   Bound to the code in two directions:
     - every distinct state reached by TLC exports the operation path that reached it
       (variable `log`, hidden from the state by VIEW); the Go driver replays each path
       on the real store (harness/kv);
     - the real store's observable behaviour on those and on random programs is validated
       against KVStoreAbs by KVStoreTrace.tla. *)
EXTENDS Naturals, Sequences, FiniteSets, TLC, SequencesExt, FiniteSetsExt, Json

CONSTANTS Keys,        \* key names
          Sizes,       \* entry sizes in bytes (29 + |key| + |value|)
          T,           \* table size in bytes
          MaxCf,       \* bound on the number of table creations
          MaxOps,      \* bound on the number of operations
          Counts,      \* scan page sizes evaluated by ScanComplete
          Batch,       \* entries moved per Compaction() call before it yields (code: 1001)
          AllOrders,   \* TRUE: compaction explores every map-iteration order
          IdleExpire,  \* TRUE: maxIdleTableTimeout = 0 (recycled tables are freed at once)
          FixD1, FixD2, FixD3, FixD4, FixD5, FixD6, FixD21,
          DstMax,      \* > 0: the receiver of transferred tables cannot store entries of this size or more (smaller tables)
          FixD35,      \* TRUE: an import whose merge function failed fails, and the sender keeps its table
          Export       \* TRUE: print one operation path per distinct state

VARIABLES tabs, nextCf, byCf, ref, dst, nops, ver, log
vars == <<tabs, nextCf, byCf, ref, dst, nops, ver, log>>
view == <<tabs, nextCf, byCf, ref, dst, nops, ver>>

Absent == [ver |-> 0, size |-> 0, ttl |-> 0, ts |-> 0]
EmptyFn == [x \in {} |-> 0]
NewTable(cf) == [cf |-> cf, state |-> "rw", offset |-> 0, inuse |-> 0, garbage |-> 0,
                 idx |-> EmptyFn, offs |-> {}, mem |-> EmptyFn]

Init == /\ tabs = <<NewTable(0)>> /\ nextCf = 1 /\ byCf = {0}      \* Fork() creates table 0
        /\ ref = [k \in Keys |-> Absent] /\ dst = [k \in Keys |-> Absent]
        /\ nops = 0 /\ ver = 0 /\ log = <<>>

---------------------------------------------------------------------------
(* table.go *)
TableDelete(t, k) ==
  LET off == t.idx[k]  sz == t.mem[off].size IN
  [t EXCEPT !.idx = Restrict(t.idx, DOMAIN t.idx \ {k}), !.offs = @ \ {off},
            !.mem = Restrict(t.mem, DOMAIN t.mem \ {off}),      \* dead bytes are not part of the state
            !.garbage = @ + sz, !.inuse = @ - sz]

TableInsert(t, k, e) ==
  [t EXCEPT !.idx = (k :> t.offset) @@ t.idx, !.offs = @ \cup {t.offset},
            !.inuse = @ + e.size, !.mem = (t.offset :> e) @@ t.mem, !.offset = @ + e.size]

TablePut(t, k, e)    == TableInsert(IF k \in DOMAIN t.idx THEN TableDelete(t, k) ELSE t, k, e)
TablePutRaw(t, k, e) == IF FixD3 THEN TablePut(t, k, e) ELSE TableInsert(t, k, e)

Fits(t, e) == ~(e.size + t.offset >= T)

(* kvstore.go makeTable: the head becomes read-only; the first recycled table is moved to
   the end and reused, otherwise a new table is allocated. *)
MakeTable(ts, cf) ==
  IF Len(ts) = 0 THEN <<NewTable(cf)>> ELSE
  LET marked == IF FixD21 /\ ts[Len(ts)].state = "rec" THEN ts ELSE [ts EXCEPT ![Len(ts)].state = "ro"]
      rec == {j \in 1..Len(marked) : marked[j].state = "rec"}
  IN IF rec # {} THEN
        LET j == Min(rec) IN Append(RemoveAt(marked, j), [marked[j] EXCEPT !.cf = cf, !.state = "rw"])
     ELSE Append(marked, NewTable(cf))

\* repair of D1: a key written again must not stay alive in the older tables
PurgeOlder(ts, k) ==
  [j \in 1..Len(ts) |-> IF j < Len(ts) /\ k \in DOMAIN ts[j].idx THEN TableDelete(ts[j], k) ELSE ts[j]]

RECURSIVE StorePut(_, _, _, _, _, _)
StorePut(ts, cf, reg, k, e, raw) ==
  \* D21: after every live table was dropped by a transfer the last table can be a recycled
  \* one; the pinned code writes into it as it is (no coefficient, invisible to scan and export)
  IF Len(ts) = 0 \/ (FixD21 /\ ts[Len(ts)].state = "rec") \/ ~Fits(ts[Len(ts)], e)
  THEN StorePut(MakeTable(ts, cf), cf + 1, reg \cup {cf}, k, e, raw)
  ELSE LET n == Len(ts)
           ts1 == [ts EXCEPT ![n] = IF raw THEN TablePutRaw(ts[n], k, e) ELSE TablePut(ts[n], k, e)]
       IN <<IF FixD1 THEN PurgeOlder(ts1, k) ELSE ts1, cf, reg>>

\* newest-to-oldest: index of the first table holding k, 0 if none
Holder(ts, k) == LET H == {j \in 1..Len(ts) : k \in DOMAIN ts[j].idx} IN IF H = {} THEN 0 ELSE Max(H)
Lookup(ts, k) == LET j == Holder(ts, k) IN IF j = 0 THEN Absent ELSE ts[j].mem[ts[j].idx[k]]
Length(ts) == LET RECURSIVE Sum(_) Sum(j) == IF j = 0 THEN 0 ELSE Cardinality(DOMAIN ts[j].idx) + Sum(j-1) IN Sum(Len(ts))
RangeKeys(ts) == LET RECURSIVE Cat(_) Cat(j) == IF j = 0 THEN <<>> ELSE SetToSeq(DOMAIN ts[j].idx) \o Cat(j-1) IN Cat(Len(ts))

Logged(rec) == log' = Append(log, rec)

\* entry too large: the code compares with > (pinned) or >= (repaired); an entry with
\* size = T passes the pinned check and never fits: Put does not terminate (D6).
TooLarge(sz) == IF FixD6 THEN sz >= T ELSE sz > T

Put(k, sz, raw) ==
  /\ nops < MaxOps
  /\ ~TooLarge(sz) /\ sz < T             \* sz = T with FixD6 = FALSE: non-termination, not modelled as a step
  /\ LET e == [key |-> k, ver |-> ver + 1, size |-> sz, ttl |-> 0, ts |-> ver + 1]
         r == StorePut(tabs, nextCf, byCf, k, e, raw) IN
     /\ r[2] <= MaxCf
     /\ tabs' = r[1] /\ nextCf' = r[2] /\ byCf' = r[3]
     /\ ref' = [ref EXCEPT ![k] = [ver |-> ver + 1, size |-> sz, ttl |-> 0, ts |-> ver + 1]]
  /\ ver' = ver + 1 /\ nops' = nops + 1
  /\ Logged([op |-> IF raw THEN "putraw" ELSE "put", k |-> k, sz |-> sz])
  /\ UNCHANGED dst

PutTooLarge(k, sz) ==
  /\ nops < MaxOps /\ TooLarge(sz)
  /\ nops' = nops + 1 /\ Logged([op |-> "put", k |-> k, sz |-> sz])
  /\ UNCHANGED <<tabs, nextCf, byCf, ref, dst, ver>>

Delete(k) ==
  /\ nops < MaxOps
  /\ LET j == Holder(tabs, k) IN
       tabs' = IF j = 0 THEN tabs ELSE [tabs EXCEPT ![j] = TableDelete(tabs[j], k)]
  /\ ref' = [ref EXCEPT ![k] = Absent]
  /\ nops' = nops + 1 /\ Logged([op |-> "del", k |-> k])
  /\ UNCHANGED <<nextCf, byCf, ver, dst>>

\* UpdateTTL rewrites ttl and timestamp in place in the newest table holding the key
UpdateTTL(k) ==
  /\ nops < MaxOps
  /\ LET j == Holder(tabs, k) IN
     IF j = 0 THEN UNCHANGED <<tabs, ref>>
     ELSE LET off == tabs[j].idx[k]
              e == [tabs[j].mem[off] EXCEPT !.ttl = ver + 1, !.ts = ver + 1] IN
          /\ tabs' = [tabs EXCEPT ![j].mem[off] = e]
          /\ ref' = [ref EXCEPT ![k].ttl = ver + 1, ![k].ts = ver + 1]
  /\ ver' = ver + 1 /\ nops' = nops + 1 /\ Logged([op |-> "uttl", k |-> k])
  /\ UNCHANGED <<nextCf, byCf, dst>>

---------------------------------------------------------------------------
(* compaction.go *)
\* a table is compacted when its garbage reaches 40 % - of the table size for the table that accepts the writes, of the part
\* in use (live and dead bytes) for a sealed one (repaired D29: a table sealed nearly empty never reached 40 % of its size)
OverThresholdAt(ts, j) == LET t == ts[j]
                              size == IF j = Len(ts) THEN T ELSE t.inuse + t.garbage IN
                          t.garbage > 0 /\ t.garbage * 100 >= size * 40
ResetTable(t) == [t EXCEPT !.idx = EmptyFn, !.state = "rec", !.inuse = 0, !.garbage = 0, !.offset = 0, !.cf = 0]

\* evictTable: re-insert (PutRaw through the store, which allocates tables itself) the live
\* entries of the table identified by coefficient c in map-iteration order, at most Batch of them
RECURSIVE Evict(_, _, _, _, _, _)
Evict(ts, cf, reg, c, order, n) ==
  IF order = <<>> \/ n = 0 THEN <<ts, cf, reg>> ELSE
  LET k == Head(order)
      j == CHOOSE x \in 1..Len(ts) : ts[x].cf = c /\ ts[x].state # "rec"
      e == ts[j].mem[ts[j].idx[k]]
      r == StorePut(ts, cf, reg, k, e, TRUE)
      ts1 == r[1]
      \* PutRaw may have moved a recycled table to the end: locate the source again
      jj == CHOOSE x \in 1..Len(ts1) : ts1[x].cf = c /\ ts1[x].state # "rec"
      ts2 == [ts1 EXCEPT ![jj] = IF k \in DOMAIN ts1[jj].idx THEN TableDelete(ts1[jj], k) ELSE ts1[jj]]
  IN Evict(ts2, r[2], r[3], c, Tail(order), n - 1)

Candidates == {j \in 1..Len(tabs) : OverThresholdAt(tabs, j) /\ tabs[j].state # "rec"}
Recycled(ts) == {j \in 1..Len(ts) : ts[j].state = "rec"}

\* removal of expired recycled tables (second loop of Compaction): with the idle timeout at
\* zero every recycled table is freed, but never the only table
RECURSIVE DropRecycled(_, _)
DropRecycled(ts, reg) ==
  LET R == {j \in 1..Len(ts) : ts[j].state = "rec"} IN
  IF R = {} \/ Len(ts) = 1 THEN <<ts, reg>>
  ELSE LET j == Min(R) IN DropRecycled(RemoveAt(ts, j), IF FixD5 THEN reg ELSE reg \ {ts[j].cf})

KeyOrders(t) == IF AllOrders THEN SetToSeqs(DOMAIN t.idx)
                ELSE {SetToSeq(DOMAIN t.idx)}

CompactionStep ==
  /\ nops < MaxOps
  /\ IF Candidates # {}
     THEN LET j0 == Min(Candidates)
              \* repair of D2: the write table cannot be compacted into itself
              pre == IF FixD2 /\ j0 = Len(tabs) THEN <<MakeTable(tabs, nextCf), nextCf + 1, byCf \cup {nextCf}>>
                     ELSE <<tabs, nextCf, byCf>>
              c == tabs[j0].cf
          IN \E order \in KeyOrders(tabs[j0]) :
               LET r == Evict(pre[1], pre[2], pre[3], c, order, Batch)
                   ts == r[1]
                   jj == CHOOSE x \in 1..Len(ts) : ts[x].cf = c /\ ts[x].state # "rec" IN
               /\ r[2] <= MaxCf
               /\ IF ts[jj].inuse = 0
                  THEN tabs' = [ts EXCEPT ![jj] = ResetTable(ts[jj])] /\ byCf' = r[3] \ {c}
                  ELSE tabs' = ts /\ byCf' = r[3]
               /\ nextCf' = r[2]
               /\ Logged([op |-> "compact", done |-> FALSE])
     ELSE /\ LET r == IF IdleExpire THEN DropRecycled(tabs, byCf) ELSE <<tabs, byCf>> IN
               tabs' = r[1] /\ byCf' = r[2]
          /\ UNCHANGED nextCf
          /\ Logged([op |-> "compact", done |-> TRUE])
  /\ nops' = nops + 1 /\ UNCHANGED <<ref, dst, ver>>

---------------------------------------------------------------------------
(* transport.go: Export the first table that is not recycled, hand every entry of it to the
   receiver (Import calls f per entry; the receiver keeps the newer timestamp), Drop it. *)
Exportable == {j \in 1..Len(tabs) : tabs[j].state # "rec"}
Transfer ==
  /\ nops < MaxOps /\ Exportable # {}
  /\ LET j == Min(Exportable)
         t == tabs[j]
         arriving == [k \in DOMAIN t.idx |-> t.mem[t.idx[k]]]
         refused == {k \in DOMAIN arriving : DstMax > 0 /\ arriving[k].size >= DstMax}
         Merge(S) == [k \in Keys |-> IF k \in S /\ arriving[k].ts >= dst[k].ts
                                     THEN [ver |-> arriving[k].ver, size |-> arriving[k].size,
                                           ttl |-> arriving[k].ttl, ts |-> arriving[k].ts]
                                     ELSE dst[k]]
         Dropped == /\ tabs' = RemoveAt(tabs, j)
                    /\ byCf' = byCf \ {t.cf}
                    \* the abstract store loses exactly the keys whose current version was in that table
                    /\ ref' = [k \in Keys |-> IF k \in DOMAIN t.idx /\ Holder(tabs, k) = j THEN Absent ELSE ref[k]] IN
     IF refused = {}
     THEN dst' = Merge(DOMAIN arriving) /\ Dropped
     ELSE \* Import hands the entries over one by one, in the order of a Go map, and stops at the first one the
          \* receiver cannot store: any subset of the others may have arrived by then
          \E S \in SUBSET (DOMAIN arriving \ refused) :
             /\ dst' = Merge(S)
             /\ IF FixD35 THEN UNCHANGED <<tabs, byCf, ref>> ELSE Dropped
  /\ nops' = nops + 1 /\ Logged([op |-> "xfer"])
  /\ UNCHANGED <<nextCf, ver>>

---------------------------------------------------------------------------
(* scanCommon + Table.Scan *)
TableIdx(cf) == CHOOSE j \in 1..Len(tabs) : tabs[j].cf = cf /\ tabs[j].state # "rec"
HasTable(cf) == cf \in byCf       \* tablesByCoefficient
NextCf(cf) == LET S == {c \in byCf : c > cf} IN IF S = {} THEN 0 ELSE Min(S)   \* 0 = io.EOF

TableScan(t, cursor, count) ==
  LET cand == {o \in t.offs : o >= cursor}
      RECURSIVE Take(_, _, _)
      Take(S, n, acc) == IF S = {} \/ n = 0 THEN <<acc, S>> ELSE LET o == Min(S) IN Take(S \ {o}, n - 1, Append(acc, o))
      r == Take(cand, count, <<>>)
      taken == r[1]
  IN [keys |-> [i \in 1..Len(taken) |-> t.mem[taken[i]].key],
      cursor |-> IF r[2] = {} THEN 0 ELSE taken[Len(taken)] + 1]

ScanStep(cursor, count) ==
  IF Len(tabs) = 0 THEN [keys |-> <<>>, cursor |-> 0] ELSE
  LET cf0 == cursor \div T
      ok0 == HasTable(cf0)
      cf  == IF ok0 THEN cf0 ELSE NextCf(cf0)
  IN IF ~ok0 /\ cf = 0 THEN [keys |-> <<>>, cursor |-> 0] ELSE
  LET cur == IF ok0 THEN cursor ELSE cf * T
      tc  == IF cf > 0 THEN cur - T * cf ELSE cur
      r   == TableScan(tabs[TableIdx(cf)], tc, count)
  IN IF r.cursor = 0 THEN
        IF cf + 1 \in byCf THEN [keys |-> r.keys, cursor |-> T * (cf + 1)]
        ELSE LET nx == NextCf(cf) IN
             IF nx = 0 THEN [keys |-> r.keys, cursor |-> 0]
             ELSE [keys |-> r.keys, cursor |-> IF FixD4 THEN T * nx ELSE T * (nx + 1)]
     ELSE [keys |-> r.keys, cursor |-> r.cursor + T * cf]

RECURSIVE FullScan(_, _, _, _)
FullScan(cursor, count, fuel, acc) ==
  IF fuel = 0 THEN <<acc, FALSE>> ELSE
  LET r == ScanStep(cursor, count) IN
  IF r.cursor = 0 THEN <<acc \o r.keys, TRUE>> ELSE FullScan(r.cursor, count, fuel - 1, acc \o r.keys)

Present == {k \in Keys : ref[k] # Absent}

---------------------------------------------------------------------------
(* properties *)
\* C11: lookups, the reported length and iteration agree with the abstract map
Refines == /\ \A k \in Keys : LET e == Lookup(tabs, k) IN
                 /\ e.ver = ref[k].ver /\ e.ttl = ref[k].ttl /\ e.ts = ref[k].ts /\ e.size = ref[k].size
           /\ Length(tabs) = Cardinality(Present)
           /\ LET r == RangeKeys(tabs) IN ToSet(r) = Present /\ Len(r) = Cardinality(Present)
\* C12: a cursor walk from 0 to 0 terminates and yields exactly the present keys
ScanComplete == \A c \in Counts : LET r == FullScan(0, c, 4 * (MaxCf + Cardinality(Keys) + 2), <<>>) IN
                   /\ r[2]
                   /\ ToSet(r[1]) = Present
\* C20: accounting identities
LiveBytes == LET RECURSIVE S(_) S(K) == IF K = {} THEN 0 ELSE LET k == CHOOSE x \in K : TRUE IN ref[k].size + S(K \ {k})
             IN S(Present)
InuseTotal == LET RECURSIVE S(_) S(j) == IF j = 0 THEN 0 ELSE tabs[j].inuse + S(j - 1) IN S(Len(tabs))
Accounting == /\ \A j \in 1..Len(tabs) :
                 /\ tabs[j].inuse + tabs[j].garbage = tabs[j].offset
                 /\ Cardinality(tabs[j].offs) = Cardinality(DOMAIN tabs[j].idx)
                 /\ tabs[j].state = "rec" => tabs[j].offset = 0 /\ tabs[j].offs = {}
              /\ InuseTotal = LiveBytes
\* C20: once no table is over the garbage threshold, allocation is bounded by the live data
NumLive == Cardinality({j \in 1..Len(tabs) : tabs[j].state # "rec"})
Compacted == Candidates = {}
BoundedAfterCompaction ==
  Compacted => (NumLive * T) * 60 <= 100 * (LiveBytes + 2 * T + NumLive * Max(Sizes))
\* C20: once compaction is complete no sealed table is left without a live entry
NoDeadTables == Compacted => \A j \in 1..(Len(tabs) - 1) : tabs[j].state # "rec" => DOMAIN tabs[j].idx # {}
\* C11: compaction never changes the contents
CompactionSafe == [][ref' = ref /\ dst' = dst /\ ver' = ver =>
                      \A k \in Keys : Lookup(tabs', k) = Lookup(tabs, k)]_vars
\* C11/C20: compaction reaches completion in a bounded number of steps - every step that finds
\* a table over the threshold strictly decreases (number of such tables, live entries of the first)
MaxEntries == (T \div Min(Sizes)) + 1
Measure(ts) == LET C == {j \in 1..Len(ts) : OverThresholdAt(ts, j) /\ ts[j].state # "rec"} IN
               IF C = {} THEN 0 ELSE Cardinality(C) * (MaxEntries + 1) + Cardinality(DOMAIN ts[Min(C)].idx)
IsCompact == Len(log') = Len(log) + 1 /\ log'[Len(log')].op = "compact"
CompactionProgress == [][(Candidates # {} /\ IsCompact)
                           => Measure(tabs') < Measure(tabs)]_vars
\* each key lives in at most one table (what the repair of D1 establishes)
SingleVersion == \A k \in Keys : Cardinality({j \in 1..Len(tabs) : k \in DOMAIN tabs[j].idx}) <= 1
\* byCf is exactly the set of coefficients of the live tables
CfRegistry == byCf = {tabs[j].cf : j \in {x \in 1..Len(tabs) : tabs[x].state # "rec"}}

ExportInv == Export => PrintT("BEH " \o ToJson(log))

Next == \/ \E k \in Keys, sz \in Sizes : Put(k, sz, FALSE) \/ Put(k, sz, TRUE) \/ PutTooLarge(k, sz)
        \/ \E k \in Keys : Delete(k) \/ UpdateTTL(k)
        \/ CompactionStep
        \/ Transfer
Spec == Init /\ [][Next]_vars
\* a key leaves the sender with a transferred table only if the receiver holds that version or a newer one (D35)
TransferSafe == [][\A k \in Keys : (ref[k] # Absent /\ ref'[k] = Absent /\ Len(tabs') < Len(tabs))
                                    => (dst'[k] # Absent /\ dst'[k].ts >= ref[k].ts)]_vars
=============================================================================
