---------------------------- MODULE KVStoreAbs ----------------------------
(* What a user of storage.Engine relies on (C11): a fragment's store is a map from key to
   (value id, size, ttl, timestamp).  Compaction does not change it; exporting a table hands
   over some of the present keys - each with its current entry - and removes exactly those.
   `d` is the content of the receiver of transferred tables (newest timestamp wins). *)
EXTENDS Naturals, Sequences, FiniteSets

VARIABLES m, d

NoEntry == [id |-> 0, sz |-> 0, ttl |-> 0, ts |-> 0]
IsPresent(k) == m[k].id # 0
PresentKeys == {k \in DOMAIN m : m[k].id # 0}

AbsInit(K) == m = [k \in K |-> NoEntry] /\ d = [k \in K |-> NoEntry]
AbsReset(K) == m' = [k \in K |-> NoEntry] /\ d' = [k \in K |-> NoEntry]

AbsPut(k, e) == m' = [m EXCEPT ![k] = e] /\ UNCHANGED d
AbsDelete(k) == m' = [m EXCEPT ![k] = NoEntry] /\ UNCHANGED d
\* returns not-found for an absent key and changes nothing
AbsUpdateTTL(k, ttl, ts) ==
  /\ m' = IF IsPresent(k) THEN [m EXCEPT ![k].ttl = ttl, ![k].ts = ts] ELSE m
  /\ UNCHANGED d
AbsCompact == UNCHANGED <<m, d>>
\* S: the keys that travelled with the exported table
AbsTransfer(S) ==
  /\ S \subseteq PresentKeys
  /\ d' = [k \in DOMAIN d |-> IF k \in S /\ m[k].ts >= d[k].ts THEN m[k] ELSE d[k]]
  /\ m' = [k \in DOMAIN m |-> IF k \in S THEN NoEntry ELSE m[k]]

\* an import that failed: the receiver keeps what it stored before the failure, the sender keeps its table
AbsCopy(S) ==
  /\ S \subseteq PresentKeys
  /\ d' = [k \in DOMAIN d |-> IF k \in S /\ m[k].ts >= d[k].ts THEN m[k] ELSE d[k]]
  /\ UNCHANGED m

LiveBytes == LET RECURSIVE S(_) S(K) == IF K = {} THEN 0 ELSE LET k == CHOOSE x \in K : TRUE IN m[k].sz + S(K \ {k})
             IN S(PresentKeys)
=============================================================================
