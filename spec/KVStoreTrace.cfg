SPECIFICATION TSpec
CONSTANTS
  TraceFile = "trace.ndjson"
  Prop = "ALL"
CHECK_DEADLOCK FALSE
