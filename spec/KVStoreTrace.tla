---------------------------- MODULE KVStoreTrace ----------------------------
(* Trace validation of the real internal/kvstore against KVStoreAbs.

   The Go driver (harness/kv) executes programs on the real store - the operation paths
   TLC exported from KVStore.tla, its own exhaustive short sequences and long seeded random
   ones - and logs one line per call with the call's result, followed by an `obs` line with
   a complete read-back through the storage.Engine interface.  The trace is sequential and
   fully logged, so every step is deterministic: each line is consumed, the abstract state is
   advanced with KVStoreAbs' actions and the first disagreement of each sequence is recorded in
   `err` and printed ("FAIL|sequence|line|message").  Which groups of checks apply is selected by Prop:
     C11 map semantics, C12 scan completeness, C20 accounting and boundedness, ALL. *)
EXTENDS KVStoreAbs, Integers, TLC, Json, SequencesExt, FiniteSetsExt

CONSTANTS TraceFile, Prop
Trace == ndJsonDeserialize(TraceFile)

VARIABLES i, err, meta, cstreak, compacted,
          walk   \* a cursor walk interleaved with the other calls: the keys present when it began, the keys touched since
tvars == <<i, err, meta, cstreak, compacted, walk, m, d>>
NoWalk == [p0 |-> {}, touched |-> {}]
Touch(ks) == walk' = [walk EXCEPT !.touched = @ \cup ks]

Has(r, f) == f \in DOMAIN r
Want(p) == Prop = "ALL" \/ Prop = p

TInit == /\ i = 1 /\ err = "" /\ cstreak = 0 /\ compacted = FALSE
         /\ meta = [T |-> 0, idle |-> 1, ntab |-> 1, len |-> 0, maxe |-> 0, seq |-> 0, wcur |-> 0, wmax |-> 0]
         /\ m = <<>> /\ d = <<>> /\ walk = NoWalk

Ev == Trace[i]
\* the first disagreement of a sequence is recorded and printed; validation goes on with the next
\* sequence, so one TLC run names every failing sequence
Fail(msg) == /\ err' = IF err = "" THEN msg ELSE err
             /\ (err = "" => PrintT("FAIL|" \o ToString(meta.seq) \o "|" \o ToString(i) \o "|" \o msg))
Ok == err' = err
Step == i' = i + 1

Reset == /\ Ev.t = "reset"
         /\ AbsReset(ToSet(Ev.keys))
         /\ meta' = [T |-> Ev.T, idle |-> Ev.idle, ntab |-> 1, len |-> 0, maxe |-> Ev.maxe, seq |-> Ev.seq, wcur |-> 0, wmax |-> 0]
         /\ cstreak' = 0 /\ compacted' = FALSE /\ Ok /\ walk' = NoWalk

\* size classes (C17): an entry is stored iff it fits an empty table
Fitting(sz) == sz < meta.T
Put == /\ Ev.t = "put" /\ Touch({Ev.k})
       /\ IF Ev.err = "ok"
          THEN /\ AbsPut(Ev.k, [id |-> Ev.id, sz |-> Ev.sz, ttl |-> Ev.ttl, ts |-> Ev.ts])
               /\ IF Want("C11") /\ ~Fitting(Ev.sz) THEN Fail("put of an entry that cannot fit was acknowledged") ELSE Ok
          ELSE /\ UNCHANGED <<m, d>>
               \* refusals that are in order: an entry that fits no table; a key whose length one byte cannot hold
               /\ IF Want("C11") /\ ~(Ev.err = "toolarge" /\ ~Fitting(Ev.sz)) /\ ~(Ev.err = "keytoolarge" /\ Ev.klen > 255)
                  THEN Fail("put failed: " \o Ev.err) ELSE Ok
       \* bytes written since the last completed compaction (C20, stores that keep recycled tables)
       /\ cstreak' = 0 /\ compacted' = FALSE
       /\ meta' = IF Ev.err = "ok" THEN [meta EXCEPT !.wcur = @ + Ev.sz] ELSE meta

Del == /\ Ev.t = "del" /\ AbsDelete(Ev.k) /\ Touch({Ev.k})
       /\ IF Want("C11") /\ Ev.err # "ok" THEN Fail("delete failed") ELSE Ok
       /\ cstreak' = 0 /\ compacted' = FALSE /\ UNCHANGED meta

UTtl == /\ Ev.t = "uttl" /\ AbsUpdateTTL(Ev.k, Ev.ttl, Ev.ts) /\ Touch({Ev.k})
        /\ IF Want("C11") /\ Ev.err # (IF IsPresent(Ev.k) THEN "ok" ELSE "nf")
           THEN Fail("UpdateTTL result " \o Ev.err) ELSE Ok
        /\ cstreak' = 0 /\ compacted' = FALSE /\ UNCHANGED meta

\* C11/C20: compaction completes within a bounded number of calls (tables + entries/1000 + 2), counted from the number
\* of tables and entries the store had when the run of calls began (every compact event carries the store's statistics
\* taken just before the call; the figures of the last read-back may be hundreds of operations old)
Compact == /\ Ev.t = "compact" /\ AbsCompact /\ UNCHANGED walk
           /\ cstreak' = IF Ev.done THEN 0 ELSE cstreak + 1
           /\ compacted' = Ev.done
           /\ LET nt == IF cstreak = 0 THEN Ev.ntab ELSE meta.ntab
                  ln == IF cstreak = 0 THEN Ev.len ELSE meta.len IN
              /\ meta' = [meta EXCEPT !.ntab = nt, !.len = ln,
                                       !.wmax = IF Ev.done /\ meta.wcur > meta.wmax THEN meta.wcur ELSE meta.wmax,
                                       !.wcur = IF Ev.done THEN 0 ELSE meta.wcur]
              /\ IF (Want("C11") \/ Want("C20")) /\ Ev.err # "ok" THEN Fail("compaction error")
                 ELSE IF (Want("C11") \/ Want("C20")) /\ cstreak + 1 > nt + (ln \div 1000) + 2
                      THEN Fail("compaction does not complete")
                 ELSE Ok

ArrKeys == {Ev.arr[j].k : j \in 1..Len(Ev.arr)}
StoredKeys == {Ev.arr[j].k : j \in {jj \in 1..Len(Ev.arr) : Ev.arr[jj].ok}}
Xfer == /\ Ev.t = "xfer" /\ Touch(ArrKeys)
        /\ IF Ev.err = "eof"
           THEN /\ UNCHANGED <<m, d>>
                /\ IF Want("C11") /\ PresentKeys # {} THEN Fail("nothing to export although keys are present") ELSE Ok
           ELSE IF Len(Ev.arr) # Cardinality(ArrKeys) \/ ~(ArrKeys \subseteq PresentKeys)
                   \/ \E j \in 1..Len(Ev.arr) : LET a == Ev.arr[j] IN
                         a.id # m[a.k].id \/ a.ttl # m[a.k].ttl \/ a.ts # m[a.k].ts
                THEN /\ UNCHANGED <<m, d>>
                     /\ IF Want("C11") THEN Fail("exported table carries a stale, absent or duplicate entry") ELSE Ok
                ELSE IF Ev.err = "ok"
                     THEN \* the import succeeded and the sender has dropped its table
                          IF StoredKeys = ArrKeys THEN AbsTransfer(ArrKeys) /\ Ok
                          ELSE /\ UNCHANGED <<m, d>>
                               /\ IF Want("C11") THEN Fail("import reported success although the receiver could not store an entry: the sender drops a table that has not arrived")
                                  ELSE Ok
                     ELSE \* the import failed, the sender keeps its table
                          /\ AbsCopy(StoredKeys)
                          /\ IF Want("C11") /\ StoredKeys = ArrKeys THEN Fail("import failed although every entry was stored: " \o Ev.err) ELSE Ok
        /\ cstreak' = 0 /\ compacted' = FALSE /\ UNCHANGED meta

\* ---- the read-back ------------------------------------------------------
SeqToSet(s) == {s[j] : j \in 1..Len(s)}
GetOK == \A j \in 1..Len(Ev.get) : LET g == Ev.get[j] e == m[g.k] IN
            /\ g.id = e.id /\ g.chk = (e.id # 0)
            /\ (e.id # 0 => g.ttl = e.ttl /\ g.ts = e.ts /\ g.sz = e.sz /\ g.key = g.k
                            /\ g.ttl2 = e.ttl /\ g.key2 = g.k /\ g.rawid = e.id)
DstOK == \A j \in 1..Len(Ev.dst) : LET g == Ev.dst[j] e == d[g.k] IN
            g.id = e.id /\ (e.id # 0 => g.ttl = e.ttl /\ g.ts = e.ts)
RangeOK == /\ SeqToSet(Ev.range) = PresentKeys /\ Len(Ev.range) = Cardinality(PresentKeys)
           /\ SeqToSet(Ev.rangeh) = PresentKeys /\ Len(Ev.rangeh) = Cardinality(PresentKeys)
LenOK == Ev.stats.length = Cardinality(PresentKeys)
\* C12: every cursor walk terminates within keys + tables + 2 calls and yields exactly the
\* present keys (each at least once); with a pattern exactly the matching present keys
ScanOK == \A j \in 1..Len(Ev.scan) : LET s == Ev.scan[j] IN
            /\ s.fin
            /\ s.calls <= Cardinality(PresentKeys) + Ev.stats.numtables + 2
            /\ SeqToSet(s.keys) = (IF s.pat = "" THEN PresentKeys ELSE {k \in PresentKeys : k \in SeqToSet(s.want)})
            /\ (s.pat # "" => SeqToSet(s.want) \cap PresentKeys = SeqToSet(s.keys))
\* C20
StatsOK == /\ Ev.stats.allocated = Ev.stats.numtables * meta.T
           /\ Ev.stats.inuse = LiveBytes
           /\ Ev.stats.garbage >= 0
BoundOK == (compacted /\ meta.idle = 0) =>
              60 * Ev.stats.allocated <= 100 * (LiveBytes + 2 * meta.T + Ev.stats.numtables * meta.maxe)
\* after a completed compaction every table but the one being written (and one spare) holds at least one live entry: a table
\* full of dead entries only - however little of it is used - has been emptied and given back
NoDeadTablesOK == (compacted /\ meta.idle = 0) => Ev.stats.numtables <= Ev.stats.length + 2
\* a store that keeps its recycled tables for a long time re-uses them: after compaction it holds at most the live data plus
\* the tables that the largest burst of writes between two compactions needed (they are kept, empty, for the next burst)
BoundIdleOK == (compacted /\ meta.idle # 0) =>
              60 * Ev.stats.allocated <= 100 * (LiveBytes + meta.wmax + 3 * meta.T + Ev.stats.numtables * meta.maxe)

\* C12, a cursor walk whose pages alternate with the other calls (compaction steps, writes, deletes, transfers): it terminates,
\* yields every key that was present all the time at least once and nothing that was never there
WBegin == /\ Ev.t = "wbegin" /\ walk' = [p0 |-> PresentKeys, touched |-> {}] /\ UNCHANGED <<m, d, cstreak, compacted, meta>> /\ Ok
WEnd == /\ Ev.t = "wend" /\ UNCHANGED <<m, d, cstreak, compacted, meta, walk>>
        /\ IF ~Want("C12") THEN Ok
           ELSE IF ~Ev.fin THEN Fail("a cursor walk interleaved with other calls did not terminate")
           ELSE IF ~((walk.p0 \ walk.touched) \subseteq SeqToSet(Ev.keys))
                THEN Fail("a key that was present during the whole cursor walk was not yielded")
           ELSE IF ~(SeqToSet(Ev.keys) \subseteq (walk.p0 \cup walk.touched))
                THEN Fail("a cursor walk yielded a key that was not stored at any time during the walk")
           ELSE Ok

Obs == /\ Ev.t = "obs" /\ UNCHANGED <<m, d, cstreak, compacted, walk>>
       /\ meta' = [meta EXCEPT !.ntab = Ev.stats.numtables, !.len = Ev.stats.length]
       /\ IF Want("C11") /\ ~GetOK THEN Fail("lookup disagrees with the map")
          ELSE IF Want("C11") /\ ~DstOK THEN Fail("receiver of a transfer disagrees")
          ELSE IF Want("C11") /\ ~RangeOK THEN Fail("iteration does not visit exactly the present keys")
          ELSE IF Want("C11") /\ ~LenOK THEN Fail("entry count differs from the number of present keys")
          ELSE IF Want("C12") /\ ~ScanOK THEN Fail("scan incomplete, non-terminating or yields an absent key")
          ELSE IF Want("C20") /\ ~StatsOK THEN Fail("storage accounting is off")
          ELSE IF Want("C20") /\ ~BoundOK THEN Fail("allocation not bounded after compaction")
          ELSE IF Want("C20") /\ ~NoDeadTablesOK THEN Fail("a table without live entries survived compaction")
          ELSE IF Want("C20") /\ ~BoundIdleOK THEN Fail("recycled tables pile up instead of being re-used")
          ELSE Ok

TNext == /\ i <= Len(Trace) /\ Step
         /\ \/ Reset \/ Put \/ Del \/ UTtl \/ Compact \/ Xfer \/ Obs \/ WBegin \/ WEnd
TSpec == TInit /\ [][TNext]_tvars

NoError == err = ""
\* acceptance: every line was consumed (the trace spec never blocks: each line has exactly one successor)
Consumed == i = Len(Trace) + 1
=============================================================================
