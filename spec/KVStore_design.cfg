SPECIFICATION Spec
CONSTANTS
  Keys = {"a", "b", "c"}
  Sizes = {40, 90, 200}
  T = 200
  MaxCf = 5
  MaxOps = 5
  Counts = {1, 2, 10}
  Batch = 1001
  AllOrders = FALSE
  IdleExpire = TRUE
  FixD1 = TRUE
  FixD2 = TRUE
  FixD3 = TRUE
  FixD4 = TRUE
  FixD5 = TRUE
  FixD6 = TRUE
  FixD21 = TRUE
  DstMax = 0
  FixD35 = TRUE
  Export = FALSE
VIEW view
INVARIANTS Refines ScanComplete Accounting BoundedAfterCompaction NoDeadTables SingleVersion CfRegistry ExportInv
PROPERTIES CompactionSafe CompactionProgress TransferSafe
CHECK_DEADLOCK FALSE
