---------------------------- MODULE LedgerTrace ----------------------------
(* C02 / C03: the durability ledger.  The driver (harness/reb) applies joins, leaves, stops, routing
   pushes and balancer runs to a real cluster with client operations placed between those steps, and
   logs every operation, every read from every live member and white-box copy counts.

   Abstract state: for every key the set of values a read may return (a singleton after an
   acknowledged operation; both outcomes while an operation that was in flight at a stop is
   indeterminate; unconstrained once the key lost the protection the statement demands).
     op      an acknowledged Put/Delete fixes the key; a failed one (member stopped underneath it)
             leaves both outcomes admissible
     read    every read from every live member returns an admissible value - also while the key's
             partition still has a previous owner holding data
     copies  at a stable point every present key is stored exactly once as a primary copy, keeps
             its backup copies (where it ever had them), and a deleted key has no copy anywhere
     evict   the background eviction routine, run on every member while expired keys sit on a previous
             owner, returns (it must not wait for itself)
     forget  the key is no longer asserted (written with fewer than R members present, or its
             last copy-holder set fell below R before a leave) *)
EXTENDS Integers, Sequences, FiniteSets, TLC, Json

CONSTANTS TraceFile
Trace == ndJsonDeserialize(TraceFile)
VARIABLES i, err, seq, adm
vars == <<i, err, seq, adm>>
Ev == Trace[i]
Fail(msg) == /\ err' = IF err = "" THEN msg ELSE err
             /\ (err = "" => PrintT("FAIL|" \o ToString(seq) \o "|" \o ToString(i) \o "|" \o msg))
Ok == err' = err
Star == {"*"}
Adm(k) == IF k \in DOMAIN adm THEN adm[k] ELSE {"nil"}
Set(f, x, v) == [y \in DOMAIN f \cup {x} |-> IF y = x THEN v ELSE f[y]]
Admissible(k, v) == Adm(k) = Star \/ v \in Adm(k)

Reset == Ev.t = "reset" /\ seq' = Ev.seq /\ err' = "" /\ adm' = <<>>
\* "survivors": white-box record of how many copies of a key the members that survived a crash hold (used to tell known finding D26 apart)
Note == Ev.t \in {"step", "survivors"} /\ UNCHANGED <<seq, adm>> /\ Ok
Op == /\ Ev.t = "op" /\ UNCHANGED seq
      /\ LET new == IF Ev.op = "del" THEN "nil" ELSE Ev.v IN
         IF Ev.ret = "ok" THEN adm' = Set(adm, Ev.k, {new}) /\ Ok
         ELSE IF Ev.indeterminate THEN adm' = Set(adm, Ev.k, IF Adm(Ev.k) = Star THEN Star ELSE Adm(Ev.k) \cup {new}) /\ Ok
         ELSE adm' = adm /\ Fail(Ev.op \o " failed in a stable cluster: " \o Ev.ret)
\* the background eviction routine was run on every member (also on previous owners): it must return
Evict == /\ Ev.t = "evict" /\ UNCHANGED <<seq, adm>>
         /\ IF Ev.ret # "ok" THEN Fail("the eviction routine did not return on member " \o ToString(Ev.m) \o " (" \o Ev.phase \o ")") ELSE Ok
Forget == Ev.t = "forget" /\ adm' = Set(adm, Ev.k, Star) /\ UNCHANGED seq /\ Ok
\* reads issued after a member was lost in the middle of a hand-over and before the cluster has stabilised again are
\* recorded only: the statements promise the values "once the cluster has (re-)stabilised"
Settled == IF "settled" \in DOMAIN Ev THEN Ev.settled ELSE TRUE
Read == /\ Ev.t = "read" /\ UNCHANGED <<seq, adm>>
        /\ IF ~Settled THEN Ok
           ELSE IF Ev.ret \notin {"val", "notfound"} THEN Fail("read of " \o Ev.k \o " failed: " \o Ev.ret \o " (" \o Ev.phase \o ")")
           ELSE IF ~Admissible(Ev.k, Ev.v) THEN
                  Fail((IF Ev.v = "nil" THEN "an acknowledged write was lost" ELSE IF "nil" \in Adm(Ev.k) THEN "a deleted key came back" ELSE "a read returned an old value")
                       \o " (" \o Ev.phase \o ")")
           ELSE Ok
Copies == /\ Ev.t = "copies" /\ UNCHANGED <<seq, adm>>
          /\ IF Adm(Ev.k) = Star \/ Cardinality(Adm(Ev.k)) # 1 THEN Ok
             ELSE IF Adm(Ev.k) = {"nil"} THEN
                    IF Ev.primaries + Ev.backups > 0 THEN Fail("a deleted key is still stored somewhere (" \o Ev.phase \o ")") ELSE Ok
             ELSE IF Ev.primaries # 1 THEN Fail("a live key is not stored exactly once as a primary copy (" \o Ev.phase \o ")")
             ELSE IF Ev.assertb /\ Ev.backups # Ev.wantb THEN Fail("a live key lost a backup copy (" \o Ev.phase \o ")")
             ELSE Ok
Next == i <= Len(Trace) /\ i' = i + 1 /\ (Reset \/ Note \/ Op \/ Evict \/ Forget \/ Read \/ Copies)
Spec == i = 1 /\ err = "" /\ seq = 0 /\ adm = <<>> /\ [][Next]_vars
=============================================================================
