SPECIFICATION Spec
CONSTANTS
  Clients = {"a", "b", "c"}
  MaxTime = 5
  Timeouts = {0, 2}
  AtomicEffect = TRUE
  MaxLocks = 4
INVARIANTS MutualExclusion HolderIsStored
PROPERTY TokenSafety
CHECK_DEADLOCK FALSE
