---------------------------- MODULE LockSpec ----------------------------
(* C08 at the design level: the distributed lock on one key (internal/dmap lock.go).

   Lock(timeout) is a Put with NX (and PX when a timeout is given) of a fresh token, retried until the
   deadline; an expired entry counts as absent.  Unlock(token) and Lease(token, timeout) run on the partition
   owner in two steps: a Get that compares the stored token with the presented one [unlock.checked /
   lease.checked], then the effect.  With AtomicEffect = TRUE (the code as repaired, D25) the effect re-checks
   the token under the fragment lock; with AtomicEffect = FALSE (the code as found) it deletes the key, or sets
   its expiry, whatever the entry holds by then - configuration LockSpec_old.cfg is expected to violate
   MutualExclusion, and TLC's counterexample is the schedule the C08 driver forces with the gate.

   A Lock sent by a cluster client is served by a member that keeps trying until the deadline.  With GiveUp = TRUE
   (the cluster client as found, D34: its read timeout is shorter than the deadline it asked for, so it stops
   listening and sends the request again) an attempt may acquire the lock although nobody will ever read its
   reply: the token is known to no client.  LockSpec_retry.cfg is expected to violate LockHasOwner.

   Time is a counter advanced by Tick; a client validly holds the lock from the acknowledgement of its Lock until
   its Unlock is acknowledged or the timeout it asked for (or leased) has elapsed. *)
EXTENDS Naturals, FiniteSets, TLC

CONSTANTS Clients, MaxTime, Timeouts, AtomicEffect, MaxLocks, GiveUp

VARIABLES now, entry, pc, tok, bel, nextTok
vars == <<now, entry, pc, tok, bel, nextTok>>

NoEntry == [tok |-> 0, exp |-> 0]
Live(e) == e.tok # 0 /\ (e.exp = 0 \/ now < e.exp)

Init == /\ now = 0 /\ entry = NoEntry /\ nextTok = 1
        /\ pc = [c \in Clients |-> "idle"]
        /\ tok = [c \in Clients |-> 0]     \* the token the client got from its last successful Lock (0: none)
        /\ bel = [c \in Clients |-> 0]     \* the instant until which the client may believe it holds (0: until unlocked)

Tick == now < MaxTime /\ now' = now + 1 /\ UNCHANGED <<entry, pc, tok, bel, nextTok>>

\* one attempt of the NX put; a failed attempt changes nothing (the client retries or gives up)
TryLock(c, tau) ==
  /\ pc[c] = "idle" /\ tok[c] = 0 /\ nextTok <= MaxLocks
  /\ ~Live(entry)
  /\ entry' = [tok |-> nextTok, exp |-> IF tau = 0 THEN 0 ELSE now + tau]
  /\ tok' = [tok EXCEPT ![c] = nextTok] /\ bel' = [bel EXCEPT ![c] = IF tau = 0 THEN 0 ELSE now + tau]
  /\ nextTok' = nextTok + 1 /\ UNCHANGED <<now, pc>>

\* an attempt whose client has stopped listening acquires the lock: the reply goes nowhere
OrphanLock(tau) ==
  /\ GiveUp /\ nextTok <= MaxLocks /\ ~Live(entry)
  /\ entry' = [tok |-> nextTok, exp |-> IF tau = 0 THEN 0 ELSE now + tau]
  /\ nextTok' = nextTok + 1 /\ UNCHANGED <<now, pc, tok, bel>>

\* first step of Unlock and Lease: read and compare
Check(c, what) ==
  /\ pc[c] = "idle" /\ tok[c] # 0
  /\ IF Live(entry) /\ entry.tok = tok[c]
     THEN pc' = [pc EXCEPT ![c] = what] /\ UNCHANGED <<tok, bel>>
     ELSE pc' = pc /\ tok' = [tok EXCEPT ![c] = 0] /\ bel' = [bel EXCEPT ![c] = 0]   \* no such lock
  /\ UNCHANGED <<now, entry, nextTok>>

StillMine(c) == Live(entry) /\ entry.tok = tok[c]

UnlockEffect(c) ==
  /\ pc[c] = "unlock"
  /\ entry' = IF AtomicEffect /\ ~StillMine(c) THEN entry ELSE NoEntry
  /\ pc' = [pc EXCEPT ![c] = "idle"] /\ tok' = [tok EXCEPT ![c] = 0] /\ bel' = [bel EXCEPT ![c] = 0]
  /\ UNCHANGED <<now, nextTok>>

LeaseEffect(c, tau) ==
  /\ pc[c] = "lease"
  /\ IF AtomicEffect /\ ~StillMine(c)
     THEN entry' = entry /\ tok' = [tok EXCEPT ![c] = 0] /\ bel' = [bel EXCEPT ![c] = 0]       \* no such lock
     ELSE /\ entry' = IF Live(entry) THEN [entry EXCEPT !.exp = now + tau] ELSE entry          \* Expire on an expired key fails
          /\ IF Live(entry) THEN tok' = tok /\ bel' = [bel EXCEPT ![c] = now + tau]
             ELSE tok' = [tok EXCEPT ![c] = 0] /\ bel' = [bel EXCEPT ![c] = 0]
  /\ pc' = [pc EXCEPT ![c] = "idle"] /\ UNCHANGED <<now, nextTok>>

Next == \/ Tick
        \/ \E tau \in Timeouts : OrphanLock(tau)
        \/ \E c \in Clients : \/ \E tau \in Timeouts : TryLock(c, tau)
                              \/ Check(c, "unlock") \/ Check(c, "lease")
                              \/ UnlockEffect(c)
                              \/ \E tau \in Timeouts \ {0} : LeaseEffect(c, tau)
Spec == Init /\ [][Next]_vars

Valid(c) == tok[c] # 0 /\ (bel[c] = 0 \/ now < bel[c])
MutualExclusion == \A c, d \in Clients : (c # d /\ Valid(c)) => ~Valid(d)
\* whoever validly holds the lock is the one the stored entry names
HolderIsStored == \A c \in Clients : Valid(c) => (Live(entry) /\ entry.tok = tok[c])
\* a lock without a timeout is released by its holder only: somebody must know its token
LockHasOwner == (Live(entry) /\ entry.exp = 0) => \E c \in Clients : tok[c] = entry.tok
\* an Unlock or Lease that presents a token which is not the current one changes nothing
TokenSafety == [][\A c \in Clients : (pc[c] \in {"unlock", "lease"} /\ pc'[c] = "idle" /\ ~StillMine(c)) => entry' = entry]_vars
=============================================================================
