SPECIFICATION Spec
CONSTANTS
  Clients = {"a", "b", "c"}
  MaxTime = 5
  Timeouts = {0, 2}
  AtomicEffect = FALSE
  MaxLocks = 4
  GiveUp = FALSE
INVARIANTS MutualExclusion

CHECK_DEADLOCK FALSE
