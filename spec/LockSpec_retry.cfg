SPECIFICATION Spec
CONSTANTS
  Clients = {"a", "b", "c"}
  MaxTime = 5
  Timeouts = {0, 2}
  AtomicEffect = TRUE
  MaxLocks = 4
  GiveUp = TRUE
INVARIANTS LockHasOwner
CHECK_DEADLOCK FALSE
