SPECIFICATION Spec
INVARIANT AlwaysServing
CHECK_DEADLOCK FALSE
