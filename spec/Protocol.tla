---------------------------- MODULE Protocol ----------------------------
(* C16: no request can crash or wedge a member.

   A member serves connections; each request either gets a reply or not.  What the statement
   demands, as a state machine over the observable outcomes of one request:

     outcome \in {"reply", "error"}      the member answered (an error reply counts)
     "closed"   the connection was closed without any answer
     "timeout"  no answer within the watchdog: the connection's handler is wedged
     "crash"    the member's process terminated

   Only reply/error are admitted for a well-framed command, and after every request the member
   must still answer PING on that connection (unless the request turned it into a pub/sub
   connection) and on a fresh one.  Beyond liveness the model knows the minimum arity of every
   registered command: a vector with fewer arguments is malformed in a listed way and must be
   answered with an error reply, not with a success.  For raw byte streams (not RESP frames) the
   server may answer with a protocol error and close that connection; the member must survive. *)
EXTENDS Naturals, Sequences, FiniteSets, TLC, Json

\* minimum number of arguments after the command name
MinArgs == [ x \in {"dm.put"} |-> 3 ] @@ [ x \in {"dm.get", "dm.del", "dm.delentry", "dm.getentry", "dm.unlock.k"} |-> 2 ]
        @@ [ x \in {"dm.putentry", "dm.expire", "dm.pexpire", "dm.incr", "dm.decr", "dm.getput", "dm.incrbyfloat", "dm.lock", "dm.unlock"} |-> 3 ]
        @@ [ x \in {"dm.locklease", "dm.plocklease"} |-> 4 ]
        @@ [ x \in {"dm.destroy"} |-> 1 ] @@ [ x \in {"dm.scan"} |-> 3 ]
        @@ [ x \in {"publish", "publish.internal"} |-> 2 ] @@ [ x \in {"subscribe", "psubscribe"} |-> 1 ]
        @@ [ x \in {"pubsub"} |-> 1 ]
        @@ [ x \in {"internal.node.movefragment"} |-> 1 ] @@ [ x \in {"internal.node.updaterouting"} |-> 2 ]
        @@ [ x \in {"internal.node.lengthofpart"} |-> 1 ]
        @@ [ x \in {"ping", "stats", "cluster.routingtable", "cluster.members"} |-> 0 ]

Known(cmd) == cmd \in DOMAIN MinArgs
\* malformed in a listed way: unknown command, or fewer arguments than the command needs
MustBeError(cmd, nargs) == ~Known(cmd) \/ nargs < MinArgs[cmd]

\* ---- the abstract machine ----
VARIABLES alive, last
vars == <<alive, last>>
Init == alive = TRUE /\ last = "none"
Serve(o) == alive /\ o \in {"reply", "error"} /\ last' = o /\ UNCHANGED alive
Next == \E o \in {"reply", "error"} : Serve(o)
Spec == Init /\ [][Next]_vars
AlwaysServing == alive
=============================================================================
