SPECIFICATION TSpec
CONSTANTS
  TraceFile = "trace.ndjson"
INVARIANT AlwaysServing
CHECK_DEADLOCK FALSE
