---------------------------- MODULE ProtocolTrace ----------------------------
(* Validates what a real member (in a child process, over TCP) did with every request vector the
   driver sent (harness/proto) against Protocol.tla: every step of the trace must be a step of the
   abstract machine (a reply), malformed vectors must be answered with an error, and the member
   must stay alive.  Deterministic, fully logged. *)
EXTENDS Protocol, Integers

CONSTANTS TraceFile
Trace == ndJsonDeserialize(TraceFile)
VARIABLES i, err, seq
tvars == <<i, err, seq>>
Ev == Trace[i]
Fail(msg) == /\ err' = IF err = "" THEN msg ELSE err
             /\ PrintT("FAIL|" \o ToString(seq) \o "|" \o ToString(i) \o "|" \o msg)
Ok == err' = err

Reset == Ev.t = "reset" /\ seq' = Ev.seq /\ err' = "" /\ UNCHANGED <<alive, last>>
\* one request vector: framed = a RESP command array; raw = arbitrary bytes
Req == /\ Ev.t = "req" /\ seq' = Ev.n
       /\ IF Ev.outcome \in {"reply", "error"}
          THEN /\ Serve(Ev.outcome)
               \* (a request on a connection that earlier requests put into subscriber mode follows that mode's own rules:
               \*  UNSUBSCRIBE without arguments is fine there, DM.GET is not - only "answered, and still serving" is judged)
               /\ IF Ev.framed /\ ~Ev.stateful /\ MustBeError(Ev.cmd, Ev.nargs) /\ Ev.outcome # "error"
                  THEN Fail("malformed request answered with a success: " \o Ev.cmd)
                  ELSE IF ~Ev.pingok THEN Fail("the connection did not answer PING after " \o Ev.cmd)
                  ELSE IF ~Ev.otherok THEN Fail("the member stopped serving other connections after " \o Ev.cmd)
                  ELSE Ok
          ELSE /\ UNCHANGED <<alive, last>>
               \* raw bytes: a protocol error closes the connection; an incomplete frame is waited for
               /\ IF Ev.outcome \in {"closed", "timeout"} /\ ~Ev.framed /\ Ev.otherok THEN Ok
                  ELSE Fail("request not answered (" \o Ev.outcome \o "): " \o Ev.cmd)
TNext == i <= Len(Trace) /\ i' = i + 1 /\ (Reset \/ Req)
TSpec == i = 1 /\ err = "" /\ seq = 0 /\ Init /\ [][TNext]_<<tvars, vars>>
=============================================================================
