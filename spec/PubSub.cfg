SPECIFICATION Spec
CONSTANTS
  Conns = {"c1", "c2", "c3"}
  MemberOf <- MO
  Channels = {"a", "ab", "b"}
  Patterns = {"a*", "*", "ab"}
  MaxOps = 3
  Export = FALSE
VIEW view
INVARIANTS OnlyLive CountIsDeliveries NoPatternAsChannel ExportInv
CHECK_DEADLOCK FALSE
