---------------------------- MODULE PubSub ----------------------------
(* C14: publish/subscribe over the cluster.

   Abstract state: the set of subscriptions (connection, is-pattern, name); every connection is
   attached to one member.  A message published through ANY member is delivered exactly once per
   matching subscription (a connection that holds both a channel subscription and a matching
   pattern is served once for each, as Redis does) and to nobody else; PUBLISH answers with the
   number of deliveries; subscribing twice to the same name is idempotent; UNSUBSCRIBE /
   PUNSUBSCRIBE / disconnect end a subscription; PUBSUB CHANNELS / NUMSUB / NUMPAT describe the
   queried member only.

   `Match` is written out for the small alphabet the drivers use - it is not computed with the
   library under test.  Actions append to `log` (hidden by VIEW); every distinct state exports
   the operation path that reached it, which the Go driver replays on a real cluster and then
   probes with every publish and introspection command (harness/ps). *)
EXTENDS Naturals, Sequences, FiniteSets, TLC, Json

CONSTANTS Conns,        \* connection names
          MemberOf,     \* connection -> member
          Channels, Patterns,
          MaxOps, Export

MatchTable == { <<"a*", "a">>, <<"a*", "ab">>,
                <<"*", "a">>, <<"*", "ab">>, <<"*", "b">>, <<"*", "bc">>,
                <<"b?", "bc">>, <<"*", "b-e">>, <<"b?", "b-e">>,   \* "b-e": the drivers' alias of a channel whose second character is not ASCII
                <<"ab", "ab">> }      \* a pattern without wildcard: it matches the channel of the same name only
Match(p, ch) == <<p, ch>> \in MatchTable

VARIABLES subs, alive, gen, nops, log
vars == <<subs, alive, gen, nops, log>>
\* gen counts the re-connections per name: a state reached through a re-connect is a different state
view == <<subs, alive, gen>>

Sub(c, pat, n) == [c |-> c, pat |-> pat, name |-> n]
Init == subs = {} /\ alive = Conns /\ gen = [c \in Conns |-> 0] /\ nops = 0 /\ log = <<>>

Logged(r) == log' = Append(log, r) /\ nops' = nops + 1
Subscribe(c, pat, n) == /\ nops < MaxOps /\ c \in alive
                        /\ subs' = subs \cup {Sub(c, pat, n)}           \* idempotent
                        /\ Logged([op |-> "sub", c |-> c, pat |-> pat, name |-> n]) /\ UNCHANGED <<alive, gen>>
Unsubscribe(c, pat, n) == /\ nops < MaxOps /\ c \in alive
                          /\ subs' = subs \ {Sub(c, pat, n)}
                          /\ Logged([op |-> "unsub", c |-> c, pat |-> pat, name |-> n]) /\ UNCHANGED <<alive, gen>>
UnsubscribeAll(c, pat) == /\ nops < MaxOps /\ c \in alive
                          /\ subs' = {s \in subs : ~(s.c = c /\ s.pat = pat)}
                          /\ Logged([op |-> "unsuball", c |-> c, pat |-> pat]) /\ UNCHANGED <<alive, gen>>
Disconnect(c) == /\ nops < MaxOps /\ c \in alive
                 /\ alive' = alive \ {c} /\ subs' = {s \in subs : s.c # c}
                 /\ Logged([op |-> "disc", c |-> c]) /\ UNCHANGED gen

\* a new connection under the name of a closed one (connection identities are reused by the server)
Reconnect(c) == /\ nops < MaxOps /\ c \notin alive
                /\ alive' = alive \cup {c} /\ gen' = [gen EXCEPT ![c] = @ + 1] /\ UNCHANGED subs
                /\ Logged([op |-> "reopen", c |-> c])

\* ---- observable results (used by the trace spec as well) ----
\* the deliveries of one PUBLISH: one per matching subscription
Deliveries(S, ch) == {[c |-> s.c, kind |-> "message", pat |-> "", ch |-> ch] : s \in {x \in S : ~x.pat /\ x.name = ch}}
                     \cup {[c |-> s.c, kind |-> "pmessage", pat |-> s.name, ch |-> ch] : s \in {x \in S : x.pat /\ Match(x.name, ch)}}
PublishCount(S, ch) == Cardinality(Deliveries(S, ch))
ChannelsOf(S, MO, m) == {s.name : s \in {x \in S : ~x.pat /\ MO[x.c] = m}}
Numsub(S, MO, m, ch) == Cardinality({s.c : s \in {x \in S : ~x.pat /\ x.name = ch /\ MO[x.c] = m}})
Numpat(S, MO, m) == Cardinality({s.name : s \in {x \in S : x.pat /\ MO[x.c] = m}})

Next == \/ \E c \in Conns : \/ \E n \in Channels : Subscribe(c, FALSE, n) \/ Unsubscribe(c, FALSE, n)
                            \/ \E n \in Patterns : Subscribe(c, TRUE, n) \/ Unsubscribe(c, TRUE, n)
                            \/ UnsubscribeAll(c, TRUE) \/ UnsubscribeAll(c, FALSE)
                            \/ Disconnect(c) \/ Reconnect(c)
Spec == Init /\ [][Next]_vars

\* ---- properties of the abstract design ----
\* nobody who is not subscribed receives anything; closed connections hold no subscription
OnlyLive == \A s \in subs : s.c \in alive
\* the count equals the number of deliveries and every delivery goes to a matching subscription
CountIsDeliveries == \A ch \in Channels : PublishCount(subs, ch) =
                        Cardinality({s \in subs : (~s.pat /\ s.name = ch) \/ (s.pat /\ Match(s.name, ch))})
\* introspection never reports a pattern as a channel
NoPatternAsChannel == \A c \in Conns : ChannelsOf(subs, MemberOf, MemberOf[c]) \subseteq Channels
ExportInv == Export => PrintT("BEH " \o ToJson(log))
=============================================================================
