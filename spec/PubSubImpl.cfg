SPECIFICATION Spec
CHECK_DEADLOCK FALSE
CONSTANTS
  Conns = {c1, c2}
  LockedWrites = TRUE
  Messages = 3
  MaxOps = 5
INVARIANTS NoMessageAfterAck NoMessageBeforeSubscribe CountIsDeliveries AtMostOnce
