---------------------------- MODULE PubSubImpl ----------------------------
(* One member's pub/sub service at the grain of its lock (internal/pubsub/pubsub.go): the subscription tree is guarded by a
   reader/writer lock; SUBSCRIBE / UNSUBSCRIBE change it under the write lock and then acknowledge on the connection;
   PUBLISH takes the read lock, walks the matching entries and WRITES TO EVERY RECEIVER'S CONNECTION WHILE IT HOLDS THE LOCK,
   then answers with the number of writes.  One channel, a few subscriber connections, one publisher.

   LockedWrites = TRUE   the code as it is: the read lock is held across the writes
   LockedWrites = FALSE  "no I/O under a lock": the receivers are collected under the lock, written to after it is released
                         (seeded change S-C14-5) - must violate NoMessageAfterAck

   Each connection's inbox is the sequence of frames it was sent.  What a user relies on (C14): after the acknowledgement
   of UNSUBSCRIBE no further message reaches that subscription; the number PUBLISH answers is the number of deliveries. *)
EXTENDS Naturals, Sequences, FiniteSets

CONSTANTS Conns, LockedWrites, Messages, MaxOps

VARIABLES subs,        \* connections subscribed to the channel
          reading,     \* the publisher holds the read lock
          ppc, todo, cur, cnt,   \* publisher: control state, receivers still to be written to, message number, writes so far
          inbox,       \* connection -> frames sent to it
          answered,    \* message number -> the count PUBLISH answered
          nops
vars == <<subs, reading, ppc, todo, cur, cnt, inbox, answered, nops>>

Msg(n) == [k |-> "msg", n |-> n]
Ack(kind) == [k |-> kind, n |-> 0]

Init == /\ subs = {} /\ reading = FALSE /\ ppc = "idle" /\ todo = {} /\ cur = 0 /\ cnt = 0
        /\ inbox = [c \in Conns |-> <<>>] /\ answered = [n \in {} |-> 0] /\ nops = 0

(* SUBSCRIBE / UNSUBSCRIBE: the write lock excludes a publisher that holds the read lock; change, unlock, acknowledge *)
Subscribe(c) == /\ nops < MaxOps /\ ~reading /\ c \notin subs
                /\ subs' = subs \cup {c} /\ inbox' = [inbox EXCEPT ![c] = Append(@, Ack("sub"))] /\ nops' = nops + 1
                /\ UNCHANGED <<reading, ppc, todo, cur, cnt, answered>>
Unsubscribe(c) == /\ nops < MaxOps /\ ~reading /\ c \in subs
                  /\ subs' = subs \ {c} /\ inbox' = [inbox EXCEPT ![c] = Append(@, Ack("unsub"))] /\ nops' = nops + 1
                  /\ UNCHANGED <<reading, ppc, todo, cur, cnt, answered>>

(* PUBLISH: RLock and the walk over the tree *)
Collect == /\ ppc = "idle" /\ cur < Messages
           /\ cur' = cur + 1 /\ todo' = subs /\ cnt' = 0 /\ ppc' = "writing"
           /\ reading' = LockedWrites
           /\ UNCHANGED <<subs, inbox, answered, nops>>
(* one write (and flush) to one receiver's connection; a receiver may take arbitrarily long *)
Write(c) == /\ ppc = "writing" /\ c \in todo
            /\ inbox' = [inbox EXCEPT ![c] = Append(@, Msg(cur))] /\ todo' = todo \ {c} /\ cnt' = cnt + 1
            /\ UNCHANGED <<subs, reading, ppc, cur, answered, nops>>
(* RUnlock and the reply *)
Answer == /\ ppc = "writing" /\ todo = {}
          /\ reading' = FALSE /\ ppc' = "idle" /\ answered' = [n \in DOMAIN answered \cup {cur} |-> IF n = cur THEN cnt ELSE answered[n]]
          /\ UNCHANGED <<subs, todo, cur, cnt, inbox, nops>>

Next == \/ \E c \in Conns : Subscribe(c) \/ Unsubscribe(c) \/ Write(c)
        \/ Collect \/ Answer
Spec == Init /\ [][Next]_vars

(* no message after the acknowledgement of UNSUBSCRIBE, unless the connection subscribed again in between *)
NoMessageAfterAck == \A c \in Conns : \A i, j \in 1..Len(inbox[c]) :
                        (i < j /\ inbox[c][i].k = "unsub" /\ inbox[c][j].k = "msg") =>
                            \E m \in (i+1)..(j-1) : inbox[c][m].k = "sub"
(* no message before the first SUBSCRIBE was acknowledged *)
NoMessageBeforeSubscribe == \A c \in Conns : \A j \in 1..Len(inbox[c]) :
                               inbox[c][j].k = "msg" => \E m \in 1..(j-1) : inbox[c][m].k = "sub"
(* the answer of PUBLISH is the number of deliveries of that message; nobody gets a message twice *)
Delivered(n) == {c \in Conns : \E j \in 1..Len(inbox[c]) : inbox[c][j] = Msg(n)}
CountIsDeliveries == \A n \in DOMAIN answered : answered[n] = Cardinality(Delivered(n))
AtMostOnce == \A c \in Conns : \A i, j \in 1..Len(inbox[c]) : (i # j /\ inbox[c][i].k = "msg") => inbox[c][i] # inbox[c][j]
=============================================================================
