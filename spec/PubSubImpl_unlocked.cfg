\* the receivers are collected under the lock and written to after it was released (S-C14-5): must violate NoMessageAfterAck
SPECIFICATION Spec
CHECK_DEADLOCK FALSE
CONSTANTS
  Conns = {c1, c2}
  LockedWrites = FALSE
  Messages = 2
  MaxOps = 3
INVARIANTS NoMessageAfterAck
