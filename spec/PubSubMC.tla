---- MODULE PubSubMC ----
EXTENDS PubSub
MO == [c \in {"c1", "c2", "c3"} |-> IF c = "c3" THEN 2 ELSE 1]
====
