SPECIFICATION TSpec
CONSTANTS
  TraceFile = "trace.ndjson"
  Conns = {}
  MemberOf = 0
  Channels = {}
  Patterns = {}
  MaxOps = 0
  Export = FALSE
CHECK_DEADLOCK FALSE
