---------------------------- MODULE PubSubTrace ----------------------------
(* Trace validation for C14 against PubSub.tla.  The driver (harness/ps) executes one step at a
   time on a real two-member cluster and, after every PUBLISH, reads every connection up to a
   barrier message, so the trace is sequential and fully logged.

     sub / unsub / unsuball / disc   advance the abstract subscription set
     pub     the reply equals the number of deliveries; every live connection received exactly the
             deliveries the abstract state prescribes - nothing else, nothing twice
     chans / numsub / numpat         introspection of the queried member
     stall   an UNSUBSCRIBE while a publication is under way: no message after its acknowledgement, count = deliveries
     conc    two publishers at once: every subscription sees each publisher's messages exactly
             once and in that publisher's order *)
EXTENDS PubSub, Integers

CONSTANTS TraceFile
Trace == ndJsonDeserialize(TraceFile)
VARIABLES i, err, seq, mo
tvars == <<i, err, seq, mo>>

Ev == Trace[i]
Fail(msg) == /\ err' = IF err = "" THEN msg ELSE err
             /\ (err = "" => PrintT("FAIL|" \o ToString(seq) \o "|" \o ToString(i) \o "|" \o msg))
Ok == err' = err
SeqSet(s) == {s[j] : j \in 1..Len(s)}

Reset == /\ Ev.t = "reset" /\ seq' = Ev.seq /\ err' = ""
         /\ mo' = [c \in {Ev.conns[j].c : j \in 1..Len(Ev.conns)} |->
                     (CHOOSE x \in SeqSet(Ev.conns) : x.c = c).m]
         /\ subs' = {} /\ alive' = {Ev.conns[j].c : j \in 1..Len(Ev.conns)}
SubEv == /\ Ev.t = "sub" /\ subs' = subs \cup {Sub(Ev.c, Ev.pat, Ev.name)} /\ UNCHANGED <<alive, seq, mo>> /\ Ok
UnsubEv == /\ Ev.t = "unsub" /\ subs' = subs \ {Sub(Ev.c, Ev.pat, Ev.name)} /\ UNCHANGED <<alive, seq, mo>> /\ Ok
UnsubAllEv == /\ Ev.t = "unsuball" /\ subs' = {s \in subs : ~(s.c = Ev.c /\ s.pat = Ev.pat)}
              /\ UNCHANGED <<alive, seq, mo>> /\ Ok
DiscEv == /\ Ev.t = "disc" /\ subs' = {s \in subs : s.c # Ev.c} /\ alive' = alive \ {Ev.c} /\ UNCHANGED <<seq, mo>> /\ Ok

ReopenEv == /\ Ev.t = "reopen" /\ alive' = alive \cup {Ev.c} /\ UNCHANGED <<subs, seq, mo>> /\ Ok

\* what connection c must have received for one publish
Expected(c, ch, msg) == {[kind |-> d.kind, pat |-> d.pat, ch |-> d.ch, msg |-> msg] : d \in {x \in Deliveries(subs, ch) : x.c = c}}
GotOf(c) == LET r == CHOOSE x \in SeqSet(Ev.got) : x.c = c IN r.msgs
PubEv == /\ Ev.t = "pub" /\ UNCHANGED <<subs, alive, seq, mo>>
         /\ IF Ev.count # PublishCount(subs, Ev.ch)
            THEN Fail("PUBLISH answered " \o ToString(Ev.count) \o ", deliveries " \o ToString(PublishCount(subs, Ev.ch)))
            ELSE IF {g.c : g \in SeqSet(Ev.got)} # alive THEN Fail("a live connection was not read")
            ELSE IF \E c \in alive : SeqSet(GotOf(c)) # Expected(c, Ev.ch, Ev.msg)
                 THEN Fail("a connection received a message it should not, or missed one")
            ELSE IF \E c \in alive : Len(GotOf(c)) # Cardinality(Expected(c, Ev.ch, Ev.msg))
                 THEN Fail("a message was delivered more than once to a subscription")
            ELSE Ok
ChansEv == /\ Ev.t = "chans" /\ UNCHANGED <<subs, alive, seq, mo>>
           /\ LET want == IF Ev.pattern = "" THEN ChannelsOf(subs, mo, Ev.m)
                          ELSE {n \in ChannelsOf(subs, mo, Ev.m) : Match(Ev.pattern, n)} IN
              IF SeqSet(Ev.list) # want THEN Fail("PUBSUB CHANNELS does not list exactly the subscribed channels")
              ELSE IF Len(Ev.list) # Cardinality(want) THEN Fail("PUBSUB CHANNELS lists a channel twice")
              ELSE Ok
NumsubEv == /\ Ev.t = "numsub" /\ UNCHANGED <<subs, alive, seq, mo>>
            /\ IF Ev.n # Numsub(subs, mo, Ev.m, Ev.ch) THEN Fail("PUBSUB NUMSUB is not the number of subscriber connections") ELSE Ok
NumpatEv == /\ Ev.t = "numpat" /\ UNCHANGED <<subs, alive, seq, mo>>
            /\ IF Ev.n # Numpat(subs, mo, Ev.m) THEN Fail("PUBSUB NUMPAT is not the number of distinct patterns") ELSE Ok

\* concurrent publishers p1, p2 each sent <p>-1 .. <p>-k on channel ch
Proj(msgs, kind, pat, pref) == SelectSeq(msgs, LAMBDA x : x.kind = kind /\ x.pat = pat /\ x.msg \in {pref \o "-" \o ToString(j) : j \in 1..Ev.k})
InOrder(s, pref) == Len(s) = Ev.k /\ \A j \in 1..Ev.k : s[j].msg = pref \o "-" \o ToString(j)
ConcEv == /\ Ev.t = "conc" /\ UNCHANGED <<subs, alive, seq, mo>>
          /\ IF \E c \in alive : \E d \in {x \in Deliveries(subs, Ev.ch) : x.c = c} : \E p \in SeqSet(Ev.publishers) :
                  ~InOrder(Proj(GotOf(c), d.kind, d.pat, p), p)
             THEN Fail("a publisher's messages were lost, duplicated or reordered on a subscription")
             ELSE IF \E c \in alive : Len(GotOf(c)) # Cardinality({x \in Deliveries(subs, Ev.ch) : x.c = c}) * Ev.k * Len(Ev.publishers)
                  THEN Fail("a connection received messages it should not have")
             ELSE Ok

\* the member sent a well-formed reply or push that the protocol does not allow at that point (an acknowledgement for a
\* subscription the command did not name, a message before the acknowledgement, ...)
AnomalyEv == /\ Ev.t = "anomaly" /\ UNCHANGED <<subs, alive, seq, mo>>
             /\ Fail("the member sent something the protocol does not allow here: " \o Ev.detail)
\* an UNSUBSCRIBE sent while a publication was under way (the member was writing to a subscriber that does not read):
\* frames = what the unsubscribing connection was sent from then on, up to a pong requested after PUBLISH had returned
AckPos == CHOOSE j \in 1..Len(Ev.frames) : Ev.frames[j].k = "unsubscribe"
StallEv == /\ Ev.t = "stall" /\ UNCHANGED <<subs, alive, seq, mo>>
           /\ IF ~\E j \in 1..Len(Ev.frames) : Ev.frames[j].k = "unsubscribe" THEN Fail("UNSUBSCRIBE was never acknowledged")
              ELSE IF \E j \in 1..Len(Ev.frames) : j > AckPos /\ Ev.frames[j].k = "message"
                   THEN Fail("a message reached a subscription after its UNSUBSCRIBE had been acknowledged")
              ELSE IF Ev.count # Ev.deliveries
                   THEN Fail("PUBLISH answered " \o ToString(Ev.count) \o ", deliveries " \o ToString(Ev.deliveries))
              ELSE Ok
TNext == /\ i <= Len(Trace) /\ i' = i + 1
         /\ (Reset \/ StallEv \/ AnomalyEv \/ SubEv \/ UnsubEv \/ UnsubAllEv \/ DiscEv \/ ReopenEv \/ PubEv \/ ChansEv \/ NumsubEv \/ NumpatEv \/ ConcEv)
         /\ UNCHANGED <<nops, log, gen>>
TSpec == i = 1 /\ err = "" /\ seq = 0 /\ mo = <<>> /\ subs = {} /\ alive = {} /\ gen = <<>> /\ nops = 0 /\ log = <<>>
         /\ [][TNext]_<<tvars, vars>>
=============================================================================
