SPECIFICATION Spec
CONSTANTS
  MaxR = 3
  FixD13 = TRUE
INVARIANTS QuorumExactPut QuorumExactGet
CHECK_DEADLOCK FALSE
