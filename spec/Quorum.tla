---------------------------- MODULE Quorum ----------------------------
(* C05: read, write and member-count quorums.

   Abstract rules (what the statement demands) and the algorithm of the code
   (internal/dmap/put.go syncPutOnCluster, get.go getOnCluster, routingtable.CheckMemberCountQuorum),
   for one key with one primary owner and R-1 backup owners, some of which may be unreachable.
   TLC enumerates every (R, W, RQ), every set of unreachable backups and every placement of
   copies, and checks that the algorithm's reply is the one the abstract rule demands.
   FixD13 = FALSE models the pinned code: the first unreachable backup fails the whole Put. *)
EXTENDS Naturals, FiniteSets, Sequences

CONSTANTS MaxR, FixD13

\* ---- abstract rules (also used by QuorumTrace.tla on values observed in the real cluster) ----
\* a Put is acknowledged iff at least W copies were stored, otherwise it fails with the write-quorum error
AbsPutReply(stored, W) == IF stored >= W THEN "ok" ELSE "writequorum"
\* replies a Get may give: a value only with >= RQ copies obtained; read-quorum error when the key
\* exists on a reachable member but fewer than RQ copies can be obtained; nothing fixed beyond
\* "no value" for a key that exists nowhere reachable
AbsGetReplies(obtained, RQ) ==
  IF obtained >= RQ /\ obtained > 0 THEN {"val"}
  ELSE IF obtained > 0 THEN {"readquorum"}
  ELSE {"notfound", "readquorum"}
\* a member that sees fewer members than MemberCountQuorum refuses every request and applies nothing
AbsOperable(seen, MCQ) == seen >= MCQ

\* ---- the algorithm ----
VARIABLES R, W, RQ, unreach, holds, localHolds, phase
vars == <<R, W, RQ, unreach, holds, localHolds, phase>>

Backups == 1..(R - 1)
Init == /\ R \in 1..MaxR /\ W \in 1..R /\ RQ \in 1..R
        /\ unreach \in SUBSET (1..(R - 1))
        /\ holds \in SUBSET (1..(R - 1))        \* backups holding a copy of the key
        /\ localHolds \in BOOLEAN
        /\ phase = "probe"

\* syncPutOnCluster: every backup in turn, then the local write
RECURSIVE PutLoop(_, _)
PutLoop(b, ok) == IF b > R - 1 THEN [failed |-> FALSE, ok |-> ok]
                  ELSE IF b \in unreach
                       THEN IF FixD13 THEN PutLoop(b + 1, ok) ELSE [failed |-> TRUE, ok |-> ok]
                       ELSE PutLoop(b + 1, ok + 1)
PutAlg == LET r == PutLoop(1, 0) IN
          IF r.failed THEN [reply |-> "err", stored |-> r.ok]          \* transport error, local write skipped
          ELSE [reply |-> IF r.ok + 1 >= W THEN "ok" ELSE "writequorum", stored |-> r.ok + 1]

\* getOnCluster: the local slot always counts as a version (possibly nil); replicas that answer with the key count
GetAlg == LET answering == {b \in Backups : b \notin unreach /\ b \in holds}
              versions == 1 + (IF RQ >= 1 THEN Cardinality(answering) ELSE 0)
              nonnil == (IF localHolds THEN 1 ELSE 0) + Cardinality(answering) IN
          IF versions < RQ THEN "readquorum"
          ELSE IF nonnil = 0 THEN "notfound"
          ELSE IF nonnil < RQ THEN "readquorum"
          ELSE "val"
Obtained == (IF localHolds THEN 1 ELSE 0) + Cardinality({b \in Backups : b \notin unreach /\ b \in holds})

Next == phase = "probe" /\ phase' = "done" /\ UNCHANGED <<R, W, RQ, unreach, holds, localHolds>>
Spec == Init /\ [][Next]_vars

QuorumExactPut == LET p == PutAlg IN p.reply = AbsPutReply(p.stored, W)
QuorumExactGet == GetAlg \in AbsGetReplies(Obtained, RQ)
=============================================================================
