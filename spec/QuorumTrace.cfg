SPECIFICATION TSpec
CONSTANTS
  TraceFile = "trace.ndjson"
  MaxR = 3
  FixD13 = TRUE
CHECK_DEADLOCK FALSE
