---------------------------- MODULE QuorumTrace ----------------------------
(* Validation of quorum probes recorded on real clusters (harness/reg TestC05) against the
   abstract rules of Quorum.tla.  Deterministic, fully logged trace.
     put   : reply vs the number of copies that hold the new value afterwards (white box)
     get   : reply vs the number of copies obtainable from the owner and its reachable backups
     mcq   : a member that sees fewer members than MemberCountQuorum refuses the request and
             applies nothing; one that sees enough serves it *)
EXTENDS Quorum, Integers, TLC, Json

CONSTANTS TraceFile
Trace == ndJsonDeserialize(TraceFile)
VARIABLES i, err, seq
tvars == <<i, err, seq>>
TInit == i = 1 /\ err = "" /\ seq = 0
Ev == Trace[i]
Fail(msg) == /\ err' = IF err = "" THEN msg ELSE err
             /\ (err = "" => PrintT("FAIL|" \o ToString(seq) \o "|" \o ToString(i) \o "|" \o msg))
Ok == err' = err

Reset == Ev.t = "reset" /\ seq' = Ev.seq /\ err' = ""
PutEv == /\ Ev.t = "put" /\ UNCHANGED seq
         /\ IF Ev.ret # AbsPutReply(Ev.stored, Ev.W)
            THEN Fail("put answered " \o Ev.ret \o " with " \o ToString(Ev.stored) \o " copies stored, W=" \o ToString(Ev.W))
            ELSE Ok
GetEv == /\ Ev.t = "get" /\ UNCHANGED seq
         /\ IF Ev.ret \notin AbsGetReplies(Ev.obtained, Ev.RQ)
            THEN Fail("get answered " \o Ev.ret \o " with " \o ToString(Ev.obtained) \o " copies obtainable, RQ=" \o ToString(Ev.RQ))
            ELSE IF Ev.ret = "val" /\ ~Ev.newest THEN Fail("get returned a value that is not a newest copy")
            ELSE Ok
\* the primary owner is unreachable: the read may fail in any way, but it returns a value only if ReadQuorum copies are within reach
GetXEv == /\ Ev.t = "getx" /\ UNCHANGED seq
          /\ IF Ev.ret = "val" /\ Ev.obtained < Ev.RQ
             THEN Fail("get answered with a value although only " \o ToString(Ev.obtained) \o " copies are within reach (the primary owner is not), RQ=" \o ToString(Ev.RQ))
             ELSE IF Ev.ret = "val" /\ ~Ev.newest THEN Fail("get returned a value that is not a newest copy")
             ELSE Ok
\* seen = the members there are (the member under test lists exactly them), counted = what it counts for its quorum
McqEv == /\ Ev.t = "mcq" /\ UNCHANGED seq
         /\ IF Ev.counted # Ev.seen
            THEN Fail("the member lists " \o ToString(Ev.seen) \o " members and counts " \o ToString(Ev.counted) \o " for the member-count quorum")
            ELSE IF AbsOperable(Ev.seen, Ev.MCQ)
            THEN IF Ev.ret = "clusterquorum" THEN Fail(Ev.cmd \o " refused although enough members are present") ELSE Ok
            ELSE IF Ev.ret # "clusterquorum" THEN Fail(Ev.cmd \o " answered " \o Ev.ret \o " below the member-count quorum")
                 ELSE IF Ev.applied THEN Fail(Ev.cmd \o " was applied below the member-count quorum")
                 ELSE Ok
TNext == i <= Len(Trace) /\ i' = i + 1 /\ (Reset \/ PutEv \/ GetEv \/ GetXEv \/ McqEv)
      /\ UNCHANGED <<R, W, RQ, unreach, holds, localHolds, phase>>
TSpec == TInit /\ R = 1 /\ W = 1 /\ RQ = 1 /\ unreach = {} /\ holds = {} /\ localHolds = FALSE /\ phase = "trace"
         /\ [][TNext]_<<tvars, vars>>
=============================================================================
