SPECIFICATION Spec
CONSTANTS
  LocalFirst = TRUE
INVARIANTS Found
CHECK_DEADLOCK FALSE
