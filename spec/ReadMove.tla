---------------------------- MODULE ReadMove ----------------------------
(* One key of a partition that is being handed over, and one Get that overlaps the hand-over (finding D37).

   move:  the sender (previous owner) holds its fragment lock from the export of the table until it has dropped it;
          the receiver (new owner) merges the table under its own fragment lock in between
              Export -> Merge (the key is now on both) -> Drop (only on the new owner)
   read:  getOnCluster on the new owner collects the versions it finds on this node and on the previous owners; a lookup
          on a member waits while that member's fragment lock is held by the move
              LocalFirst = TRUE   the code as found: this node, then the previous owner
              LocalFirst = FALSE  the repair: the previous owner, then this node (the direction in which tables move)

   Found: a Get of a live key that nobody writes or deletes finds it.  ReadMove.cfg (LocalFirst) must violate it. *)
EXTENDS Naturals

CONSTANT LocalFirst

VARIABLES onOld, onNew,   \* does the member hold the key
          mv,             \* "idle" | "exported" | "merged" | "dropped"
          rd,             \* "idle" | "first" | "second" | "done"
          seen            \* did one of the reader's lookups find the key
vars == <<onOld, onNew, mv, rd, seen>>

Init == onOld = TRUE /\ onNew = FALSE /\ mv = "idle" /\ rd = "idle" /\ seen = FALSE

\* ---- the move ----
Export == mv = "idle" /\ mv' = "exported" /\ UNCHANGED <<onOld, onNew, rd, seen>>      \* sender's lock taken
Merge  == mv = "exported" /\ mv' = "merged" /\ onNew' = TRUE /\ UNCHANGED <<onOld, rd, seen>>
Drop   == mv = "merged" /\ mv' = "dropped" /\ onOld' = FALSE /\ UNCHANGED <<onNew, rd, seen>>  \* sender's lock released

OldLocked == mv \in {"exported", "merged"}   \* the sender holds its fragment lock until the table is dropped
\* (the receiver's lock is held only inside the atomic Merge step)

LookNew == seen' = (seen \/ onNew)
LookOld == ~OldLocked /\ seen' = (seen \/ onOld)

Start == rd = "idle" /\ rd' = "first" /\ UNCHANGED <<onOld, onNew, mv, seen>>
First == /\ rd = "first" /\ rd' = "second"
         /\ IF LocalFirst THEN LookNew ELSE LookOld
         /\ UNCHANGED <<onOld, onNew, mv>>
Second == /\ rd = "second" /\ rd' = "done"
          /\ IF LocalFirst THEN LookOld ELSE LookNew
          /\ UNCHANGED <<onOld, onNew, mv>>

Next == Export \/ Merge \/ Drop \/ Start \/ First \/ Second
Spec == Init /\ [][Next]_vars

Found == rd = "done" => seen
=============================================================================
