SPECIFICATION Spec
CONSTANTS
  LocalFirst = FALSE
INVARIANTS Found
CHECK_DEADLOCK FALSE
