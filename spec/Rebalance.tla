---------------------------- MODULE Rebalance ----------------------------
(* Prototype: one partition, keys with values/timestamps, fragments made of tables, routing
   table computation + non-atomic push, table-by-table moves with ownership validation and
   newest-wins merge, reads/writes/deletes routed through the (possibly stale) views.
   FixD12 = FALSE reproduces deleteKey's early return on a local miss. *)
EXTENDS Naturals, Sequences, FiniteSets, TLC, SequencesExt, FiniteSetsExt

CONSTANTS Members, Keys, R, MaxEvents, MaxOps, MaxTables, FixD12, AllowLeave, OpsDuringPush
ASSUME Members \subseteq Nat

VARIABLES alive, birth, clock, view, table, pending, reports, prim, bkp, acked, events, ops, ts, safe
vars == <<alive, birth, clock, view, table, pending, reports, prim, bkp, acked, events, ops, ts, safe>>

Empty == [owners |-> <<>>, backups |-> <<>>]
NoEntry == [val |-> 0, ts |-> 0]
EmptyTab == [k \in Keys |-> NoEntry]
SeqSet(s) == {s[i] : i \in 1..Len(s)}
Without(s, x) == SelectSeq(s, LAMBDA y : y # x)
Filter(s, P(_)) == SelectSeq(s, P)

\* ---- fragments: sequences of tables (newest last); a table maps key -> entry ----
FragGet(f, k) == LET H == {j \in 1..Len(f) : f[j][k].val # 0} IN IF H = {} THEN NoEntry ELSE f[Max(H)][k]
FragHas(f) == \E j \in 1..Len(f), k \in Keys : f[j][k].val # 0
FragPut(f, k, e) ==   \* write into the newest table, purge older versions
  LET g == IF f = <<>> THEN <<EmptyTab>> ELSE f IN
  [j \in 1..Len(g) |-> IF j = Len(g) THEN [g[j] EXCEPT ![k] = e] ELSE [g[j] EXCEPT ![k] = NoEntry]]
FragDel(f, k) == [j \in 1..Len(f) |-> [f[j] EXCEPT ![k] = NoEntry]]
FragMerge(f, tab) ==  \* import one table: newest timestamp wins per key
  LET RECURSIVE M(_, _)
      M(g, ks) == IF ks = {} THEN g ELSE
                  LET k == CHOOSE x \in ks : TRUE
                      cur == FragGet(g, k) inc == tab[k] IN
                  M(IF inc.val # 0 /\ (cur.val = 0 \/ inc.ts >= cur.ts) THEN FragPut(g, k, inc) ELSE g, ks \ {k})
  IN M(f, Keys)

Coord == CHOOSE m \in alive : \A n \in alive : birth[m] <= birth[n]
Score(m) == (m * 7) % 11
RingOwner == CHOOSE m \in alive : \A n \in alive : Score(m) < Score(n) \/ (Score(m) = Score(n) /\ m <= n)
SortedAlive == SetToSortSeq(alive, <)
ClosestN(n) == LET s == SortedAlive k == CHOOSE i \in 1..Len(s) : s[i] = RingOwner
               IN [i \in 1..n |-> s[((k - 1 + i - 1) % Len(s)) + 1]]
DPC == LET cur == view[Coord].owners new == RingOwner IN
       IF cur = <<>> THEN <<new>> ELSE
       Append(Without(Filter(Filter(cur, LAMBDA o : o \in alive), LAMBDA o : FragHas(prim[o])), new), new)
DB == LET cur == view[Coord].backups
          n == IF R <= Cardinality(alive) THEN R ELSE Cardinality(alive)
          newB == Tail(ClosestN(n))
          RECURSIVE Add(_, _)
          Add(acc, rest) == IF rest = <<>> THEN acc ELSE Add(Append(Without(acc, Head(rest)), Head(rest)), Tail(rest))
      IN IF cur = <<>> THEN newB
         ELSE Add(Filter(Filter(cur, LAMBDA o : o \in alive), LAMBDA o : FragHas(bkp[o])), newB)
Fix == [owners |-> DPC, backups |-> IF R > 1 THEN DB ELSE <<>>]

Init == /\ alive = {Min(Members)} /\ birth = [m \in Members |-> IF m = Min(Members) THEN 1 ELSE 0] /\ clock = 1
        /\ view = [m \in Members |-> IF m = Min(Members) THEN [owners |-> <<m>>, backups |-> <<>>] ELSE Empty]
        /\ table = Empty /\ pending = {} /\ reports = {}
        /\ prim = [m \in Members |-> <<>>] /\ bkp = [m \in Members |-> <<>>]
        /\ acked = [k \in Keys |-> 0] /\ events = 0 /\ ops = 0 /\ ts = 0 /\ safe = [k \in Keys |-> TRUE]

Join(m) == /\ m \notin alive /\ birth[m] = 0 /\ events < MaxEvents /\ pending = {}
           /\ alive' = alive \cup {m} /\ clock' = clock + 1 /\ birth' = [birth EXCEPT ![m] = clock + 1]
           /\ events' = events + 1
           /\ UNCHANGED <<view, table, pending, reports, prim, bkp, acked, ops, ts, safe>>
\* number of live copies of the current version of k
Newest(k) == LET S == {FragGet(prim[m], k).ts : m \in alive} \cup {FragGet(bkp[m], k).ts : m \in alive} IN Max(S)
Copies(k) == Cardinality({m \in alive : (FragGet(prim[m], k).val # 0 /\ FragGet(prim[m], k).ts = Newest(k))
                                        \/ (FragGet(bkp[m], k).val # 0 /\ FragGet(bkp[m], k).ts = Newest(k))})
\* a key stays asserted across a leave only if it had all its R copies at that moment
Leave(m) == /\ AllowLeave /\ m \in alive /\ Cardinality(alive) > 1 /\ events < MaxEvents /\ pending = {}
            /\ alive' = alive \ {m} /\ events' = events + 1
            /\ prim' = [prim EXCEPT ![m] = <<>>] /\ bkp' = [bkp EXCEPT ![m] = <<>>]
            /\ safe' = [k \in Keys |-> safe[k] /\ (acked[k] = 0 \/ Copies(k) >= R)]
            /\ UNCHANGED <<birth, clock, view, table, pending, reports, acked, ops, ts>>
Compute == /\ pending = {} /\ Fix # view[Coord] 
           /\ table' = Fix /\ pending' = alive /\ reports' = {}
           /\ UNCHANGED <<alive, birth, clock, view, prim, bkp, acked, events, ops, ts, safe>>
PushTo(m) == /\ m \in pending /\ pending' = pending \ {m}
             /\ IF m \in alive
                THEN /\ view' = [view EXCEPT ![m] = table]
                     /\ reports' = reports \cup (IF FragHas(prim[m]) THEN {<<m, "p">>} ELSE {})
                                           \cup (IF FragHas(bkp[m]) THEN {<<m, "b">>} ELSE {})
                ELSE UNCHANGED <<view, reports>>
             /\ UNCHANGED <<alive, birth, clock, table, prim, bkp, acked, events, ops, ts, safe>>
ProcessReports ==
  /\ pending = {} /\ reports # {}
  /\ LET c == Coord
         missP == {r[1] : r \in {x \in reports : x[2] = "p"}} \ SeqSet(view[c].owners)
         missB == {r[1] : r \in {x \in reports : x[2] = "b"}} \ SeqSet(view[c].backups)
     IN view' = [view EXCEPT ![c] = [owners |-> SetToSortSeq(missP, <) \o view[c].owners,
                                     backups |-> SetToSortSeq(missB, <) \o view[c].backups]]
  /\ reports' = {}
  /\ UNCHANGED <<alive, birth, clock, table, pending, prim, bkp, acked, events, ops, safe>> /\ UNCHANGED ts

\* ---- client operations (atomic), routed by following the views ----
RECURSIVE Resolve(_, _)
Resolve(m, fuel) == IF fuel = 0 \/ view[m].owners = <<>> THEN 0
                    ELSE LET o == Last(view[m].owners) IN
                         IF o = m THEN m ELSE IF o \notin alive THEN 0 ELSE Resolve(o, fuel - 1)
PrevOwners(f) == SubSeq(view[f].owners, 1, Len(view[f].owners) - 1)
LiveSet(s) == {x \in SeqSet(s) : x \in alive}

ViewsAgree == pending = {} /\ \A m \in alive : view[m].owners # <<>> => view[m] = view[Coord]
Put(e, k, v) ==
  /\ e \in alive /\ ops < MaxOps /\ (OpsDuringPush \/ (pending = {} /\ \A m \in alive : view[m] = view[Coord]))
  /\ LET f == Resolve(e, 3) IN
     /\ f # 0
     /\ LET ent == [val |-> v, ts |-> ts + 1] IN
        /\ prim' = [prim EXCEPT ![f] = FragPut(prim[f], k, ent)]
        /\ bkp' = [b \in Members |-> IF b \in LiveSet(view[f].backups) THEN FragPut(bkp[b], k, ent) ELSE bkp[b]]
  /\ acked' = [acked EXCEPT ![k] = v] /\ ts' = ts + 1 /\ ops' = ops + 1
  /\ safe' = [safe EXCEPT ![k] = Cardinality(alive) >= R]
  /\ UNCHANGED <<alive, birth, clock, view, table, pending, reports, events>>

Delete(e, k) ==
  /\ e \in alive /\ ops < MaxOps /\ (OpsDuringPush \/ (pending = {} /\ \A m \in alive : view[m] = view[Coord]))
  /\ LET f == Resolve(e, 3) IN
     /\ f # 0
     /\ IF ~FixD12 /\ FragGet(prim[f], k).val = 0
        THEN UNCHANGED <<prim, bkp>>                    \* early return on a local miss
        ELSE /\ prim' = [m \in Members |-> IF m = f \/ m \in LiveSet(PrevOwners(f)) THEN FragDel(prim[m], k) ELSE prim[m]]
             /\ bkp' = [b \in Members |-> IF b \in LiveSet(view[f].backups) THEN FragDel(bkp[b], k) ELSE bkp[b]]
  /\ acked' = [acked EXCEPT ![k] = 0] /\ ops' = ops + 1
  /\ safe' = [safe EXCEPT ![k] = Cardinality(alive) >= R]
  /\ UNCHANGED <<alive, birth, clock, view, table, pending, reports, events, ts>>

\* what Get(k) through entry member e returns (0 = not found / not routable)
Read(e, k) ==
  LET f == Resolve(e, 3) IN
  IF f = 0 THEN 0 ELSE
  LET vs == {FragGet(prim[f], k)} \cup {FragGet(prim[m], k) : m \in LiveSet(PrevOwners(f))}
                                 \cup {FragGet(bkp[b], k) : b \in LiveSet(view[f].backups)}
      live == {x \in vs : x.val # 0}
  IN IF live = {} THEN 0 ELSE (CHOOSE x \in live : \A y \in live : y.ts <= x.ts).val

\* a fragment may roll over to a new table at any time (entry sizes are not modelled)
Roll(m, kind) == /\ m \in alive
                 /\ LET f == IF kind = "p" THEN prim[m] ELSE bkp[m] IN
                    /\ f # <<>> /\ Len(f) < MaxTables /\ f[Len(f)] # EmptyTab
                    /\ IF kind = "p" THEN prim' = [prim EXCEPT ![m] = Append(f, EmptyTab)] /\ UNCHANGED bkp
                                     ELSE bkp' = [bkp EXCEPT ![m] = Append(f, EmptyTab)] /\ UNCHANGED prim
                 /\ UNCHANGED <<alive, birth, clock, view, table, pending, reports, acked, events, ops, ts, safe>>

\* balancer: move ONE table of a fragment this member should not hold
MoveP(m) == /\ m \in alive /\ prim[m] # <<>> /\ view[m].owners # <<>>
            /\ LET o == Last(view[m].owners) IN
               /\ o # m /\ o \in alive /\ o \in SeqSet(view[o].owners)          \* receiver validates ownership
               /\ prim' = [prim EXCEPT ![o] = FragMerge(prim[o], prim[m][1]), ![m] = Tail(prim[m])]
            /\ UNCHANGED <<alive, birth, clock, view, table, pending, reports, bkp, acked, events, ops, ts, safe>>
MoveB(m) == /\ m \in alive /\ bkp[m] # <<>> /\ R > 1 /\ view[m].backups # <<>>
            /\ LET bs == view[m].backups n == Len(bs)
                   cur == {bs[i] : i \in {j \in 1..n : j > n - (R - 1)}} IN
               /\ m \notin cur /\ cur \subseteq alive /\ \A t \in cur : t \in SeqSet(view[t].backups)
               /\ bkp' = [b \in Members |-> IF b = m THEN Tail(bkp[m]) ELSE IF b \in cur THEN FragMerge(bkp[b], bkp[m][1]) ELSE bkp[b]]
            /\ UNCHANGED <<alive, birth, clock, view, table, pending, reports, prim, acked, events, ops, ts, safe>>
\* janitor: drop empty tables / fragments
Janitor(m) == /\ m \in alive /\ (\E j \in 1..Len(prim[m]) : prim[m][j] = EmptyTab) 
              /\ prim' = [prim EXCEPT ![m] = SelectSeq(prim[m], LAMBDA t : t # EmptyTab)]
              /\ UNCHANGED <<alive, birth, clock, view, table, pending, reports, bkp, acked, events, ops, ts, safe>>

Next == \/ \E m \in Members : Join(m) \/ Leave(m) \/ PushTo(m) \/ MoveP(m) \/ MoveB(m) \/ Roll(m, "p") \/ Janitor(m)
        \/ Compute \/ ProcessReports
        \/ \E e \in Members, k \in Keys : Put(e, k, 1) \/ Put(e, k, 2) \/ Delete(e, k)
Spec == Init /\ [][Next]_vars

PushedEverywhere == pending = {} /\ \A m \in alive : view[m] = view[Coord]
Stable == /\ PushedEverywhere /\ reports = {} /\ Fix = view[Coord]
          /\ \A m \in alive : ~ENABLED MoveP(m) /\ ~ENABLED MoveB(m)
\* C03: readable everywhere with the last acknowledged value; deleted stays deleted
AgreesWithLedger == Stable => \A e \in alive, k \in Keys : safe[k] => Read(e, k) = acked[k]
\* while fragmented but with the table pushed everywhere, reads find the value wherever it lives
ReadFindsFragmented == (PushedEverywhere /\ reports = {}) => \A e \in alive, k \in Keys : Read(e, k) = acked[k]
NoDuplicatePrimary == Stable => \A k \in Keys : Cardinality({m \in alive : FragGet(prim[m], k).val # 0}) <= 1
=============================================================================
