SPECIFICATION Spec
CONSTANTS
  Members = {1, 2, 3}
  Keys = {"a", "b"}
  R = 1
  MaxEvents = 2
  MaxOps = 3
  MaxTables = 2
  FixD12 = TRUE
  AllowLeave = FALSE
  OpsDuringPush = FALSE
INVARIANTS AgreesWithLedger ReadFindsFragmented NoDuplicatePrimary
CHECK_DEADLOCK FALSE
