SPECIFICATION Spec
CONSTANTS
  Members = {1, 2, 3}
  Keys = {"a", "b"}
  R = 2
  MaxEvents = 4
  MaxOps = 4
  MaxTables = 2
  FixD12 = TRUE
  AllowLeave = TRUE
  OpsDuringPush = FALSE
INVARIANTS AgreesWithLedger NoDuplicatePrimary
CHECK_DEADLOCK FALSE
