---------------------------- MODULE Register ----------------------------
(* The sequential meaning of one DMap key (DESIGN.md 5.2): what a user relies on for
   Put (plain / NX / XX, with any expiry option), Get, Delete, Expire, GetPut, Incr / Decr /
   IncrByFloat, Lock / Unlock / Lease.  A key is Absent or an entry with a value and an expiry
   deadline.  Because an implementation's step happens at an instant that an observer only knows
   to lie inside an interval [a, b] (milliseconds since the start of the trace), a deadline is
   kept as an interval [lo, hi] as well:  the entry MAY be treated as present by a step in
   [a, b] iff a < hi, and MAY be treated as absent iff b >= lo.  INF = no expiry.

   Apply(op, cur, p, a, b) gives the new entry and the reply for operation record `op` applied
   to entry `cur` seen as present (p = TRUE) or absent, at an instant in [a, b].

   This one definition is the oracle of C01 (linearizability), C07 (atomic read-modify-write),
   C08 (lock), C09 (expiry) and C15 (same meaning on every path). *)
EXTENDS Integers, Sequences, TLC

INF == 2000000000

Absent == [tag |-> "nil", s |-> "", n |-> 0, lo |-> 0, hi |-> 0]

\* deadline interval of an expiry set by a step in [a, b]:  ttl = 0 none, abs = exact instant
Exp(ttl, abs, a, b) == IF ttl = 0 THEN [lo |-> INF, hi |-> INF]
                       \* an absolute deadline travels as (fractional) seconds or milliseconds and is stored
                       \* in whole milliseconds: one millisecond either side
                       ELSE IF abs THEN [lo |-> ttl - 1, hi |-> ttl + 1]
                       ELSE [lo |-> a + ttl, hi |-> b + ttl]

CanBePresent(e, a) == e.tag # "nil" /\ a < e.hi
CanBeAbsent(e, b)  == e.tag = "nil" \/ b >= e.lo

\* default TTL of the DMap (0 = none), carried by the operations that fall back to it
Dttl(e) == IF "dttl" \in DOMAIN e THEN e.dttl ELSE 0
StrEnt(v, x) == [tag |-> "str", s |-> v, n |-> 0, lo |-> x.lo, hi |-> x.hi]
NumEnt(n, x) == [tag |-> "num", s |-> "", n |-> n, lo |-> x.lo, hi |-> x.hi]
\* what a read returns: strings by value, numbers by value
ValOf(cur) == IF cur.tag = "num" THEN [ret |-> "num", v |-> "", n |-> cur.n]
              ELSE [ret |-> "val", v |-> cur.s, n |-> 0]
R(reg, ret, v, n) == [reg |-> reg, ret |-> ret, v |-> v, n |-> n]

IntOp(e) == IF "int" \in DOMAIN e THEN e.int ELSE FALSE
Apply(e, cur, p, a, b) ==
  CASE e.op = "put" ->
         IF e.nx /\ p THEN R(cur, "found", "", 0)
         ELSE IF e.xx /\ ~p THEN R(cur, "notfound", "", 0)
         ELSE R(StrEnt(e.v, Exp(e.ttl, e.abs, a, b)), "ok", "", 0)
    [] e.op = "get" -> IF p THEN [reg |-> cur] @@ ValOf(cur) ELSE R(cur, "notfound", "", 0)
    \* the remaining time to live reported by a read lies within the deadline interval
    [] e.op = "del" -> R(Absent, "ok", "", 1)
    [] e.op = "expire" -> IF p THEN R([cur EXCEPT !.lo = a + e.ttl, !.hi = b + e.ttl], "ok", "", 0)
                          ELSE R(cur, "notfound", "", 0)
    [] e.op = "getput" -> [reg |-> StrEnt(e.v, Exp(Dttl(e), FALSE, a, b))] @@
                            (IF p THEN ValOf(cur) ELSE [ret |-> "none", v |-> "", n |-> 0])
    \* Incr / Decr / IncrByFloat (delta in fixed-point units): expiry is kept
    \* (the implementation re-installs the remaining ttl: the deadline may move by at most the
    \*  duration of the call itself, e.dur)
    \* an integer operation (Incr / Decr, marked `int` where a key sees both kinds: numbers are in units of 1/1024) on a
    \* stored number that is not an integer is refused and changes nothing - it does not restart from zero
    [] e.op = "incr" /\ IntOp(e) /\ p /\ cur.tag = "num" /\ cur.n % 1024 # 0 -> R(cur, "notint", "", 0)
    [] e.op = "incr" -> LET base == IF p /\ cur.tag = "num" THEN cur.n ELSE 0
                            x == IF p THEN [lo |-> cur.lo, hi |-> IF cur.hi = INF THEN INF ELSE cur.hi + e.dur]
                                 ELSE Exp(Dttl(e), FALSE, a, b) IN
                        R(NumEnt(base + e.d, x), "num", "", base + e.d)
    [] e.op = "lock" -> IF p THEN R(cur, "notacquired", "", 0)
                        ELSE R(StrEnt(e.tok, Exp(e.ttl, FALSE, a, b)), "ok", "", 0)
    [] e.op = "unlock" -> IF p /\ cur.tag = "str" /\ cur.s = e.tok THEN R(Absent, "ok", "", 0)
                          ELSE R(cur, "nosuchlock", "", 0)
    [] e.op = "lease" -> IF p /\ cur.tag = "str" /\ cur.s = e.tok
                         THEN R([cur EXCEPT !.lo = a + e.ttl, !.hi = b + e.ttl], "ok", "", 0)
                         ELSE R(cur, "nosuchlock", "", 0)
=============================================================================
