SPECIFICATION Spec
CONSTANTS
  TraceFile = "trace.ndjson"
  Eps = 5
INVARIANT NotDone
POSTCONDITION Report
CHECK_DEADLOCK FALSE
