---------------------------- MODULE RegisterTrace ----------------------------
(* Trace acceptor for concurrent histories recorded from real olric clusters (harness/reg).

   Lines:  reset (new history: keys, clients),  inv (client c invokes an operation at ts),
           res (client c receives its reply at ts).
   Between its inv and its res every operation takes effect at one internal step Lin(c) whose
   instant is only known to lie in [tprev, TNext] (the time stamps of the neighbouring lines).
   TLC searches the placements of the Lin steps; the history is accepted iff some placement
   explains every reply by Register!Apply - i.e. iff the history is linearizable with respect to
   the per-key register, with expiry visible exactly as the deadlines allow.

   An operation whose reply is a transport error ("err") may or may not have taken effect.
   Acceptance: the position i passes the end of the file (inverted invariant NotDone).  The
   highest line reached is kept in TLC register 1 so that a rejected history can be named. *)
EXTENDS Register, TLC, Json, FiniteSets, SequencesExt

CONSTANTS TraceFile, Eps,
          AllowErr   \* TRUE only where faults are injected: a transport error leaves the outcome open
Trace == ndJsonDeserialize(TraceFile)

VARIABLES i, reg, pend, tprev
vars == <<i, reg, pend, tprev>>

Idle == [st |-> "idle"]
ToSetOf(s) == {s[j] : j \in 1..Len(s)}

Init == /\ i = 1 /\ reg = <<>> /\ pend = <<>> /\ tprev = 0
        /\ TLCSet(1, 0)

TNext == IF i <= Len(Trace) /\ "ts" \in DOMAIN Trace[i] THEN Trace[i].ts ELSE INF
Mark(j) == IF j > TLCGet(1) THEN TLCSet(1, j) ELSE TRUE

Reset == /\ i <= Len(Trace) /\ Trace[i].t = "reset"
         /\ \A c \in DOMAIN pend : pend[c].st = "idle"
         /\ reg' = [k \in ToSetOf(Trace[i].keys) |-> Absent]
         /\ pend' = [c \in ToSetOf(Trace[i].clients) |-> Idle]
         /\ tprev' = 0 /\ i' = i + 1 /\ Mark(i + 1)

Inv == /\ i <= Len(Trace) /\ Trace[i].t = "inv"
       /\ LET e == Trace[i] IN /\ pend[e.c].st = "idle"
                               /\ pend' = [pend EXCEPT ![e.c] = [st |-> "called", e |-> e]]
       /\ tprev' = Trace[i].ts /\ i' = i + 1 /\ Mark(i + 1) /\ UNCHANGED reg

\* the operation of client c takes effect now, at an instant in [tprev, TNext]
Lin(c) == /\ pend[c].st = "called"
          /\ LET e == pend[c].e  cur == reg[e.k]  a == tprev  b == TNext IN
             \E p \in BOOLEAN :
               /\ (p => CanBePresent(cur, a)) /\ (~p => CanBeAbsent(cur, b))
               /\ LET r == Apply(e, cur, p, a, b) IN
                  /\ reg' = [reg EXCEPT ![e.k] = r.reg]
                  /\ pend' = [pend EXCEPT ![c] = [st |-> "done", e |-> e, ret |-> r.ret, v |-> r.v, n |-> r.n,
                                                  \* deadline of the entry the operation observed
                                                  lo |-> cur.lo, hi |-> cur.hi]]
          /\ UNCHANGED <<i, tprev>>

\* a failed Lock keeps retrying until its deadline: it must not give up earlier (C08)
LockTimingOK(inv, res) == (inv.op = "lock" /\ res.ret = "notacquired") => res.ts >= inv.ts + inv.deadline - Eps

\* a reply that reports the remaining time to live must agree with the deadline interval (C09)
TTLReportOK(p, res) == ("ttlms" \in DOMAIN res /\ res.ttlms >= 0) =>
                          (IF res.ttlms = 0 THEN p.lo = INF ELSE p.lo <= res.ttlms /\ res.ttlms <= p.hi)

Res == /\ i <= Len(Trace) /\ Trace[i].t = "res"
       /\ LET e == Trace[i] p == pend[e.c] IN
          /\ \/ /\ p.st = "done" /\ p.ret = e.ret
                /\ (e.ret = "num" => p.n = e.n)
                /\ (e.ret = "val" => p.v = e.v)
                \* a Delete answers with the number of keys it named (C15)
                /\ ((p.e.op = "del" /\ "nkeys" \in DOMAIN p.e) => e.n = p.e.nkeys)
                /\ LockTimingOK(p.e, e)
                /\ TTLReportOK(p, e)
             \* indeterminate outcome: applied or not, both admitted
             \/ /\ AllowErr /\ e.ret = "err" /\ p.st \in {"done", "called"}
          /\ pend' = [pend EXCEPT ![e.c] = Idle]
       /\ tprev' = Trace[i].ts /\ i' = i + 1 /\ Mark(i + 1) /\ UNCHANGED reg

Next == Reset \/ Inv \/ Res \/ \E c \in DOMAIN pend : Lin(c)
Spec == Init /\ [][Next]_vars

NotDone == i <= Len(Trace)
\* printed at the end of a run that did not reach the end of the file
Report == PrintT("MAXI|" \o ToString(TLCGet(1)))
=============================================================================
