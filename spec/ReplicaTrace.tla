---------------------------- MODULE ReplicaTrace ----------------------------
(* C04: after every acknowledged mutating operation in a stable cluster every backup copy of the
   key mirrors the primary copy.

   The driver (harness/reg, TestC04) issues sequences of mutating operations on a key through
   every entry path and, after each reply, logs the decoded copy held by every member's primary
   and backup fragment (white box), with the member's role for the key's partition:
     owner / backup (a current backup owner) / other.
   Deterministic, fully logged trace: each line is consumed and judged.

   Mirror          the primary copy on the owner and the backup copy on every backup owner are
                   all present or all absent, and equal in value, expiry and write timestamp
   NoStray         no other fragment of any member holds the key
   ReplyConsistent the presence of the copies agrees with the reply (acknowledged Put/GetPut/
                   Incr/Lock: present; acknowledged Delete/Unlock/eviction: absent; refused
                   NX/XX/Expire/Unlock/Lease: exactly as before)
   ValueKept       an acknowledged Expire/Lease keeps the value of every copy *)
EXTENDS Integers, Sequences, FiniteSets, TLC, Json

CONSTANTS TraceFile
Trace == ndJsonDeserialize(TraceFile)

VARIABLES i, err, prev, seq
vars == <<i, err, prev, seq>>

NoCopy == [present |-> FALSE, v |-> "", ttl |-> 0, ts |-> 0]
Init == i = 1 /\ err = "" /\ prev = NoCopy /\ seq = 0

Ev == Trace[i]
Fail(msg) == /\ err' = IF err = "" THEN msg ELSE err
             /\ (err = "" => PrintT("FAIL|" \o ToString(seq) \o "|" \o ToString(i) \o "|" \o msg))
Ok == err' = err

Copies == {Ev.copies[j] : j \in 1..Len(Ev.copies)}
IsExpected(c) == (c.role = "owner" /\ c.kind = "p") \/ (c.role = "backup" /\ c.kind = "b")
Expected == {c \in Copies : IsExpected(c)}
Stray == {c \in Copies : c.present /\ ~IsExpected(c)}
Proj(c) == [present |-> c.present, v |-> IF c.present THEN c.v ELSE "", ttl |-> IF c.present THEN c.ttl ELSE 0,
            ts |-> IF c.present THEN c.ts ELSE 0]
Mirror == \A c1, c2 \in Expected : Proj(c1) = Proj(c2)
Owner == CHOOSE c \in Expected : c.role = "owner"
Cur == Proj(Owner)

Acked == Ev.ret \in {"ok", "val", "num", "none"}
Refused == Ev.ret \in {"found", "notfound", "nosuchlock", "notacquired", "entrytoolarge", "keytoolarge"}
MustBePresent == Acked /\ Ev.op \in {"put", "getput", "incr", "decr", "incrf", "lock", "expire", "lease"}
MustBeAbsent == Acked /\ Ev.op \in {"del", "unlock", "evict"}
\* the last-access stamp is not compared; an expired key may have been removed by the background sampler
MustBeUnchanged == Refused /\ ~Ev.expired

Reset == /\ Ev.t = "reset" /\ prev' = NoCopy /\ seq' = Ev.seq /\ Ok

Obs == /\ Ev.t = "op" /\ UNCHANGED seq
       /\ prev' = IF Expected = {} THEN NoCopy ELSE Cur
       /\ IF Expected = {} \/ ~\E c \in Expected : c.role = "owner" THEN Fail("no primary copy slot reported")
          ELSE IF ~Mirror THEN Fail("a backup copy differs from the primary after " \o Ev.op)
          ELSE IF Stray # {} THEN Fail("a copy of the key is held by a fragment that should not hold it")
          ELSE IF MustBePresent /\ ~Cur.present THEN Fail("acknowledged " \o Ev.op \o " left no copy")
          ELSE IF MustBeAbsent /\ Cur.present THEN Fail("acknowledged " \o Ev.op \o " left a copy behind")
          ELSE IF MustBeUnchanged /\ Cur # prev THEN Fail("refused " \o Ev.op \o " changed the stored entry")
          ELSE IF Acked /\ Ev.op \in {"expire", "lease"} /\ prev.present /\ Cur.v # prev.v
               THEN Fail(Ev.op \o " must keep the value")
          ELSE Ok

Next == i <= Len(Trace) /\ i' = i + 1 /\ (Reset \/ Obs)
Spec == Init /\ [][Next]_vars
=============================================================================
