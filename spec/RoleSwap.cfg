SPECIFICATION Spec
CONSTANTS
  Ordered = FALSE
INVARIANTS Survives
CHECK_DEADLOCK FALSE
