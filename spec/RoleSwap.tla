---------------------------- MODULE RoleSwap ----------------------------
(* Known finding D26 at the design level: a join re-assigns a partition so that two OLD members swap roles - the primary
   owner A becomes the backup owner and the backup owner B becomes the primary owner (distributePrimaryCopies and
   distributeBackups are computed independently).  The balancer then performs two independent moves, in any order:
       MovePrimary : A sends its primary fragment to B and drops it       (A: previous primary owner)
       MoveBackup  : B sends its backup fragment to A and drops it        (B: previous backup owner)
   One member may crash at any moment (R = 2 tolerates one failure).

   Ordered = FALSE is the balancer as it is; configuration RoleSwap.cfg is expected to violate Survives: after MovePrimary and
   before MoveBackup both copies sit on B, and a crash of B loses the data.  Ordered = TRUE (a member copies first and gives up the
   copy of its old role only once it holds the copy of its new role) holds - one way to repair it; moving one fragment
   strictly before the other does not (the window just moves to the other member). *)
EXTENDS Naturals, FiniteSets

CONSTANTS Ordered
VARIABLES prim, back, alive
vars == <<prim, back, alive>>
M == {"A", "B"}

Init == /\ prim = [m \in M |-> m = "A"] /\ back = [m \in M |-> m = "B"] /\ alive = M
MovePrimary == /\ M \subseteq alive /\ prim["A"] /\ ~prim["B"]
               /\ prim' = [prim EXCEPT !["B"] = TRUE, !["A"] = Ordered] /\ UNCHANGED <<back, alive>>
MoveBackup == /\ M \subseteq alive /\ back["B"] /\ ~back["A"]
              /\ back' = [back EXCEPT !["A"] = TRUE, !["B"] = Ordered] /\ UNCHANGED <<prim, alive>>
\* Ordered: a member gives up the copy of its old role only when it holds the copy of its new role
DropPrimary == /\ Ordered /\ M \subseteq alive /\ prim["A"] /\ prim["B"] /\ back["A"]
               /\ prim' = [prim EXCEPT !["A"] = FALSE] /\ UNCHANGED <<back, alive>>
DropBackup == /\ Ordered /\ M \subseteq alive /\ back["B"] /\ back["A"] /\ prim["B"]
              /\ back' = [back EXCEPT !["B"] = FALSE] /\ UNCHANGED <<prim, alive>>
Crash(m) == /\ alive = M /\ alive' = M \ {m} /\ UNCHANGED <<prim, back>>
Next == MovePrimary \/ MoveBackup \/ DropPrimary \/ DropBackup \/ \E m \in M : Crash(m)
Spec == Init /\ [][Next]_vars

\* an acknowledged write survives the loss of one member
Survives == \E m \in alive : prim[m] \/ back[m]
=============================================================================
