SPECIFICATION Spec
CONSTANTS
  Ordered = TRUE
INVARIANTS Survives
CHECK_DEADLOCK FALSE
