SPECIFICATION Spec
CONSTANTS
  Members = {1, 2, 3}
  Parts = {0, 1}
  R = 2
  MaxEvents = 3
  MaxWrites = 2
  Export = FALSE
VIEW mview
INVARIANTS ValidTable ExportInv
CHECK_DEADLOCK FALSE
