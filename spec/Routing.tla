---------------------------- MODULE Routing ----------------------------
(* Prototype of membership + routing-table computation + push + (atomic) fragment moves.
   Data is abstracted to "member m holds keys of partition p in its primary/backup fragment". *)
EXTENDS Naturals, Sequences, FiniteSets, TLC, SequencesExt, FiniteSetsExt, Json

CONSTANTS Members, Parts, R, MaxEvents, MaxWrites, Export,
          OnlyClosestKept   \* seeded change S-C03-6: a former backup holder that still has data stays listed only if it is among the closest members
ASSUME Members \subseteq Nat

VARIABLES alive, birth, clock, view, table, pending, pdata, bdata, events, writes, reports, elog
vars == <<alive, birth, clock, view, table, pending, pdata, bdata, events, writes, reports, elog>>
mview == <<alive, birth, clock, view, table, pending, pdata, bdata, events, writes, reports>>

Empty == [owners |-> <<>>, backups |-> <<>>]
SeqSet(s) == {s[i] : i \in 1..Len(s)}
Filter(s, P(_)) == SelectSeq(s, P)
Without(s, x) == SelectSeq(s, LAMBDA y : y # x)

Coord == CHOOSE m \in alive : \A n \in alive : birth[m] <= birth[n]

\* deterministic stand-in for the consistent-hash ring
Score(m, p) == (m * 7 + p * 5) % 11
RingOwner(p) == CHOOSE m \in alive : \A n \in alive : Score(m, p) < Score(n, p) \/ (Score(m, p) = Score(n, p) /\ m <= n)
SortedAlive == SetToSortSeq(alive, <)
ClosestN(p, n) ==
  LET s == SortedAlive
      k == CHOOSE i \in 1..Len(s) : s[i] = RingOwner(p)
  IN [i \in 1..n |-> s[((k - 1 + i - 1) % Len(s)) + 1]]

DPC(p) ==
  LET cur == view[Coord][p].owners
      new == RingOwner(p) IN
  IF cur = <<>> THEN <<new>> ELSE
  LET live  == Filter(cur, LAMBDA o : o \in alive)
      full  == Filter(live, LAMBDA o : pdata[o][p])
  IN Append(Without(full, new), new)

DB(p) ==
  LET cur == view[Coord][p].backups
      n   == IF R <= Cardinality(alive) THEN R ELSE Cardinality(alive)
      newB == Tail(ClosestN(p, n)) IN
  IF cur = <<>> THEN newB ELSE
  LET live == Filter(cur, LAMBDA o : o \in alive)
      full == Filter(live, LAMBDA o : bdata[o][p] /\ (~OnlyClosestKept \/ o \in SeqSet(ClosestN(p, n))))
      RECURSIVE Add(_, _)
      Add(acc, rest) == IF rest = <<>> THEN acc ELSE Add(Append(Without(acc, Head(rest)), Head(rest)), Tail(rest))
  IN Add(full, newB)

Init == /\ alive = {Min(Members)} /\ birth = [m \in Members |-> IF m = Min(Members) THEN 1 ELSE 0] /\ clock = 1
        /\ view = [m \in Members |-> [p \in Parts |-> Empty]]
        /\ table = [p \in Parts |-> Empty] /\ pending = {}
        /\ pdata = [m \in Members |-> [p \in Parts |-> FALSE]]
        /\ bdata = [m \in Members |-> [p \in Parts |-> FALSE]]
        /\ events = 0 /\ writes = 0 /\ reports = {} /\ elog = <<>>

Join(m) == /\ m \notin alive /\ birth[m] = 0 /\ events < MaxEvents /\ pending = {}
           /\ alive' = alive \cup {m} /\ clock' = clock + 1 /\ birth' = [birth EXCEPT ![m] = clock + 1]
           /\ events' = events + 1 /\ elog' = Append(elog, [ev |-> "join", m |-> m])
           /\ UNCHANGED <<view, table, pending, pdata, bdata, writes, reports>>
Leave(m) == /\ m \in alive /\ Cardinality(alive) > 1 /\ events < MaxEvents /\ pending = {}
            /\ alive' = alive \ {m} /\ events' = events + 1
            /\ pdata' = [pdata EXCEPT ![m] = [p \in Parts |-> FALSE]]
            /\ bdata' = [bdata EXCEPT ![m] = [p \in Parts |-> FALSE]]
            /\ elog' = Append(elog, [ev |-> "leave", m |-> m])
            /\ UNCHANGED <<birth, clock, view, table, pending, writes, reports>>

Compute == /\ pending = {}
           /\ table' = [p \in Parts |-> [owners |-> DPC(p), backups |-> IF R > 1 THEN DB(p) ELSE <<>>]]
           /\ pending' = alive /\ reports' = {}
           /\ UNCHANGED <<alive, birth, clock, view, pdata, bdata, events, writes, elog>>
PushTo(m) == /\ m \in pending
             /\ pending' = pending \ {m}
             /\ IF m \in alive
                THEN /\ view' = [view EXCEPT ![m] = table]
                     /\ reports' = reports \cup {<<m, p, "p">> : p \in {q \in Parts : pdata[m][q]}}
                                           \cup {<<m, p, "b">> : p \in {q \in Parts : bdata[m][q]}}
                ELSE UNCHANGED <<view, reports>>
             /\ UNCHANGED <<alive, birth, clock, table, pdata, bdata, events, writes, elog>>
\* coordinator prepends reporters that it does not list
ProcessReports ==
  /\ pending = {} /\ reports # {} /\ Coord \in alive
  /\ LET c == Coord
         addP(p, os) == LET miss == {r[1] : r \in {x \in reports : x[2] = p /\ x[3] = "p"}} \ SeqSet(os)
                        IN SetToSortSeq(miss, <) \o os
         addB(p, os) == LET miss == {r[1] : r \in {x \in reports : x[2] = p /\ x[3] = "b"}} \ SeqSet(os)
                        IN SetToSortSeq(miss, <) \o os
     IN view' = [view EXCEPT ![c] = [p \in Parts |-> [owners |-> addP(p, view[c][p].owners),
                                                      backups |-> addB(p, view[c][p].backups)]]]
  /\ reports' = {}
  /\ UNCHANGED <<alive, birth, clock, table, pending, pdata, bdata, events, writes, elog>>

Owner(m, p) == LET os == view[m][p].owners IN os[Len(os)]
\* a write through entry member e, executed by the owner in e's view using the owner's own view of the backups
Write(e, p) == /\ e \in alive /\ writes < MaxWrites /\ view[e][p].owners # <<>>
               /\ LET o == Owner(e, p) IN
                  /\ o \in alive /\ view[o][p].owners # <<>>
                  /\ pdata' = [pdata EXCEPT ![o][p] = TRUE]
                  /\ bdata' = [b \in Members |-> [q \in Parts |->
                                 IF q = p /\ b \in SeqSet(view[o][p].backups) /\ b \in alive THEN TRUE ELSE bdata[b][q]]]
               /\ writes' = writes + 1 /\ elog' = Append(elog, [ev |-> "write", m |-> e, p |-> p])
               /\ UNCHANGED <<alive, birth, clock, view, table, pending, events, reports>>
\* balancer: a non-owner holding primary data moves it to the owner (which must list itself)
MoveP(m, p) == /\ m \in alive /\ pdata[m][p] /\ view[m][p].owners # <<>>
               /\ LET o == Owner(m, p) IN
                  /\ o # m /\ o \in alive /\ o \in SeqSet(view[o][p].owners)
                  /\ pdata' = [pdata EXCEPT ![m][p] = FALSE, ![o][p] = TRUE]
               /\ UNCHANGED <<alive, birth, clock, view, table, pending, bdata, events, writes, reports, elog>>
MoveB(m, p) == /\ m \in alive /\ bdata[m][p] /\ R > 1
               /\ LET bs == view[m][p].backups
                      n == Len(bs)
                      cur == {bs[i] : i \in {j \in 1..n : j > n - (R - 1)}} IN
                  /\ bs # <<>> /\ m \notin cur /\ cur \subseteq alive
                  /\ \A t \in cur : t \in SeqSet(view[t][p].backups)
                  /\ bdata' = [b \in Members |-> [q \in Parts |->
                                 IF q = p /\ b = m THEN FALSE ELSE IF q = p /\ b \in cur THEN TRUE ELSE bdata[b][q]]]
               /\ UNCHANGED <<alive, birth, clock, view, table, pending, pdata, events, writes, reports, elog>>

Next == \/ \E m \in Members : Join(m) \/ Leave(m) \/ PushTo(m)
        \/ Compute \/ ProcessReports
        \/ \E m \in Members, p \in Parts : Write(m, p) \/ MoveP(m, p) \/ MoveB(m, p)
Spec == Init /\ [][Next]_vars

\* ---- stabilised: a recomputation changes nothing, nothing left to push, report or move ----
Fix == [p \in Parts |-> [owners |-> DPC(p), backups |-> IF R > 1 THEN DB(p) ELSE <<>>]]
Stable == /\ pending = {} /\ reports = {}
          /\ \A m \in alive : view[m] = Fix
          /\ \A m \in alive, p \in Parts : ~ENABLED MoveP(m, p) /\ ~ENABLED MoveB(m, p)

NoDup(s) == Cardinality(SeqSet(s)) = Len(s)
ValidTable ==
  Stable => \A p \in Parts : LET t == Fix[p] n == Cardinality(alive) want == (IF R <= n THEN R ELSE n) - 1 IN
     /\ t.owners # <<>> /\ SeqSet(t.owners) \subseteq alive /\ NoDup(t.owners)
     /\ SeqSet(t.backups) \subseteq alive /\ NoDup(t.backups)
     /\ Len(t.backups) >= want
     /\ LET cur == {t.backups[i] : i \in {j \in 1..Len(t.backups) : j > Len(t.backups) - want}} IN
          /\ Cardinality(cur) = want /\ t.owners[Len(t.owners)] \notin cur
     /\ \A i \in 1..Len(t.owners) - 1 : pdata[t.owners[i]][p]          \* previous owners still hold data
     /\ \A i \in 1..Len(t.backups) - want : bdata[t.backups[i]][p]    \* extra backup owners still hold data
\* the table at a push-only fixpoint - another round of compute, push and reports would change no member's table, while data
\* may still wait to be moved: the coordinator's table (with the reporters it prepends) is the table everybody else holds
Patched(t) == [p \in Parts |->
                 [owners  |-> SetToSortSeq({m \in alive : pdata[m][p]} \ SeqSet(t[p].owners), <) \o t[p].owners,
                  backups |-> SetToSortSeq({m \in alive : bdata[m][p]} \ SeqSet(t[p].backups), <) \o t[p].backups]]
PushFixpoint == /\ pending = {} /\ reports = {}
                /\ \A m \in alive \ {Coord} : view[m] = Fix
                /\ view[Coord] = Patched(Fix)
PushFixpointAgreement == PushFixpoint => Patched(Fix) = Fix
\* every distinct state exports the membership/write events that led to it (the Go driver replays them)
ExportInv == Export => PrintT("BEH " \o ToJson(elog))
\* written data is never orphaned: some listed live member holds it (R=1: may be lost with its only holder)
=============================================================================
