---------------------------- MODULE RoutingTrace ----------------------------
(* C13: after membership stabilises every member and client holds the same, valid, balanced
   routing table.  The driver (harness/rt) applies join/leave sequences (exported by TLC from
   Routing.tla, plus seeded random ones) to a real cluster and, at each stabilisation, logs
     members  the live members in join order (names m0, m1, ...), who is coordinator
     views    for every live member and for a cluster client: partition -> owners / backups
     holds    which members hold primary / backup data for which partition (white box)
     keys     for sample keys: the partition and owner computed by every member and the client
   Deterministic, fully logged; each predicate of the statement is evaluated by TLC. *)
EXTENDS Integers, Sequences, FiniteSets, TLC, Json, SequencesExt

CONSTANTS TraceFile
Trace == ndJsonDeserialize(TraceFile)
VARIABLES i, err, seq
vars == <<i, err, seq>>
Ev == Trace[i]
Fail(msg) == /\ err' = IF err = "" THEN msg ELSE err
             /\ (err = "" => PrintT("FAIL|" \o ToString(seq) \o "|" \o ToString(i) \o "|" \o msg))
Ok == err' = err
SeqSet(s) == {s[j] : j \in 1..Len(s)}
NoDup(s) == Cardinality(SeqSet(s)) = Len(s)
Min2(a, b) == IF a < b THEN a ELSE b

Live == SeqSet(Ev.members)
N == Len(Ev.members)
Want == Min2(Ev.R, N) - 1                  \* number of current backup owners
Views == Ev.views                           \* sequence of [who, owners: seq of seq, backups: seq of seq]
T == Views[1]
Parts == 1..Len(T.owners)
Primary(p) == T.owners[p][Len(T.owners[p])]
CurBackups(p) == LET b == T.backups[p] IN {b[j] : j \in {x \in 1..Len(b) : x > Len(b) - Want}}
HoldsP(m, p) == \E h \in SeqSet(Ev.holds) : h.m = m /\ h.kind = "p" /\ h.part = p - 1
HoldsB(m, p) == \E h \in SeqSet(Ev.holds) : h.m = m /\ h.kind = "b" /\ h.part = p - 1
Owned(m) == Cardinality({p \in Parts : Primary(p) = m})
\* ceil(P / N * LoadFactor) with LoadFactor given in hundredths
LoadBound == ((Len(T.owners) * Ev.lf100) + (N * 100) - 1) \div (N * 100)

Agreement == \A j \in 1..Len(Views) : Views[j].owners = T.owners /\ Views[j].backups = T.backups
OwnersValid == \A p \in Parts : /\ Len(T.owners[p]) >= 1 /\ NoDup(T.owners[p]) /\ SeqSet(T.owners[p]) \subseteq Live
BackupsValid == \A p \in Parts : /\ NoDup(T.backups[p]) /\ SeqSet(T.backups[p]) \subseteq Live
                                 /\ Len(T.backups[p]) >= Want
                                 /\ Cardinality(CurBackups(p)) = Want /\ Primary(p) \notin CurBackups(p)
ExtraOwnersHoldData == \A p \in Parts : /\ \A j \in 1..(Len(T.owners[p]) - 1) : HoldsP(T.owners[p][j], p)
                                        /\ \A j \in 1..(Len(T.backups[p]) - Want) : HoldsB(T.backups[p][j], p)
Balanced == \A m \in Live : Owned(m) <= LoadBound
\* Members() of every client lists exactly the live members and flags exactly the oldest one as coordinator
ListsOk == \A j \in 1..Len(Ev.lists) : SeqSet(Ev.lists[j].names) = Live /\ Len(Ev.lists[j].names) = N /\ Ev.lists[j].coordinators = <<Ev.members[1]>>
CoordinatorOldest == Ev.coordinator = Ev.members[1] /\ \A j \in 1..Len(Ev.coordinators) : Ev.coordinators[j] = Ev.members[1]
\* every key maps to the same partition and owner from every member and client
KeysAgree == \A j \in 1..Len(Ev.keys) : LET k == Ev.keys[j] IN
                /\ \A x \in SeqSet(k.parts) : x = k.parts[1]
                /\ \A x \in SeqSet(k.owners) : x = k.owners[1]
                /\ k.owners[1] = Primary(k.parts[1] + 1)

Reset == Ev.t = "reset" /\ seq' = Ev.seq /\ err' = ""
Event == Ev.t = "event" /\ UNCHANGED seq /\ Ok          \* join / leave, for the record
Stable == /\ Ev.t = "stable" /\ UNCHANGED seq
          /\ IF ~Agreement THEN Fail("members or clients hold different routing tables")
             ELSE IF ~OwnersValid THEN Fail("a partition has no live primary owner, a duplicate or a departed owner")
             ELSE IF ~BackupsValid THEN Fail("backup owners are not min(R,N)-1 distinct live members other than the primary")
             ELSE IF ~ExtraOwnersHoldData THEN Fail("a further listed owner holds no data for the partition")
             ELSE IF ~Balanced THEN Fail("a member owns more partitions than the load factor allows")
             ELSE IF ~CoordinatorOldest THEN Fail("the coordinator is not the oldest live member")
             ELSE IF ~ListsOk THEN Fail("a client's member list is not the set of live members with the oldest one as coordinator")
             ELSE IF ~KeysAgree THEN Fail("a key maps to different partitions or owners")
             ELSE Ok
Next == i <= Len(Trace) /\ i' = i + 1 /\ (Reset \/ Event \/ Stable)
Spec == i = 1 /\ err = "" /\ seq = 0 /\ [][Next]_vars
=============================================================================
