\* seeded change S-C03-6 at the design level: must violate PushFixpointAgreement
SPECIFICATION Spec
CONSTANTS
  Members = {1, 2, 3}
  Parts = {0, 1}
  R = 2
  MaxEvents = 3
  MaxWrites = 2
  Export = FALSE
  OnlyClosestKept = TRUE
VIEW mview
INVARIANTS PushFixpointAgreement
CHECK_DEADLOCK FALSE
