---------------------------- MODULE ScanTrace ----------------------------
(* C12 on real clusters: every complete iteration of a DMap - client iterators of the embedded
   and the cluster client, raw DM.SCAN cursor walks per partition and owner - is logged with the
   set of keys that were present throughout (no writes run during a scan) and what it yielded.

     iterator   terminates; yields exactly the present keys matching the pattern, each exactly once
     busy       an iteration interleaved with compaction and writes: every key present all the time is yielded
     raw walk   terminates within keys + tables + 2 calls per owner; yields every present key of
                that partition matching the pattern at least once, nothing that is not present *)
EXTENDS Integers, Sequences, FiniteSets, TLC, Json

CONSTANTS TraceFile
Trace == ndJsonDeserialize(TraceFile)
VARIABLES i, err, seq
vars == <<i, err, seq>>
Ev == Trace[i]
Fail(msg) == /\ err' = IF err = "" THEN msg ELSE err
             /\ (err = "" => PrintT("FAIL|" \o ToString(seq) \o "|" \o ToString(i) \o "|" \o msg))
Ok == err' = err
SeqSet(s) == {s[j] : j \in 1..Len(s)}

Reset == Ev.t = "reset" /\ seq' = Ev.seq /\ err' = ""
\* `want` = present keys matching the pattern (computed by the driver with Go's regexp from the
\* key set it wrote itself), `got` = yielded keys in order
Scan == /\ Ev.t = "scan" /\ UNCHANGED seq
        /\ IF ~Ev.fin THEN Fail("iteration did not terminate (" \o Ev.via \o ")")
           ELSE IF ~(SeqSet(Ev.got) \subseteq SeqSet(Ev.want)) THEN Fail("a key that is absent or does not match was yielded (" \o Ev.via \o ")")
           ELSE IF SeqSet(Ev.want) # SeqSet(Ev.got) THEN Fail("a present key was not yielded (" \o Ev.via \o ")")
           ELSE IF Ev.exact /\ Len(Ev.got) # Cardinality(SeqSet(Ev.want)) THEN Fail("a key was yielded more than once (" \o Ev.via \o ")")
           ELSE IF Ev.bound > 0 /\ Ev.calls > Ev.bound THEN Fail("cursor walk needs more calls than keys + tables + 2")
           ELSE Ok
\* an iteration whose pages alternate with compaction, writes of new keys, overwrites and deletes of other keys:
\* `stable` = keys present and untouched all the time, `may` = every key that was stored at some time during the iteration
BusyScan == /\ Ev.t = "busyscan" /\ UNCHANGED seq
            /\ IF ~Ev.fin THEN Fail("iteration did not terminate (" \o Ev.via \o ")")
               ELSE IF ~(SeqSet(Ev.stable) \subseteq SeqSet(Ev.got)) THEN Fail("a key that was present during the whole iteration was not yielded (" \o Ev.via \o ")")
               ELSE IF ~(SeqSet(Ev.got) \subseteq SeqSet(Ev.may)) THEN Fail("a key that was never stored was yielded (" \o Ev.via \o ")")
               ELSE Ok
Next == i <= Len(Trace) /\ i' = i + 1 /\ (Reset \/ Scan \/ BusyScan)
Spec == i = 1 /\ err = "" /\ seq = 0 /\ [][Next]_vars
=============================================================================
