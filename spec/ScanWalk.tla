------------------------------ MODULE ScanWalk ------------------------------
(* A cursor walk over a store of append-only tables (internal/kvstore scanCommon / Table.Scan) whose pages alternate with
   deletes, writes and compaction - what C12 says about "every key that was present during the whole iteration".
   A table is a sequence of slots (key, live); the newest table takes the writes; compaction drains a sealed table into the
   newest one and removes it.  The cursor is (table number, position inside the table); one key per page.

   Cursor = "offset"   the position is the slot index after the last slot looked at (the code as it is); a table that has
                       disappeared sends the walk to the beginning of the next one
   Cursor = "mod"      the position is kept when the table has disappeared (seeded change S-C12-5: in-table position
                       computed before the table lookup) - must violate WalkComplete
   Cursor = "rank"     the position is the NUMBER of live entries already visited in the table (seeded change S-C12-6)
                       - must violate WalkComplete *)
EXTENDS Naturals, Sequences, FiniteSets

CONSTANTS Keys, Cap, MaxT, MaxOps, Cursor

VARIABLES tabs,      \* table number -> sequence of [k, live]
          present,   \* table numbers that exist
          cur,       \* [t, pos] or Done
          got, stable, nops
vars == <<tabs, present, cur, got, stable, nops>>
Done == [t |-> 0, pos |-> 0]
Newest == CHOOSE t \in present : \A u \in present : u <= t
Live(t) == {i \in 1..Len(tabs[t]) : tabs[t][i].live}

Init == /\ \E f \in [1..Cap -> Keys] :
             /\ \A i, j \in 1..Cap : i # j => f[i] # f[j]
             /\ tabs = [t \in 1..MaxT |-> IF t = 1 THEN [i \in 1..Cap |-> [k |-> f[i], live |-> TRUE]] ELSE <<>>]
             /\ stable = {f[i] : i \in 1..Cap}
        /\ present = {1, 2} /\ cur = [t |-> 1, pos |-> 0] /\ got = {} /\ nops = 0

Kill(ts, k) == [t \in 1..MaxT |-> [i \in 1..Len(ts[t]) |-> IF ts[t][i].k = k THEN [k |-> k, live |-> FALSE] ELSE ts[t][i]]]
Touch(k) == stable' = stable \ {k}

Delete(k) == /\ nops < MaxOps /\ cur # Done
             /\ tabs' = Kill(tabs, k) /\ Touch(k) /\ nops' = nops + 1 /\ UNCHANGED <<present, cur, got>>
\* a write retires the old version and appends to the newest table (a new table when that one is full)
Put(k) == /\ nops < MaxOps /\ cur # Done
          /\ LET n == Newest
                 full == Len(tabs[n]) >= Cap
                 tgt == IF full THEN n + 1 ELSE n IN
             /\ tgt <= MaxT
             /\ tabs' = [Kill(tabs, k) EXCEPT ![tgt] = Append(Kill(tabs, k)[tgt], [k |-> k, live |-> TRUE])]
             /\ present' = present \cup {tgt}
          /\ Touch(k) /\ nops' = nops + 1 /\ UNCHANGED <<cur, got>>
\* compaction: a sealed table with a dead slot is drained into the newest table and removed
Compact(t) == /\ nops < MaxOps /\ cur # Done /\ t \in present /\ t # Newest /\ Live(t) # 1..Len(tabs[t])
              /\ LET n == Newest
                     RECURSIVE Move(_, _)
                     Move(i, acc) == IF i > Len(tabs[t]) THEN acc
                                     ELSE Move(i + 1, IF tabs[t][i].live THEN Append(acc, tabs[t][i]) ELSE acc) IN
                 /\ Len(Move(1, tabs[n])) <= Cap + Cap
                 /\ tabs' = [tabs EXCEPT ![n] = Move(1, tabs[n]), ![t] = <<>>]
              /\ present' = present \ {t} /\ nops' = nops + 1 /\ UNCHANGED <<cur, got, stable>>

NextTable(t) == IF \E u \in present : u > t THEN CHOOSE u \in present : u > t /\ \A v \in present : v > t => u <= v ELSE 0
\* where the page begins: the cursor's table, or the next one when it has disappeared
Start == IF cur.t \in present THEN cur
         ELSE [t |-> NextTable(cur.t), pos |-> IF Cursor = "mod" THEN cur.pos ELSE 0]
\* slot index at which the page begins to look
From(s) == IF Cursor = "rank"
             THEN \* skip as many LIVE entries as have been visited
                  LET lv == Live(s.t) IN
                  IF Cardinality(lv) <= s.pos THEN Len(tabs[s.t]) + 1
                  ELSE CHOOSE i \in lv : Cardinality({j \in lv : j < i}) = s.pos
             ELSE s.pos + 1
Page == /\ cur # Done
        /\ LET s == Start IN
           IF s.t = 0 THEN cur' = Done /\ UNCHANGED got
           ELSE LET cand == {i \in Live(s.t) : i >= From(s)} IN
                IF cand = {} THEN /\ cur' = (IF NextTable(s.t) = 0 THEN Done ELSE [t |-> NextTable(s.t), pos |-> 0])
                                  /\ UNCHANGED got
                ELSE LET i == CHOOSE x \in cand : \A y \in cand : x <= y IN
                     /\ got' = got \cup {tabs[s.t][i].k}
                     /\ cur' = [t |-> s.t, pos |-> IF Cursor = "rank" THEN s.pos + 1 ELSE i]
        /\ UNCHANGED <<tabs, present, stable, nops>>

Next == Page \/ \E k \in Keys : Delete(k) \/ Put(k) \/ \E t \in 1..MaxT : Compact(t)
Spec == Init /\ [][Next]_vars

\* every key that was present, untouched, during the whole walk has been yielded when the walk is over
WalkComplete == cur = Done => stable \subseteq got
=============================================================================
