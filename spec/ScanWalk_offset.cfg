SPECIFICATION Spec
CHECK_DEADLOCK FALSE
CONSTANTS
  Keys = {k1, k2, k3}
  Cap = 2
  MaxT = 4
  MaxOps = 4
  Cursor = "offset"
INVARIANTS WalkComplete
