---------------------------- MODULE SnapshotTrace ----------------------------
(* C18: a value handed back to a caller is a private snapshot, and so is what the caller passed in.

   Abstract state: the map key -> value (digests) and the caller's handles h -> value.
     put / del       change the map only
     ret(h, k, v)    a read handed value v of key k to the caller as handle h: v = map[k]
     retkey(h, v)    an iterator handed the key string v to the caller as handle h
     mut(h, v')      the caller overwrites the bytes of its handle: handle := v', the map is untouched
     mutbuf(k)       the caller reuses the buffer it passed to Put: nothing changes
     churn           overwrites of other keys, compaction, table recycling, migration: nothing changes
     obs(h, v)       the caller looks at its handle again: v = handle[h]
     get(k, v)       any caller reads k: v = map[k]
   Deterministic, fully logged (harness/reg TestC18). *)
EXTENDS Integers, Sequences, TLC, Json

CONSTANTS TraceFile
Trace == ndJsonDeserialize(TraceFile)
VARIABLES i, err, seq, m, hd
vars == <<i, err, seq, m, hd>>
Ev == Trace[i]
Fail(msg) == /\ err' = IF err = "" THEN msg ELSE err
             /\ (err = "" => PrintT("FAIL|" \o ToString(seq) \o "|" \o ToString(i) \o "|" \o msg))
Ok == err' = err
Val(f, k) == IF k \in DOMAIN f THEN f[k] ELSE "nil"
Set(f, k, v) == [x \in DOMAIN f \cup {k} |-> IF x = k THEN v ELSE f[x]]

Reset == Ev.t = "reset" /\ seq' = Ev.seq /\ err' = "" /\ m' = <<>> /\ hd' = <<>>
Put == Ev.t = "put" /\ m' = Set(m, Ev.k, Ev.v) /\ UNCHANGED <<seq, hd>> /\ Ok
Del == Ev.t = "del" /\ m' = Set(m, Ev.k, "nil") /\ UNCHANGED <<seq, hd>> /\ Ok
Ret == /\ Ev.t = "ret" /\ hd' = Set(hd, Ev.h, Ev.v) /\ UNCHANGED <<seq, m>>
       /\ IF Ev.v # Val(m, Ev.k) THEN Fail("a read returned a value that is not the stored one") ELSE Ok
RetKey == Ev.t = "retkey" /\ hd' = Set(hd, Ev.h, Ev.v) /\ UNCHANGED <<seq, m>> /\ Ok
Mut == Ev.t = "mut" /\ hd' = Set(hd, Ev.h, Ev.v) /\ UNCHANGED <<seq, m>> /\ Ok
Nop == Ev.t \in {"churn", "mutbuf"} /\ UNCHANGED <<seq, m, hd>> /\ Ok
Obs == /\ Ev.t = "obs" /\ UNCHANGED <<seq, m, hd>>
       /\ IF Ev.v # Val(hd, Ev.h) THEN Fail("a value handed to a caller changed afterwards (" \o Ev.after \o ")") ELSE Ok
Get == /\ Ev.t = "get" /\ UNCHANGED <<seq, m, hd>>
       /\ IF Ev.v # Val(m, Ev.k) THEN Fail("the stored value changed without a write (" \o Ev.after \o ")") ELSE Ok
Next == i <= Len(Trace) /\ i' = i + 1 /\ (Reset \/ Put \/ Del \/ Ret \/ RetKey \/ Mut \/ Nop \/ Obs \/ Get)
Spec == i = 1 /\ err = "" /\ seq = 0 /\ m = <<>> /\ hd = <<>> /\ [][Next]_vars
=============================================================================
