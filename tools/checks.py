"""Per-property checks.  Each function takes a vlib.Ctx and returns the exit code."""
import json, os, concurrent.futures as cf
import vlib
from vlib import Inconclusive, log

REGISTRY = {}


def register(pid):
    def deco(fn):
        REGISTRY[pid] = fn
        return fn
    return deco


def crash_or_fail(ctx, rc, out, what):
    """Common handling of a driver's exit: an olric panic is a violation, any other failure of
    the driver is inconclusive."""
    if rc == 0:
        return False
    crash = vlib.olric_crash(out)
    if crash:
        vlib.report_failure(ctx, "the code under test crashed while %s" % what, {"kind": "crash"},
                            {"stack": crash})
        return True
    raise Inconclusive("driver failed (rc=%d) while %s:\n%s" % (rc, what, out[-3000:]))


# ------------------------------------------------------------------ storage engine family
KV_RULE = ("programs = operation paths exported by TLC from KVStore.tla (one per distinct model state) "
           "+ seeded random programs + churn programs, executed on the real internal/kvstore; a program is "
           "non-trivial if the store grew to >= 2 tables or a compaction step moved entries; distinct = "
           "distinct (table size, operation sequence)")


def kv_family(ctx, prop, design_props, what):
    quick = ctx.tier == "quick"
    # 1. design: the implementation-shaped model satisfies the abstract properties; export one
    #    operation path per distinct state
    behs = []
    ra = vlib.design_check(ctx, "KVStore", "KVStore_design.cfg",
                           consts={"MaxOps": 4 if quick else 5, "Export": "TRUE"}, name="design-export-wide")
    rb = vlib.design_check(ctx, "KVStore", "KVStore_design.cfg",
                           consts={"MaxOps": 6 if quick else 7, "Sizes": "{90}", "Export": "TRUE"},
                           name="design-export-deep", timeout=1800)
    behs = sorted(set(vlib.behaviours(ra)) | set(vlib.behaviours(rb)))
    if not behs:
        raise Inconclusive("TLC exported no behaviour")
    if not quick:
        vlib.design_check(ctx, "KVStore", "KVStore_design.cfg", consts={"MaxOps": 6, "Export": "FALSE"},
                          name="design-deep", timeout=1800)
        vlib.design_check(ctx, "KVStore", "KVStore_design.cfg",
                          consts={"MaxOps": 7, "Export": "FALSE", "Batch": 1, "AllOrders": "TRUE",
                                  "Sizes": "{40, 60}", "MaxCf": 6, "Keys": '{"a", "b"}'},
                          name="design-partial-compaction", timeout=1800)
    out = ctx.dir("drv")
    behfile = os.path.join(out, "beh.jsonl")
    with open(behfile, "w") as f:
        for b in behs:
            f.write(b + "\n")
    env = {"VERIF_OUT": out, "VERIF_BEH": behfile, "VERIF_KV_T": 200,
           "VERIF_KV_RANDOM": 60 if quick else 1500, "VERIF_KV_RANDOM_LEN": 120 if quick else 200,
           "VERIF_KV_CHURN": 4 if quick else 60, "VERIF_KV_CHURN_LEN": 2500 if quick else 20000,
           "VERIF_KV_BIG": 0 if quick else 2}
    rc, o = vlib.go_test(ctx, "kv", "TestKV", env=env, timeout=1500)
    if crash_or_fail(ctx, rc, o, "running storage programs"):
        return vlib.finish(ctx, {"evaluations": 0, "distinct_nontrivial": 0, "rule": KV_RULE, "samples": ["crash"]})
    summ = json.load(open(os.path.join(out, "kv.summary.json")))
    # 2. validation of what the real store answered against KVStoreAbs
    accepted, failures = vlib.validate_chunks(ctx, "KVStoreTrace", "KVStoreTrace.cfg", os.path.join(out, "kv.ndjson"),
                                         consts={"Prop": '"%s"' % prop}, name="kv")
    ctx.traces = accepted
    for seq_lines, line, msg in failures:
        head = json.loads(seq_lines[0])
        ops = [json.loads(l) for l in seq_lines[1:line] if '"t":"obs"' not in l]
        vlib.report_failure(ctx, "%s: %s (sequence %s, line %d)" % (what, msg, head.get("seq"), line),
                            {"kind": "kv", "msg": msg, "src": head.get("src")},
                            {"reset": head, "ops_before_failure": ops[-40:], "failing_line": seq_lines[line - 1][:4000],
                             "replay": "sequence of storage.Engine calls on a fresh store (harness/kv)"})
    for w in summ.get("wedged") or []:
        log("wedged: " + w)
    cov = {"evaluations": summ["evaluations"], "programs": summ["programs"], "programs_from_tlc": summ["from_tlc"],
           "distinct_nontrivial": summ["distinct_nontrivial"], "distinct": summ["distinct"], "rule": KV_RULE,
           "samples": summ["samples"] or [{"note": "no short non-trivial program in this run"}],
           "trace_lines": summ["lines"], "design_properties": design_props,
           "exhaustive": False,
           "explanation": "design: every state of KVStore.tla within the bounds; code: each exported path replayed on "
                          "the real store and its full read-back validated by TLC against KVStoreAbs (Prop=%s)" % prop}
    return vlib.finish(ctx, cov)


@register("C11")
def c11(ctx):
    ctx.assumptions += ["value ids are recovered from a self-describing byte pattern; a corrupted value is reported as id -1",
                        "the receiver of transferred tables applies dmap.fragmentMergeFunction's rule (newer timestamp wins)"]
    return kv_family(ctx, "C11", ["Refines", "CompactionSafe", "SingleVersion", "CfRegistry", "CompactionProgress"],
                     "storage engine does not behave as a map")


@register("C20")
def c20(ctx):
    ctx.assumptions += ["maxIdleTableTimeout = 0 in churn programs so that recycled tables are freed by the compaction that emptied them"]
    return kv_family(ctx, "C20", ["Accounting", "BoundedAfterCompaction", "CompactionProgress"],
                     "storage accounting / boundedness")


def selftest(ctx):
    raise Inconclusive("selftest not built yet")


@register("C12KV")
def c12kv(ctx):
    return kv_family(ctx, "C12", ["ScanComplete"], "engine scan")


# ------------------------------------------------------------------ per-key register family
def reg_run(ctx, test, tracefile, summary, env, design, rule, what, tags_of=None, timeout=1200):
    """Common shape of the register-family checks: design config(s) with TLC, the Go driver on
    real clusters, TLC validation of the recorded histories against Register.tla."""
    for module, cfg, kw in design:
        vlib.design_check(ctx, module, cfg, **kw)
    out = ctx.dir("drv")
    e = {"VERIF_OUT": out}
    e.update(env)
    rc, o = vlib.go_test(ctx, "reg", test, env=e, timeout=timeout)
    if crash_or_fail(ctx, rc, o, what):
        return vlib.finish(ctx, {"evaluations": 0, "distinct_nontrivial": 0, "rule": rule, "samples": ["crash"]})
    summ = json.load(open(os.path.join(out, summary)))
    accepted, failures = vlib.validate_histories(ctx, "RegisterTrace", "RegisterTrace.cfg", os.path.join(out, tracefile),
                                                 name=ctx.prop.lower())
    ctx.traces = accepted
    for seq_lines, line, msg in failures:
        head = json.loads(seq_lines[0])
        evs = [json.loads(l) for l in seq_lines[1:]]
        tags = {"kind": "history"}
        if tags_of:
            tags.update(tags_of(head, evs, line))
        vlib.report_failure(ctx, "%s: history of key %s rejected at line %d (%s)" % (what, head.get("keys"), line, msg),
                            tags, {"reset": head, "history": evs, "rejected_line": line,
                                   "replay": "concurrent history recorded from a real cluster; re-validate with RegisterTrace.tla"})
    cov = {"evaluations": summ["evaluations"], "histories": summ["histories"],
           "distinct_nontrivial": summ["distinct_nontrivial"], "rule": rule,
           "samples": summ.get("samples") or [{"note": "no short non-trivial history in this run"}],
           "configs": summ.get("configs"), "paths": summ.get("paths"), "exhaustive": False}
    return vlib.finish(ctx, cov)


@register("C01")
def c01(ctx):
    quick = ctx.tier == "quick"
    ctx.assumptions += ["membership is stable during every recorded history (manual push/balancer mode)",
                        "an operation that ends in a transport error may or may not have taken effect"]
    rule = ("seeded random programs of 2-4 concurrent clients (each on a random entry path: embedded on any member, cluster client, "
            "raw RESP to any member) x 6-13 Put/PutNX/PutXX/Get/Delete on 2-4 keys, on clusters N in 1..3, R in 1..3, single- and "
            "multi-table fragments; one history per key; non-trivial = two operations on the key overlap in time and one of them writes; "
            "distinct = distinct event sequences")
    design = [("DMapKeyMC", "DMapKey_quick.cfg" if quick else "DMapKey_thorough.cfg", {"timeout": 1500})]
    return reg_run(ctx, "TestC01", "c01.ndjson", "c01.summary.json",
                   {"VERIF_ROUNDS": 8 if quick else 150}, design, rule, "per-key linearizability")
