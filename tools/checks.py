"""Per-property checks.  Each function takes a vlib.Ctx and returns the exit code."""
import json, os, concurrent.futures as cf
import vlib
from vlib import Inconclusive, log

REGISTRY = {}


def register(pid):
    def deco(fn):
        REGISTRY[pid] = fn
        return fn
    return deco


def crash_or_fail(ctx, rc, out, what):
    """Common handling of a driver's exit: an olric panic is a violation, any other failure of
    the driver is inconclusive."""
    if rc == 0:
        return False
    crash = vlib.olric_crash(out)
    if crash:
        vlib.report_failure(ctx, "the code under test crashed while %s" % what, {"kind": "crash"},
                            {"stack": crash})
        return True
    raise Inconclusive("driver failed (rc=%d) while %s:\n%s" % (rc, what, out[-3000:]))


# ------------------------------------------------------------------ storage engine family
KV_RULE = ("programs = operation paths exported by TLC from KVStore.tla (one per distinct model state) "
           "+ seeded random programs + churn programs (uniform or skewed key choice, recycled tables freed at once or kept for an hour, Put or "
           "PutRaw) + programs that alternate tiny and nearly table-sized entries + programs with several thousand small entries, half of them deleted (tables with well over 1000 live entries each) + programs with default-size tables and entries of 40-520 KiB, executed on the real internal/kvstore; a program is "
           "non-trivial if the store grew to >= 2 tables or a compaction step moved entries; distinct = "
           "distinct (table size, operation sequence)")


def kv_family(ctx, prop, design_props, what):
    cov = kv_run(ctx, prop, design_props, what)
    return vlib.finish(ctx, cov)


def kv_run(ctx, prop, design_props, what):
    quick = ctx.tier == "quick"
    # 1. design: the implementation-shaped model satisfies the abstract properties; export one
    #    operation path per distinct state
    behs = []
    ra = vlib.design_check(ctx, "KVStore", "KVStore_design.cfg",
                           consts={"MaxOps": 4 if quick else 5, "Export": "TRUE"}, name="design-export-wide")
    rb = vlib.design_check(ctx, "KVStore", "KVStore_design.cfg",
                           consts={"MaxOps": 6 if quick else 7, "Sizes": "{90}", "Export": "TRUE"},
                           name="design-export-deep", timeout=1800)
    behs = sorted(set(vlib.behaviours(ra)) | set(vlib.behaviours(rb)))
    if not behs:
        raise Inconclusive("TLC exported no behaviour")
    if not quick:
        vlib.design_check(ctx, "KVStore", "KVStore_design.cfg", consts={"MaxOps": 6, "Export": "FALSE"},
                          name="design-deep", timeout=1800)
        vlib.design_check(ctx, "KVStore", "KVStore_design.cfg",
                          consts={"MaxOps": 7, "Export": "FALSE", "Batch": 1, "AllOrders": "TRUE",
                                  "Sizes": "{40, 60}", "MaxCf": 6, "Keys": '{"a", "b"}'},
                          name="design-partial-compaction", timeout=1800)
    if prop == "C11":
        # a receiver of transferred tables that cannot store every entry (smaller tables): the import fails and the sender
        # keeps its table; with the import as found (D35, repaired) the table is dropped although entries have not arrived
        vlib.design_check(ctx, "KVStore", "KVStore_design.cfg", consts={"MaxOps": 4 if quick else 5, "Export": "FALSE", "DstMax": 90},
                          name="design-refusing-receiver", timeout=1800)
        vlib.design_expect_violation(ctx, "KVStore", "KVStore_design.cfg", "TransferSafe", "D35 (the import before the repair)",
                                     consts={"MaxOps": 4, "Export": "FALSE", "DstMax": 90, "FixD35": "FALSE"}, name="design-import-as-found")
    out = ctx.dir("drv")
    behfile = os.path.join(out, "beh.jsonl")
    with open(behfile, "w") as f:
        for b in behs:
            f.write(b + "\n")
    env = {"VERIF_OUT": out, "VERIF_BEH": behfile, "VERIF_KV_T": 200,
           "VERIF_KV_RANDOM": 60 if quick else 1500, "VERIF_KV_RANDOM_LEN": 120 if quick else 200,
           "VERIF_KV_CHURN": 4 if quick else 60, "VERIF_KV_CHURN_LEN": 2500 if quick else 20000,
           "VERIF_KV_BIG": 0 if quick else 2, "VERIF_KV_LARGE": 2 if quick else 30, "VERIF_KV_MIXED": 2 if quick else 40, "VERIF_KV_MANY": 1 if quick else 8,
           "VERIF_KV_KEYLEN": 3 if quick else 60}
    rc, o = vlib.go_test(ctx, "kv", "TestKV", env=env, timeout=1500)
    if crash_or_fail(ctx, rc, o, "running storage programs"):
        return {"evaluations": 0, "distinct_nontrivial": 0, "rule": KV_RULE, "samples": ["crash"]}
    summ = json.load(open(os.path.join(out, "kv.summary.json")))
    # 2. validation of what the real store answered against KVStoreAbs
    accepted, failures = vlib.validate_chunks(ctx, "KVStoreTrace", "KVStoreTrace.cfg", os.path.join(out, "kv.ndjson"),
                                         consts={"Prop": '"%s"' % prop}, name="kv")
    ctx.traces = accepted
    for seq_lines, line, msg in failures:
        head = json.loads(seq_lines[0])
        ops = [json.loads(l) for l in seq_lines[1:line] if '"t":"obs"' not in l]
        vlib.report_failure(ctx, "%s: %s (sequence %s, line %d)" % (what, msg, head.get("seq"), line),
                            {"kind": "kv", "msg": msg, "src": head.get("src")},
                            {"reset": head, "ops_before_failure": ops[-40:], "failing_line": seq_lines[line - 1][:4000],
                             "replay": "sequence of storage.Engine calls on a fresh store (harness/kv)"})
    for w in summ.get("wedged") or []:
        log("wedged: " + w)
    cov = {"evaluations": summ["evaluations"], "programs": summ["programs"], "programs_from_tlc": summ["from_tlc"],
           "distinct_nontrivial": summ["distinct_nontrivial"], "distinct": summ["distinct"], "rule": KV_RULE,
           "samples": summ["samples"] or [{"note": "no short non-trivial program in this run"}],
           "trace_lines": summ["lines"], "design_properties": design_props,
           "exhaustive": False,
           "explanation": "design: every state of KVStore.tla within the bounds; code: each exported path replayed on "
                          "the real store and its full read-back validated by TLC against KVStoreAbs (Prop=%s)" % prop}
    return cov


@register("C11")
def c11(ctx):
    ctx.assumptions += ["value ids are recovered from a self-describing byte pattern; a corrupted value is reported as id -1",
                        "the receiver of transferred tables applies dmap.fragmentMergeFunction's rule (newer timestamp wins)"]
    return kv_family(ctx, "C11", ["Refines", "CompactionSafe", "SingleVersion", "CfRegistry", "CompactionProgress"],
                     "storage engine does not behave as a map")


@register("C20")
def c20(ctx):
    quick = ctx.tier == "quick"
    ctx.assumptions += ["half of the churn programs free recycled tables at once (maxIdleTableTimeout = 0), the other half keep them for an hour",
                        "the fragments of the cluster part are read through the verif-tagged accessor dmap.VerifStats"]
    cov = kv_run(ctx, "C20", ["Accounting", "BoundedAfterCompaction", "CompactionProgress"], "storage accounting / boundedness")
    # the members' compaction worker against the life of a fragment (janitor, Destroy): it always gets through a slot; with
    # Fragment.Compaction reporting "not done" for a closed fragment (the code as found, D30) it must spin for ever
    vlib.design_check(ctx, "FragLife", "FragLife_live.cfg", name="fraglife-live")
    vlib.design_expect_violation(ctx, "FragLife", "FragLife_spin.cfg", "WorkerReturns", "D30 (repaired)", name="fraglife-spin")
    # the same bound on real members whose own compaction worker and janitor do the work, for primary AND backup fragments
    out = ctx.dir("drv")
    rc, o = vlib.go_test(ctx, "reg", "TestC20Cluster", env={"VERIF_OUT": out, "VERIF_C20_ROUNDS": 3000 if quick else 40000}, timeout=1500)
    if crash_or_fail(ctx, rc, o, "churning a cluster"):
        return vlib.finish(ctx, cov)
    summ = json.load(open(os.path.join(out, "c20c.summary.json")))
    acc, fails = vlib.validate_chunks(ctx, "FragmentTrace", "FragmentTrace.cfg", os.path.join(out, "c20c.ndjson"), consts={}, name="c20cluster")
    ctx.traces += acc
    for seq_lines, line, msg in fails:
        head = json.loads(seq_lines[0])
        vlib.report_failure(ctx, "storage accounting / boundedness on a cluster: %s [%s]" % (msg, head.get("cfg")), {"kind": "fragment", "msg": msg.split(":")[0]},
                            {"reset": head, "fragment": json.loads(seq_lines[line - 1])})
    cov["evaluations"] += summ["evaluations"]
    cov["distinct_nontrivial"] += summ["distinct_nontrivial"]
    cov["cluster_fragments_checked"] = summ["distinct_nontrivial"]
    cov["cluster_configs"] = summ.get("configs")
    cov["rule"] += ("; plus churn (Put, Put with a 30 ms expiry, Delete over 40 keys) on real clusters N in 1..3, R in 1..2 with small tables whose members run their own "
                    "compaction worker and janitor every 25 ms, after which every primary and backup fragment's statistics are read white box and held against the same bound")
    return vlib.finish(ctx, cov)


@register("C12")
def c12(ctx):
    quick = ctx.tier == "quick"
    # a cursor walk whose pages alternate with deletes, writes and compaction: the cursor of the code as it is yields every key
    # that was present all the time; the cursors of the seeded changes S-C12-5 / S-C12-6 must not
    vlib.design_check(ctx, "ScanWalk", "ScanWalk_offset.cfg", name="scanwalk")
    vlib.design_expect_violation(ctx, "ScanWalk", "ScanWalk_mod.cfg", "WalkComplete", "seeded change S-C12-5", name="scanwalk-mod")
    vlib.design_expect_violation(ctx, "ScanWalk", "ScanWalk_rank.cfg", "WalkComplete", "seeded change S-C12-6", name="scanwalk-rank")
    ctx.assumptions += ["no writes run while a scan is in progress (the statement quantifies over keys present during the whole iteration)",
                        "the set of keys a raw cursor walk must yield is read white-box from the scanned fragment"]
    # 1. storage engine cursors (KVStore.tla ScanComplete + real kvstore scans of every exported path)
    cov = kv_run(ctx, "C12", ["ScanComplete"], "engine scan")
    # 2. the client iterator's state machine
    vlib.design_check(ctx, "Iterator", "Iterator.cfg", timeout=1500)
    # 3. complete iterations on real clusters
    out = ctx.dir("scan")
    rc, o = vlib.go_test(ctx, "scan", "TestScan", env={"VERIF_OUT": out, "VERIF_ROUNDS": 1 if quick else 12}, timeout=2400)
    if crash_or_fail(ctx, rc, o, "iterating DMaps"):
        return vlib.finish(ctx, cov)
    summ = json.load(open(os.path.join(out, "scan.summary.json")))
    accepted, failures = vlib.validate_chunks(ctx, "ScanTrace", "ScanTrace.cfg", os.path.join(out, "scan.ndjson"), consts={}, name="scan")
    ctx.traces += accepted
    for seq_lines, line, msg in failures:
        head = json.loads(seq_lines[0])
        ev = json.loads(seq_lines[line - 1])
        missing = sorted(set(ev.get("want", [])) - set(ev.get("got", [])))[:10]
        vlib.report_failure(ctx, "scan: %s [%s] missing=%s" % (msg, head.get("cfg"), missing),
                            {"kind": "scan", "msg": msg, "via": ev.get("via", "").split(" ")[0], "fragmented": "fragmented=True" in head.get("cfg", "")},
                            {"reset": head, "scan": {k: (v if k not in ("want", "got") else v[:60]) for k, v in ev.items()}})
    # 4. spec -> code: every initial state of Iterator.tla (owners' key lists in scan order, page size) with every
    #    position of a routing-table refresh is built on a real cluster with fragmented partitions and iterated
    re = vlib.design_check(ctx, "Iterator", "Iterator_export.cfg", timeout=900, name="iterator-export")
    scen = sorted(set(vlib.behaviours(re)))
    if quick:
        import random
        random.Random(ctx.seed).shuffle(scen)
        scen = scen[:260]
    behfile = os.path.join(out, "itbeh.jsonl")
    open(behfile, "w").write("\n".join(scen) + "\n")
    rc, o = vlib.go_test(ctx, "scan", "TestScanModel", env={"VERIF_OUT": out, "VERIF_BEH": behfile}, timeout=2400)
    if crash_or_fail(ctx, rc, o, "iterating model scenarios"):
        return vlib.finish(ctx, cov)
    msumm = json.load(open(os.path.join(out, "scanmodel.summary.json")))
    acc2, fails2 = vlib.validate_chunks(ctx, "ScanTrace", "ScanTrace.cfg", os.path.join(out, "scanmodel.ndjson"), consts={}, name="scanmodel")
    ctx.traces += acc2
    for seq_lines, line, msg in fails2:
        head = json.loads(seq_lines[0])
        ev = json.loads(seq_lines[line - 1])
        missing = sorted(set(ev.get("want", [])) - set(ev.get("got", [])))[:10]
        vlib.report_failure(ctx, "scan: %s [%s] missing=%s" % (msg, head.get("cfg"), missing),
                            {"kind": "scan", "msg": msg, "via": ev.get("via", "").split(" ")[0], "fragmented": True, "model_scenario": True},
                            {"reset": head, "scan": {k: (v if k not in ("want", "got") else v[:60]) for k, v in ev.items()}})
    cov["evaluations"] += summ["evaluations"] + msumm["evaluations"]
    cov["distinct_nontrivial"] += summ["distinct_nontrivial"] + msumm["distinct_nontrivial"]
    cov["iterator_model_scenarios"] = msumm["scenarios"]
    cov["cluster_scans"] = summ["evaluations"]
    cov["cluster_configs"] = summ["configs"]
    cov["samples"] = (cov.get("samples") or [])[:2] + summ["samples"][:2]
    cov["rule"] = (cov["rule"] + "; cluster level: DMaps of 0-300 keys on clusters N in 1..3, R in 1..2, single/multi-table fragments, after inserts, "
                   "overwrites/deletes, compaction, and while a partition has a previous owner holding data (before, between and after table moves); "
                   "complete iterations through the embedded and the cluster client iterator (COUNT 1,2,3,10,default,1000; MATCH patterns) and raw DM.SCAN "
                   "cursor walks of every fragment; non-trivial = multi-table fragment or fragmented partition")
    return vlib.finish(ctx, cov)


# ------------------------------------------------------------------ per-key register family
def reg_run(ctx, test, tracefile, summary, env, design, rule, what, tags_of=None, timeout=1200):
    """Common shape of the register-family checks: design config(s) with TLC, the Go driver on
    real clusters, TLC validation of the recorded histories against Register.tla."""
    for module, cfg, kw in design:
        vlib.design_check(ctx, module, cfg, **kw)
    out = ctx.dir("drv")
    e = {"VERIF_OUT": out}
    e.update(env)
    rc, o = vlib.go_test(ctx, "reg", test, env=e, timeout=timeout)
    if crash_or_fail(ctx, rc, o, what):
        return vlib.finish(ctx, {"evaluations": 0, "distinct_nontrivial": 0, "rule": rule, "samples": ["crash"]})
    summ = json.load(open(os.path.join(out, summary)))
    accepted, failures = vlib.validate_histories(ctx, "RegisterTrace", "RegisterTrace.cfg", os.path.join(out, tracefile),
                                                 name=ctx.prop.lower())
    ctx.traces = accepted
    for seq_lines, line, msg in failures:
        head = json.loads(seq_lines[0])
        evs = [json.loads(l) for l in seq_lines[1:]]
        tags = {"kind": "history"}
        if tags_of:
            tags.update(tags_of(head, evs, line))
        vlib.report_failure(ctx, "%s: history of key %s rejected at line %d (%s)" % (what, head.get("keys"), line, msg),
                            tags, {"reset": head, "history": evs, "rejected_line": line,
                                   "replay": "concurrent history recorded from a real cluster; re-validate with RegisterTrace.tla"})
    cov = {"evaluations": summ["evaluations"], "histories": summ["histories"],
           "distinct_nontrivial": summ["distinct_nontrivial"], "rule": rule,
           "samples": summ.get("samples") or [{"note": "no short non-trivial history in this run"}],
           "configs": summ.get("configs"), "paths": summ.get("paths"), "exhaustive": False}
    return vlib.finish(ctx, cov)


def c01_tags(head, evs, line):
    t = ttl_tags(head, evs, line)
    t["read_repair"] = "RR=true" in head.get("cfg", "")
    # does a Get overlap a write in this history?
    open_ops, overlap = {}, False
    for e in evs:
        if e.get("t") == "inv":
            for o in open_ops.values():
                if (o.get("op") == "get") != (e.get("op") == "get"):
                    overlap = True
            open_ops[e.get("c")] = e
        elif e.get("t") == "res":
            open_ops.pop(e.get("c"), None)
    t["get_overlaps_write"] = overlap
    return {k: t[k] for k in ("kind", "read_repair", "get_overlaps_write", "rejected_op") if k in t}


@register("C01")
def c01(ctx):
    quick = ctx.tier == "quick"
    ctx.assumptions += ["membership is stable during every recorded history (manual push/balancer mode)",
                        "an operation that ends in a transport error may or may not have taken effect"]
    rule = ("seeded random programs of 2-4 concurrent clients (each on a random entry path: embedded on any member, cluster client, "
            "raw RESP to any member) x 6-13 Put/PutNX/PutXX/Get/Delete on 2-4 keys, on clusters N in 1..3, R in 1..3, single- and "
            "multi-table fragments; plus contention rounds: 3-5 operations (Delete, Put XX, Put NX, Put, Get through random paths) on one fresh key released at the same "
            "instant, followed by a read; one history per key; non-trivial = two operations on the key overlap in time and one of them writes; "
            "distinct = distinct event sequences")
    design = [("DMapKeyMC", "DMapKey_quick.cfg" if quick else "DMapKey_thorough.cfg", {"timeout": 1500})]
    # the design as built, with read repair, is not linearizable: TLC's counterexample is known finding D23
    vlib.design_expect_violation(ctx, "DMapKeyMC", "DMapKey_rr.cfg", "Linearizable", "D23", name="DMapKey-readrepair")
    return reg_run(ctx, "TestC01", "c01.ndjson", "c01.summary.json",
                   {"VERIF_ROUNDS": 8 if quick else 150, "VERIF_CONTENTION": 150 if quick else 3000}, design, rule, "per-key linearizability",
                   tags_of=c01_tags)


def entry_tags(head, evs, line):
    """Call-site tags of a rejected history: which entry paths its operations used."""
    paths = sorted(set(e.get("path", "") for e in evs if e.get("t") == "inv"))
    members = sorted(set(p.split("@")[1] for p in paths if "@" in p and not p.startswith("cc@")))
    ops = sorted(set(e.get("op", "") for e in evs if e.get("t") == "inv"))
    return {"paths": ",".join(paths), "distinct_entry_members": len(members), "ops": ",".join(ops)}


@register("C07")
def c07(ctx):
    quick = ctx.tier == "quick"
    rule = ("2-4 concurrent callers x 4-9 Incr/Decr/IncrByFloat/GetPut calls on one key per kind, every caller on a random entry path "
            "(or all on the same one), N=3, R in {1,2}, plus a final Get; every second round callers are delayed at the point between their read and their write (atomic.read); non-trivial = two calls on the key overlap in time; "
            "IncrByFloat deltas are dyadic so the expected sum is exact")
    vlib.design_expect_violation(ctx, "AtomicSpecMC", "AtomicSpec_old.cfg", "NoLostUpdate", "D14 (the design before the repair)", name="AtomicSpec-old")
    return reg_run(ctx, "TestC07", "c07.ndjson", "c07.summary.json", {"VERIF_ROUNDS": 12 if quick else 1500},
                   [("AtomicSpecMC", "AtomicSpec.cfg", {}), ("AtomicSpecMC", "AtomicSpec_getput.cfg", {})], rule, "atomic read-modify-write", tags_of=entry_tags)


def ttl_tags(head, evs, line):
    """Input-class tags of a rejected expiry history."""
    t = entry_tags(head, evs, line)
    invs = [e for e in evs if e.get("t") == "inv"]
    setup = invs[0] if invs else {}
    t["setup"] = "%s%s%s" % (setup.get("op", ""), "+" + setup["mode"] if setup.get("mode") else "",
                             "+NX" if setup.get("nx") else "+XX" if setup.get("xx") else "")
    # the operation whose reply was rejected
    rej = evs[line - 2] if 0 <= line - 2 < len(evs) else {}
    c = rej.get("c")
    op = None
    for e in evs[:line - 1]:
        if e.get("t") == "inv" and e.get("c") == c:
            op = e
    if op:
        t["rejected_op"] = op.get("op", "") + ("+NX" if op.get("nx") else "+XX" if op.get("xx") else "")
        t["rejected_path_kind"] = op.get("path", "").split("@")[0]
    return t


@register("C09")
def c09(ctx):
    quick = ctx.tier == "quick"
    ctx.assumptions += ["time is the process clock in whole milliseconds; an operation whose own interval overlaps the possible deadline "
                        "interval is admitted both ways (no tuning constant)"]
    rule = ("micro-scenarios per key: ttl set through EX/PX/EXAT/PXAT (optionally with NX), a later Expire/PExpire, or the DMap's default TTL; "
            "2-4 follow-ups (Get, Put NX, Put XX, Expire, GetPut, plain Put, Incr) placed 55/30 ms before and 12/35/90 ms after the deadline, "
            "a final read; random entry path per key; N=3, R in {1,2}; every history is non-trivial (operations fall within one ttl of the deadline)"
            + "; keys with an hour to live (every option form) sharing small tables with deleted fillers while the compaction timer runs; a dozen keys of one partition expiring together and rewritten a few ms later while the eviction workers are slowed down at their trace points")
    return reg_run(ctx, "TestC09", "c09.ndjson", "c09.summary.json",
                   {"VERIF_ROUNDS": 2 if quick else 60, "VERIF_PER_BATCH": 40 if quick else 60, "VERIF_MASS": 3 if quick else 40, "VERIF_STRADDLE": 3 if quick else 30},
                   [], rule, "expiry visibility", tags_of=ttl_tags)


@register("C08")
def c08(ctx):
    quick = ctx.tier == "quick"
    ctx.assumptions += ["a Lock that fails must have found the key held at some instant of its waiting period; "
                        "it must not return before its deadline minus 5 ms (timer granularity)"]
    rule = ("per key 2-3 competing lockers on random entry paths (embedded on any member, cluster client, raw RESP), with/without timeout "
            "(150/300 ms), waiter deadlines 100/250/500 ms, then hold+unlock, lease+unlock, expiry + stale token unlock/lease, double unlock; "
            "forged tokens over RESP; a late comer after every timeout; rounds of 4-8 lockers on a fresh key released at the same instant; expiry races: the holder's Unlock / Lease is held by a gate at the point "
            "between its token check and its effect (unlock.checked / lease.checked) until the lock has timed out and a competitor has taken it, "
            "then a third client tries - the schedule of TLC's counterexample for LockSpec_old.cfg; a cluster client whose read timeout (150 ms) is shorter than the deadline of its Lock (600 ms) against a holder that releases before / after that deadline, and a late comer; non-trivial = two calls on the key overlap in time")
    # the two-step Unlock/Lease of the code as found violates mutual exclusion (D25, repaired); the repaired design does not
    vlib.design_expect_violation(ctx, "LockSpec", "LockSpec_old.cfg", "MutualExclusion", "D25 (the design before the repair)", name="LockSpec-old")
    # a client that stops listening before the deadline it asked for leaves attempts behind that acquire the lock for nobody (D34, repaired)
    vlib.design_expect_violation(ctx, "LockSpec", "LockSpec_retry.cfg", "LockHasOwner", "D34 (the cluster client before the repair)", name="LockSpec-retry")
    return reg_run(ctx, "TestC08", "c08.ndjson", "c08.summary.json",
                   {"VERIF_ROUNDS": 2 if quick else 40, "VERIF_PER_BATCH": 20 if quick else 30, "VERIF_RACES": 2 if quick else 25, "VERIF_SIMUL": 30 if quick else 400,
                    "VERIF_IMPATIENT": 4 if quick else 40, "VERIF_COMPACTED_LOCKS": 4 if quick else 40},
                   [("LockSpec", "LockSpec.cfg", {})], rule, "distributed lock", tags_of=ttl_tags)


@register("C15")
def c15(ctx):
    quick = ctx.tier == "quick"
    rule = ("every case = (operation, options, initial state absent/present/present-with-ttl, client path) on a key of its own: Put x {-,NX,XX} x "
            "{-,EX,PX,EXAT,PXAT}, Expire/PExpire, GetPut, Incr, Decr, IncrByFloat, Lock (+Lease, Unlock) with and without timeout, Delete of 1-4 keys "
            "spread over members; paths = embedded on each member, raw RESP to each member, cluster client, pipeline; each case's replies and follow-up "
            "reads (value, reported ttl, visibility after the deadline) are judged against Register.tla, so paths are compared with the specification and "
            "thereby with each other; plus pipelines that carry 24 operations of every kind at once, one per key; cluster shapes: N=3 R=2 (quick), and N in 1..3 x R in 1..3 "
            "with single- and multi-table fragments (thorough); every case is distinct and non-trivial (it changes or probes the stored entry)")
    return reg_run(ctx, "TestC15", "c15.ndjson", "c15.summary.json",
                   {"VERIF_FRACTION": 35 if quick else 100, "VERIF_C15_SHAPES": 1 if quick else 5, "VERIF_BATCHES": 4 if quick else 12},
                   [], rule, "path equivalence", tags_of=ttl_tags)


def det_run(ctx, pkg, test, tracefile, summary, module, cfg, env, design, rule, what, tags_of=None, timeout=1200, consts=None, extra_cov=None):
    """Common shape of the checks whose trace is sequential and fully logged: design configs,
    driver, deterministic validation (every failing sequence is named by the trace spec)."""
    for m, c, kw in design:
        vlib.design_check(ctx, m, c, **kw)
    out = ctx.dir("drv")
    e = {"VERIF_OUT": out}
    e.update(env)
    rc, o = vlib.go_test(ctx, pkg, test, env=e, timeout=timeout)
    if crash_or_fail(ctx, rc, o, what):
        return vlib.finish(ctx, {"evaluations": 0, "distinct_nontrivial": 0, "rule": rule, "samples": ["crash"]})
    summ = json.load(open(os.path.join(out, summary)))
    accepted, failures = vlib.validate_chunks(ctx, module, cfg, os.path.join(out, tracefile), consts=consts or {},
                                              name=ctx.prop.lower())
    ctx.traces = accepted + ((extra_cov or {}).get("dmapkey_hook_traces") or {}).get("accepted", 0)
    for seq_lines, line, msg in failures:
        head = json.loads(seq_lines[0])
        evs = [json.loads(l) for l in seq_lines[1:line]]
        tags = {"kind": "sequence", "msg": msg}
        if tags_of:
            tags.update(tags_of(head, evs, line, msg))
        vlib.report_failure(ctx, "%s: %s (sequence %s, line %d)" % (what, msg, head.get("seq"), line), tags,
                            {"reset": head, "events_up_to_failure": evs[-12:], "replay": "sequence recorded from a real cluster"})
    cov = {"evaluations": summ["evaluations"], "sequences": summ.get("histories"),
           "distinct_nontrivial": summ["distinct_nontrivial"], "rule": rule,
           "samples": summ.get("samples") or [{"note": "no sample"}],
           "configs": summ.get("configs"), "paths": summ.get("paths"),
           "exhaustive": bool(summ.get("exhaustive", False)) or any("exhaustive" in n or "all 256" in n for n in (summ.get("notes") or []))}
    for k in ("notes",):
        if summ.get(k):
            cov[k] = summ[k]
    cov.update(extra_cov or {})
    return vlib.finish(ctx, cov)


def dmapkey_trace(ctx, rounds):
    """DMapKey.tla bound to the code by its own actions: the arrivals at the trace points of the owner's write and delete
    paths, recorded on real clusters under concurrent writers, are replayed by DMapKeyTrace.tla (one action per point;
    LockDiscipline and Mirror in every state; final copies compared white box)."""
    out = ctx.dir("dk")
    rc, o = vlib.go_test(ctx, "reg", "TestDMapKeyTrace", env={"VERIF_OUT": out, "VERIF_DK_ROUNDS": rounds}, timeout=1500)
    if crash_or_fail(ctx, rc, o, "recording the write path's trace points"):
        return None
    summ = json.load(open(os.path.join(out, "dk.summary.json")))
    acc_total = 0
    # (small chunks: the trace specification keeps one program counter per recorded goroutine of the whole chunk)
    results = [vlib.validate_histories(ctx, "DMapKeyTrace", "DMapKeyTrace.cfg", os.path.join(out, "dk-nb%d.ndjson" % nb),
                                       consts={"NB": nb}, name="dk%d" % nb, chunk_lines=100) for nb in (0, 1, 2)]
    for nb, (acc, fails) in zip((0, 1, 2), results):
        acc_total += acc
        for seq_lines, line, msg in fails:
            head = json.loads(seq_lines[0])
            evs = [json.loads(l) for l in seq_lines[1:]]
            bad = evs[line - 2] if 2 <= line <= len(evs) + 1 else {}
            vlib.report_failure(ctx, "write path does not follow DMapKey.tla: the events of key %s are rejected at line %d (%s) [%s]"
                                % (head.get("key"), line, bad.get("p") or bad.get("t"), head.get("cfg")),
                                {"kind": "hook-trace", "point": bad.get("p") or bad.get("t", "")},
                                {"reset": head, "events": evs, "rejected_line": line,
                                 "replay": "trace points recorded from a real cluster; re-validate with DMapKeyTrace.tla (NB=%d)" % nb})
    return {"sequences": summ["histories"], "accepted": acc_total, "operations": summ["evaluations"], "with_competing_clients": summ["distinct_nontrivial"],
            "points": summ.get("paths"), "sample": (summ.get("samples") or [None])[0]}


def last_op_tags(head, evs, line, msg):
    ops = [e for e in evs if e.get("t") == "op"]
    last = ops[-1] if ops else {}
    return {"op": last.get("op", ""), "ret": last.get("ret", ""), "path_kind": last.get("path", "").split("@")[0]}


@register("C04")
def c04(ctx):
    quick = ctx.tier == "quick"
    ctx.assumptions += ["copies are read through the verif-tagged accessor dmap.VerifEntry (decoded copy under the fragment's read lock)",
                        "the last-access stamp is not part of the comparison"]
    rule = ("seeded random sequences of 2-4 mutating operations on one key (Put with NX/XX and EX/PX, Expire/PExpire, GetPut, Delete, Incr, Decr, "
            "Lock/Lease/Unlock, expiry followed by the background sampler's eviction), each operation on a random entry path, N=3, R in {2,3}, "
            "single- and multi-table fragments; after every reply the copy in every member's primary and backup fragment is logged; "
            "distinct = distinct (key kind, operation, reply, path) sequences; every sequence changes the stored entry"
            + "; entries about as large as a storage table; rounds of 3-5 concurrent mutating operations (and lock hand-overs to a waiter) on one key with the copies compared once all have returned; janitor and compaction timers run in the small-table cluster; every seventh operation with a cancelled context; "
            "janitor rounds (FragLife.tla's schedule on the replica write path by brute force: %d Puts each started together with the backup owner's janitor while the backup fragment is empty)" % (1500 if quick else 20000))
    design = [("DMapKeyMC", "DMapKey_quick.cfg" if quick else "DMapKey_thorough.cfg", {"timeout": 1500})]
    dk = dmapkey_trace(ctx, 6 if quick else 40)
    rule += ("; plus DMapKey.tla's own actions replayed on the recorded arrivals at the trace points of the owner's write and delete paths (3-6 clients on 3 keys, "
             "Put / NX / XX / Delete, delays inside the critical sections, R in 1..3): lock exclusive, order of the steps, refusals as the model computes them, "
             "copies equal at rest, final copies as the members hold them")
    return det_run(ctx, "reg", "TestC04", "c04.ndjson", "c04.summary.json", "ReplicaTrace", "ReplicaTrace.cfg",
                   {"VERIF_SEQUENCES": 60 if quick else 4000, "VERIF_C04_ROUNDS": 30 if quick else 500, "VERIF_C04_JANITOR": 1500 if quick else 20000}, design, rule, "backup mirrors primary", tags_of=last_op_tags,
                   extra_cov={"dmapkey_hook_traces": dk})


def c05_tags(head, evs, line, msg):
    e = evs[-1] if evs else {}
    return {"event": e.get("t", ""), "ret": e.get("ret", ""), "unreachable_backups": e.get("unreach", 0), "cmd": e.get("cmd", "")}


@register("C05")
def c05(ctx):
    quick = ctx.tier == "quick"
    ctx.assumptions += ["an unreachable backup = its RESP listener is closed while it stays in the member list",
                        "a failed quorum Put is not required to roll back the copies it stored",
                        "internal.node.updaterouting is exempt from the member-count precondition by design and is not probed"]
    rule = ("every (R, W, RQ) with 1 <= W, RQ <= R <= 3 x every set of unreachable backup owners (one 3-member cluster each): Get on keys present "
            "everywhere / only on the owner / only on backups / on owner and one backup / nowhere and Put on existing and new keys, through embedded, "
            "RESP and cluster-client paths, reply judged against the white-box number of copies; member-count quorum 2 and 3 probed with 14 commands and "
            "NewDMap while members leave; non-trivial = the number of copies is within one of the quorum; quick runs a seeded third of the configurations"
            + "; below the member-count quorum the embedded client opens a fresh DMap name, the name the member has served commands for and a name opened while the quorum was met")
    design = [("Quorum", "Quorum.cfg", {})]
    return det_run(ctx, "reg", "TestC05", "c05.ndjson", "c05.summary.json", "QuorumTrace", "QuorumTrace.cfg",
                   {"VERIF_FRACTION": 34 if quick else 100}, design, rule, "quorum enforcement", tags_of=c05_tags)


# ------------------------------------------------------------------ pub/sub
def ps_nontrivial(trace_path):
    """Counts the programs in which some publish had >= 1 delivery while >= 1 live subscription did
    not match (C14's non-triviality rule), simulating the subscription set from the trace."""
    match = {("a*", "a"), ("a*", "ab"), ("*", "a"), ("*", "ab"), ("*", "b"), ("*", "bc"), ("b?", "bc")}
    n, subs, hit = 0, set(), False
    for l in open(trace_path):
        e = json.loads(l)
        t = e.get("t")
        if t == "reset":
            n += 1 if hit else 0
            subs, hit = set(), False
        elif t == "sub":
            subs.add((e["c"], e["pat"], e["name"]))
        elif t == "unsub":
            subs.discard((e["c"], e["pat"], e["name"]))
        elif t == "unsuball":
            subs = {s for s in subs if not (s[0] == e["c"] and s[1] == e["pat"])}
        elif t == "disc":
            subs = {s for s in subs if s[0] != e["c"]}
        elif t == "pub":
            m = [s for s in subs if (not s[1] and s[2] == e["ch"]) or (s[1] and (s[2], e["ch"]) in match)]
            if m and len(m) < len(subs):
                hit = True
    return n + (1 if hit else 0)


@register("C14")
def c14(ctx):
    quick = ctx.tier == "quick"
    ctx.assumptions += ["PUBLISH returns after every delivery was written and deliveries to one connection are ordered, so a barrier message "
                        "proves that nothing else was delivered (no time-outs involved)",
                        "a connection holding a channel subscription and a matching pattern is served once per subscription"]
    rule = ("operation paths exported by TLC from PubSub.tla (one per distinct subscription state with <= %d operations over 3 connections on 2 members, "
            "channels {a,ab,b}, patterns {a*,*}, including disconnects and re-connects; plus every path of length <= %d) each followed by PUBLISH on every channel and PUBSUB CHANNELS/NUMSUB/NUMPAT; "
            "seeded random programs with duplicate subscriptions, unsubscribe-all and disconnects; rounds with two concurrent publishers; stall rounds (the schedule of "
            "PubSubImpl_unlocked.cfg's counterexample: a subscriber that stops reading keeps a publication under way while another subscriber unsubscribes); a sample of the same programs "
            "through the Go client API (PubSub of an embedded and of a cluster client: Subscribe, PSubscribe, Publish, PubSubChannels, PubSubNumSub, PubSubNumPat); "
            "non-trivial = some publish had >= 1 delivery while >= 1 live subscription did not match") % ((4, 2) if quick else (5, 3))
    ra = vlib.design_check(ctx, "PubSubMC", "PubSub.cfg", consts={"MaxOps": 4 if quick else 5, "Export": "TRUE"}, name="design-states")
    behs = set(vlib.behaviours(ra))
    # every path up to a length (no VIEW: distinct paths are distinct states)
    cfgtxt = open(os.path.join(vlib.SPEC, "PubSub.cfg")).read().replace("VIEW view\n", "")
    open(os.path.join(vlib.SPEC, ".PubSub_paths.cfg"), "w").write(cfgtxt)
    try:
        rb = vlib.design_check(ctx, "PubSubMC", ".PubSub_paths.cfg", consts={"MaxOps": 2 if quick else 3, "Export": "TRUE"}, name="design-paths")
    finally:
        os.remove(os.path.join(vlib.SPEC, ".PubSub_paths.cfg"))
    behs |= set(vlib.behaviours(rb))
    # one member's service at the grain of its lock: PUBLISH writes to the receivers while it holds the read lock, (UN)SUBSCRIBE
    # change the tree under the write lock; writing after the lock was released must violate NoMessageAfterAck (S-C14-5)
    vlib.design_check(ctx, "PubSubImpl", "PubSubImpl.cfg", name="pubsub-impl")
    vlib.design_expect_violation(ctx, "PubSubImpl", "PubSubImpl_unlocked.cfg", "NoMessageAfterAck", "seeded change S-C14-5 (writes after the lock was released)", name="pubsub-impl-unlocked")
    out = ctx.dir("drv")
    behfile = os.path.join(out, "beh.jsonl")
    open(behfile, "w").write("\n".join(sorted(behs)) + "\n")
    rc, o = vlib.go_test(ctx, "ps", "TestPubSub", env={"VERIF_OUT": out, "VERIF_BEH": behfile, "VERIF_PS_RANDOM": 40 if quick else 600,
                                                        "VERIF_PS_RANDOM_LEN": 30 if quick else 40, "VERIF_PS_CONC": 5 if quick else 60, "VERIF_PS_STALL": 2 if quick else 10}, timeout=1500)
    if crash_or_fail(ctx, rc, o, "driving pub/sub"):
        return vlib.finish(ctx, {"evaluations": 0, "distinct_nontrivial": 0, "rule": rule, "samples": ["crash"]})
    summ = json.load(open(os.path.join(out, "ps.summary.json")))
    tr = os.path.join(out, "ps.ndjson")
    accepted, failures = vlib.validate_chunks(ctx, "PubSubTrace", "PubSubTrace.cfg", tr, consts={}, name="ps")
    ctx.traces = accepted
    # the same programs (a sample of the exported ones + random ones) through the Go client API: PubSub objects of an
    # embedded and of a cluster client
    rc, o = vlib.go_test(ctx, "ps", "TestPubSubAPI", env={"VERIF_OUT": out, "VERIF_BEH": behfile, "VERIF_PSAPI_EVERY": 9 if quick else 2,
                                                           "VERIF_PSAPI_RANDOM": 10 if quick else 200}, timeout=1500)
    if crash_or_fail(ctx, rc, o, "driving pub/sub through the client API"):
        return vlib.finish(ctx, {"evaluations": 0, "distinct_nontrivial": 0, "rule": rule, "samples": ["crash"]})
    summ_api = json.load(open(os.path.join(out, "psapi.summary.json")))
    acc2, fail2 = vlib.validate_chunks(ctx, "PubSubTrace", "PubSubTrace.cfg", os.path.join(out, "psapi.ndjson"), consts={}, name="psapi")
    ctx.traces += acc2
    failures = list(failures) + list(fail2)
    summ["evaluations"] += summ_api["evaluations"]
    summ["programs"] += summ_api["programs"]
    for seq_lines, line, msg in failures:
        head = json.loads(seq_lines[0])
        evs = [json.loads(l) for l in seq_lines[1:line]]
        last = evs[-1] if evs else {}
        vlib.report_failure(ctx, "pub/sub: %s (program %s, line %d)" % (msg, head.get("seq"), line),
                            {"kind": "pubsub", "msg": msg, "event": last.get("t", "")},
                            {"reset": head, "events_up_to_failure": evs[-15:]})
    cov = {"evaluations": summ["evaluations"], "programs": summ["programs"], "programs_from_tlc": summ["from_tlc"],
           "concurrent_rounds": summ["concurrent_rounds"], "distinct_nontrivial": ps_nontrivial(tr), "rule": rule,
           "samples": summ["samples"] or [{"note": "no short sample"}], "exhaustive": False}
    return vlib.finish(ctx, cov)


@register("C16")
def c16(ctx):
    quick = ctx.tier == "quick"
    ctx.assumptions += ["the member under test runs in a child process (the test binary re-executes itself): a crash is a real process exit",
                        "watchdog 1.5 s per request; lock requests use fresh keys so that no request legitimately waits",
                        "for raw byte streams a closed connection (protocol error) or a connection waiting for the rest of a frame is admitted"]
    rule = ("for each of the 30 registered commands (lower and upper case) every prefix of its argument slots with up to %d positions replaced by every "
            "member of the slot's alphabet (numbers: empty, 0, 1, -1, 1e400, 2^63, 2^64, -2^63-1, NaN, abc, 0.01, 1.5; partition ids 0, P-1, P, P+1, 2^64-1, -1, x; "
            "option keywords in both cases, unknown, empty, binary; valid/unknown/empty/binary DMap names; keys incl. empty and 300 bytes; structured "
            "payloads: well-formed msgpack with absurd fields, e.g. a table pack claiming 2^62 bytes); seeded random vectors; raw byte streams; every vector "
            "goes over TCP to a real two-member cluster, followed by PING on the same and periodically on another connection; non-trivial = the vector has arguments"
            + "; requests on a connection that earlier requests put into subscriber mode; a seeded half of all vectors once more in shuffled order; the DMap the vectors name is replenished during the run and partition-addressed vectors go to both members") % (2 if quick else 3)
    design = [("Protocol", "Protocol.cfg", {})]
    e = {"VERIF_C16_ANOMALIES": 2 if quick else 3, "VERIF_C16_RANDOM": 3000 if quick else 60000, "VERIF_C16_RAW": 400 if quick else 5000}
    for m, c, kw in design:
        vlib.design_check(ctx, m, c, **kw)
    out = ctx.dir("drv")
    e["VERIF_OUT"] = out
    rc, o = vlib.go_test(ctx, "proto", "TestC16$", env=e, timeout=3000)
    if crash_or_fail(ctx, rc, o, "sending request vectors"):
        return vlib.finish(ctx, {"evaluations": 0, "distinct_nontrivial": 0, "rule": rule, "samples": ["crash"]})
    summ = json.load(open(os.path.join(out, "c16.summary.json")))
    accepted, failures = vlib.validate_chunks(ctx, "ProtocolTrace", "ProtocolTrace.cfg", os.path.join(out, "c16.ndjson"), consts={},
                                              name="c16", chunk_lines=10 ** 9)
    nbad = 0
    for seq_lines, line, msg in failures:
        ev = json.loads(seq_lines[line - 1])
        nbad += 1
        vlib.report_failure(ctx, "protocol robustness: %s: %s" % (msg, ev.get("args", ev.get("cmd"))),
                            {"kind": "request", "cmd": ev.get("cmd"), "outcome": ev.get("outcome")},
                            {"request": ev, "replay": "send the bytes in `args` to a member over TCP"})
    ctx.traces = summ["evaluations"] - nbad
    cov = {"evaluations": summ["evaluations"], "exhaustive_vectors": summ["exhaustive_vectors"], "random_vectors": summ["random_vectors"],
           "raw_streams": summ["raw_streams"], "outcomes": summ["outcomes"], "distinct_nontrivial": summ["distinct_nontrivial"],
           "rule": rule, "samples": summ["samples"] or [{"note": "none"}], "exhaustive": False}
    return vlib.finish(ctx, cov)


# ------------------------------------------------------------------ routing table
@register("C13")
def c13(ctx):
    quick = ctx.tier == "quick"
    ctx.assumptions += ["stabilisation (equal member lists and tables on every live member, two consecutive polls) is a precondition; a time-out waiting for it is inconclusive",
                        "abrupt stop = memberlist shut down without the leave broadcast, detected by the other members' failure detector"]
    rule = ("join/leave/write event sequences exported by TLC from Routing.tla (one per distinct model state, de-duplicated on their membership events) "
            "plus seeded random sequences over up to 6 members with graceful leaves, abrupt stops, departure of the coordinator and re-join under the same address; "
            "R in {1,2,3}, partition counts {7,13,71}; after every membership event the cluster is stabilised and every member's and a client's table, the holders of "
            "data and sample key placements are logged - after a join also at the push-only fixpoint, before any data has moved; non-trivial = at least two membership changes")
    r = vlib.design_check(ctx, "Routing", "Routing.cfg", consts={"Export": "TRUE", "MaxEvents": 3 if quick else 4, "MaxWrites": 1 if quick else 2},
                          name="routing-design", timeout=1500)
    # the table at a push-only fixpoint (data still to be moved): a former backup holder that is kept on the list only when it
    # is among the closest members (seeded change S-C03-6) leaves the coordinator's table different from everybody else's for ever
    vlib.design_expect_violation(ctx, "Routing", "Routing_closest.cfg", "PushFixpointAgreement", "seeded change S-C03-6", name="routing-closest")
    paths = set()
    for b in vlib.behaviours(r):
        evs = json.loads(b)
        if any(e["ev"] != "write" for e in evs):
            paths.add(json.dumps(evs))
    paths = sorted(paths)
    import random
    random.Random(ctx.seed).shuffle(paths)
    paths = paths[:(14 if quick else 250)]
    out = ctx.dir("drv")
    behfile = os.path.join(out, "beh.jsonl")
    open(behfile, "w").write("\n".join(paths) + "\n")
    rc, o = vlib.go_test(ctx, "rt", "TestRouting", env={"VERIF_OUT": out, "VERIF_BEH": behfile, "VERIF_RT_RANDOM": 10 if quick else 200,
                                                         "VERIF_RT_LEN": 3 if quick else 6}, timeout=3000)
    if crash_or_fail(ctx, rc, o, "applying membership sequences"):
        return vlib.finish(ctx, {"evaluations": 0, "distinct_nontrivial": 0, "rule": rule, "samples": ["crash"]})
    summ = json.load(open(os.path.join(out, "rt.summary.json")))
    accepted, failures = vlib.validate_chunks(ctx, "RoutingTrace", "RoutingTrace.cfg", os.path.join(out, "rt.ndjson"), consts={}, name="rt")
    ctx.traces = accepted
    for seq_lines, line, msg in failures:
        head = json.loads(seq_lines[0])
        evs = [json.loads(l) for l in seq_lines[1:line + 0]]
        hist = [(e.get("ev"), e.get("m")) for e in evs if e.get("t") == "event"]
        vlib.report_failure(ctx, "routing table: %s after %s [%s]" % (msg, hist, head.get("cfg")), {"kind": "routing", "msg": msg},
                            {"reset": head, "events": hist, "stable": json.loads(seq_lines[line - 1])})
    cov = {"evaluations": summ["evaluations"], "sequences": summ["sequences"], "sequences_from_tlc": summ["from_tlc"],
           "distinct_nontrivial": summ["distinct_nontrivial"], "rule": rule, "samples": summ["samples"] or ["none"], "exhaustive": False,
           "not_stabilised": summ.get("not_stabilised", 0), "notes": summ.get("notes") or []}
    if summ.get("not_stabilised", 0) > max(2, summ["sequences"] // 5):
        vlib.write_evidence(ctx, cov)
        raise Inconclusive("too many sequences did not stabilise: %s" % summ.get("notes"))
    return vlib.finish(ctx, cov)


def c10_tags(head, evs, line, msg):
    return {"msg": msg, "lru_samples_1": "LRUSamples=1" in head.get("cfg", "")}


@register("C10")
def c10(ctx):
    quick = ctx.tier == "quick"
    ctx.assumptions += ["the bound is checked for the primary fragments of the partitions a member owns, on stable membership, R = 1",
                        "an idle key that did not disappear within 8 s after its window is reported (the background sampler visits a random partition every 100 ms)",
                        "entries have equal size (8-byte keys, 40-byte values) for the MaxInuse bound"]
    rule = ("MaxKeys in {1, 3, P-1, P, 2P, 10P} x LRUSamples in {1,2,5} and MaxInuse configurations for P in {1,7}, 1-2 members; 60-120 Puts per configuration with "
            "uniform, single-partition and overwrite-heavy key patterns; after every Put its result, an immediate Get and the Length/Inuse of every primary fragment "
            "are logged; idle eviction: 12 keys kept warm by reads/writes every 100-200 ms, 12 left alone, window 400 ms; non-trivial = at least one eviction happened"
            + "; idle eviction on 1 member and on 2 members with 2 replicas, default and 512-byte tables, warm keys kept alive by reads only or by reads and writes")
    design = [("EvictionMC", "Eviction.cfg", {})]
    return det_run(ctx, "reg", "TestC10", "c10.ndjson", "c10.summary.json", "EvictionTrace", "EvictionTrace.cfg",
                   {"VERIF_ROUNDS": 1 if quick else 20}, design, rule, "eviction bounds", tags_of=c10_tags)


def c17_tags(head, evs, line, msg):
    e = evs[-1] if evs else {}
    return {"event": e.get("t", ""), "type": e.get("type", ""), "stage": e.get("stage", ""), "klen": e.get("klen", 0), "ret": e.get("ret", "")}


@register("C17")
def c17(ctx):
    quick = ctx.tier == "quick"
    ctx.assumptions += ["values are compared through a canonical rendering (bit patterns for floats, UnixNano and zone offset for times, hex for bytes)",
                        "a key of exactly 256 bytes may be accepted or rejected (the documented limit is ambiguous by one)",
                        "time zone offsets are whole minutes (what RFC 3339, the wire format of time values, can express)"]
    rule = ("boundary representatives of every supported type (min/max of every integer width, +-0, denormals, +-Inf, NaN, max float32/64, empty / binary / CR-LF / "
            "1 MiB strings and byte slices, extreme times and durations, a BinaryMarshaler) plus seeded random values, written through two embedded clients, a cluster "
            "client and a pipeline, read back into the same type through a random client: directly, after a member joined (migration) and after a member was lost; "
            "keys of 1/254/255/256/257/300 bytes and entry sizes T-2..T+2 on R in {1,2} with white-box search for truncated copies; non-trivial = every distinct value "
            "plus every size case within one byte of a limit"
            + "; every value once more in ONE pipeline (Put / GetPut alternating); entry sizes from 40 bytes under the table size to 2 over it with the number of equal copies counted white box")
    return det_run(ctx, "reg", "TestC17", "c17.ndjson", "c17.summary.json", "CodecTrace", "CodecTrace.cfg",
                   {"VERIF_C17_RANDOM": 80 if quick else 12000}, [], rule, "value and key fidelity", tags_of=c17_tags)


def c18_tags(head, evs, line, msg):
    e = evs[-1] if evs else {}
    return {"event": e.get("t", ""), "after": e.get("after", "")}


@register("C18")
def c18(ctx):
    quick = ctx.tier == "quick"
    ctx.assumptions += ["values are compared through a digest (length and FNV-1a) taken when they were handed out and again after every later step"]
    rule = ("after a read (Get or GetPut, as bytes or as string, through the embedded or the cluster client) 2-5 follow-ups drawn from: overwrite, delete, churn of other "
            "keys + compaction + table reuse (table size 600 bytes so that a table is recycled within a few writes), the caller overwriting the returned bytes, the caller "
            "reusing the buffer it passed to Put, more reads; after every step every handle and the stored value are looked at again; N in {1,2}, R in {1,2}; "
            "every sequence observes a handle after a later mutation of the store"
            + "; keys handed out by iterators are kept like values; pipelined Put/GetPut whose []byte argument the caller overwrites before Exec")
    return det_run(ctx, "reg", "TestC18", "c18.ndjson", "c18.summary.json", "SnapshotTrace", "SnapshotTrace.cfg",
                   {"VERIF_SEQUENCES": 40 if quick else 8000}, [], rule, "returned values are private snapshots", tags_of=c18_tags)


@register("C19")
def c19(ctx):
    quick = ctx.tier == "quick"
    ctx.assumptions += ["eviction is not part of the sequences (its victim is not determined by the statement); LRU on one DMap is covered by C10"]
    rule = ("operation paths exported by TLC from Isolation.tla (DMaps {ab, a} x keys {c, bc}: every distinct state within %d operations) plus seeded random sequences "
            "with Incr, GetPut, Lock/Unlock, Expire and Destroy through an embedded client, a cluster client or raw RESP; clusters N in 1..3, R in 1..2; after every "
            "operation both DMaps are read completely (every key through a random client path, a full scan, every member's primary and backup fragments); "
            "every third sequence, and every operation sequence up to length %d (all of them, exported with the log in the view, on every cluster shape), runs quietly: only through "
            "long-lived embedded handles obtained before any Destroy and observed once at its end, white box first, because reads between the operations touch every member; "
            "the counterexample of FragLife_byname.cfg forced with a gate (a Delete of a missing key parked at del.locked keeps the janitor waiting for the lock of an empty "
            "fragment while Destroy wipes it and a Put creates the next one); "
            "non-trivial = the sequence touches both DMaps") % (3 if quick else 4, 2 if quick else 3)
    r = vlib.design_check(ctx, "Isolation", "Isolation.cfg", consts={"Export": "TRUE", "MaxOps": 3 if quick else 4}, name="isolation-design")
    behs = sorted(set(vlib.behaviours(r)))
    # every operation sequence (not one per abstract state) up to a smaller length: run "quietly" on every cluster shape
    r2 = vlib.design_check(ctx, "Isolation", "Isolation.cfg", consts={"Export": "TRUE", "AllPaths": "TRUE", "MaxOps": 2 if quick else 3},
                           name="isolation-allpaths")
    allp = sorted(set(vlib.behaviours(r2)))
    # the life of a fragment slot: creation on demand, the janitor, Destroy (which does not take the fragment lock); the two
    # configurations of the code as found must violate Readable (D19: no second look after the lock; D39: map entry removed by name)
    vlib.design_check(ctx, "FragLife", "FragLife.cfg", name="fraglife")
    vlib.design_expect_violation(ctx, "FragLife", "FragLife_old.cfg", "Readable", "D19 (repaired)", name="fraglife-old")
    vlib.design_expect_violation(ctx, "FragLife", "FragLife_byname.cfg", "Readable", "D39 (repaired)", name="fraglife-byname")
    out = ctx.dir("drv")
    behfile = os.path.join(out, "beh.jsonl")
    open(behfile, "w").write("\n".join(behs) + "\n")
    allfile = os.path.join(out, "all.jsonl")
    open(allfile, "w").write("\n".join(allp) + "\n")
    return det_run(ctx, "reg", "TestC19", "c19.ndjson", "c19.summary.json", "IsolationTrace", "IsolationTrace.cfg",
                   {"VERIF_BEH": behfile, "VERIF_BEH_ALL": allfile, "VERIF_C19_RANDOM": 30 if quick else 4000, "VERIF_C19_BACKGROUND": 2 if quick else 12, "VERIF_C19_WIPERACE": 2 if quick else 12, "VERIF_C19_FIRSTCONTACT": 4 if quick else 24, "VERIF_OUT": out}, [], rule, "DMap isolation and Destroy",
                   tags_of=lambda head, evs, line, msg: {"msg": msg})


@register("C06")
def c06(ctx):
    quick = ctx.tier == "quick"
    ctx.assumptions += ["copies are planted and read back through the verif-tagged accessors (VerifPutRaw / VerifEntry)",
                        "a backup that held no copy, or a different value under the newest timestamp, is not a stale copy in the statement's sense and is left unconstrained"]
    rule = ("exhaustive: every layout of copies on {primary owner, previous owner, backup 1, backup 2} x {missing, timestamp 1,2,3} (256, ties carry different values) x "
            "read-repair off/on on a real 4-member cluster with a fragmented partition; one Get through a random client path per layout, copies read back white box; "
            "seeded sets of 2-3 fragments of two keys delivered to a real member with INTERNAL.NODE.MOVEFRAGMENT in every order with and without one re-delivery; "
            "non-trivial = at least two copies differ")
    design = [("Conflict", "Conflict.cfg", {}), ("ConflictMerge", "ConflictMerge.cfg", {"timeout": 900})]
    rc = det_run(ctx, "reg", "TestC06", "c06.ndjson", "c06.summary.json", "ConflictTrace", "ConflictTrace.cfg",
                 {"VERIF_C06_MERGES": 300 if quick else 30000}, design, rule, "newest copy wins",
                 tags_of=lambda head, evs, line, msg: {"msg": msg, "rr": (evs[-1] if evs else {}).get("rr", False)})
    return rc


# ------------------------------------------------------------------ rebalancing and durability
def ledger_tags(head, evs, line, msg):
    e = evs[-1] if evs else {}
    # what happened to the key just before
    k = e.get("k")
    last = None
    for x in evs[:-1]:
        if x.get("t") == "op" and x.get("k") == k:
            last = x
    # did the members that survived the last crash hold any copy of the key right after it?
    surv = None
    written_since = False
    for x in evs[:-1]:
        if x.get("t") == "survivors" and x.get("k") == k:
            surv, written_since = x.get("n"), False
        elif x.get("t") == "op" and x.get("k") == k and x.get("ret") == "ok":
            written_since = True
    return {"msg": msg.split(" (")[0], "phase": e.get("phase", ""), "last_op": (last or {}).get("op", ""), "last_op_phase": (last or {}).get("phase", ""),
            "all_copies_were_on_the_crashed_member": surv == 0 and not written_since,
            "a_survivor_still_stores_the_key": bool(surv) and not written_since, "live_members": e.get("live", -1),
            "rescued_from_expiry": any(x.get("note", "").startswith("overwrite of an expiring key") for x in evs if x.get("k") == k)}


def ledger_run(ctx, test, tracefile, summary, env, design, rule, what):
    for m, c, kw in design:
        vlib.design_check(ctx, m, c, **kw)
    out = ctx.dir("drv")
    e = {"VERIF_OUT": out}
    e.update(env)
    rc, o = vlib.go_test(ctx, "reb", test, env=e, timeout=3000)
    if crash_or_fail(ctx, rc, o, what):
        return vlib.finish(ctx, {"evaluations": 0, "distinct_nontrivial": 0, "rule": rule, "samples": ["crash"]})
    summ = json.load(open(os.path.join(out, summary)))
    accepted, failures = vlib.validate_chunks(ctx, "LedgerTrace", "LedgerTrace.cfg", os.path.join(out, tracefile), consts={}, name=ctx.prop.lower())
    ctx.traces = accepted
    for seq_lines, line, msg in failures:
        head = json.loads(seq_lines[0])
        evs = [json.loads(l) for l in seq_lines[1:line]]
        tags = ledger_tags(head, evs, line, msg)
        steps = [x.get("what") for x in evs if x.get("t") == "step"]
        key = (evs[-1] if evs else {}).get("k")
        hist = [x for x in evs if x.get("k") == key and x.get("t") in ("op", "forget", "copies", "read", "survivors")][-40:]
        vlib.report_failure(ctx, "%s: %s [%s; steps %s]" % (what, msg, head.get("cfg"), steps[-6:]), tags,
                            {"reset": head, "steps": steps, "key_history": hist, "failing_event": evs[-1] if evs else {},
                             "trace": [l.rstrip("\n") for l in seq_lines[:line]][-3000:]})
    cov = {"evaluations": summ["evaluations"], "scenarios": summ["scenarios"], "distinct_nontrivial": summ["distinct_nontrivial"], "rule": rule,
           "samples": summ.get("samples") or ["none"], "configs": (summ.get("configs") or [])[:40], "not_stabilised": summ.get("not_stabilised", 0),
           "notes": summ.get("notes") or [], "exhaustive": False}
    if summ.get("not_stabilised", 0) > max(2, summ["scenarios"] // 4):
        vlib.write_evidence(ctx, cov)
        raise Inconclusive("too many scenarios did not stabilise: %s" % summ.get("notes"))
    return vlib.finish(ctx, cov)


@register("C03")
def c03(ctx):
    quick = ctx.tier == "quick"
    ctx.assumptions += ["operations are issued only while every live member reports the same routing table (the statement places them between the steps of the hand-over, not inside a push)",
                        "across a leave a key stays asserted only if its newest version was on R distinct live members",
                        "the balancer and the routing push are driven by the harness (one table per fragment moves per run, as in production)"]
    rule = ("seeded scenarios: start 1-3 members, R in {1,2}, single- or multi-table fragments (table 512 B); 1-3 membership events (joins; leaves/abrupt stops for R=2 once "
            "N > R); after each event: reads from every member and Put/Delete operations through random members after the push but before any table moved, after each of two "
            "single-table balancer runs, at stabilisation (with white-box copy counts) and after it; non-trivial = an operation was issued while a partition had a previous "
            "owner holding data"
            + "; a third of the Puts carry an expiry of an hour; two joins in a row before any move; for R=2 a crash of the sender or the receiver at one of the five steps of a fragment move (gate at move.exported / move.sent / merge.locked / merge.conflict / merge.done); every fourth scenario with the members' own push and balancer timers; janitor and compaction timers in the small-table clusters")
    design = [("Rebalance", "Rebalance_quick.cfg" if quick else "Rebalance_thorough.cfg", {"timeout": 2400}),
              ("RoleSwap", "RoleSwap_ordered.cfg", {}), ("EvictRace", "EvictRace_cond.cfg", {}), ("ReadMove", "ReadMove_prevfirst.cfg", {}), ("DeleteMove", "DeleteMove_prevfirst.cfg", {})]
    # two old members swapping roles: the balancer's two independent moves leave both copies on one member for a while (D26)
    vlib.design_expect_violation(ctx, "RoleSwap", "RoleSwap.cfg", "Survives", "D26", name="RoleSwap-as-is")
    # eviction on a previous owner deletes the backup copy whatever version it holds (D32, open); deleting locally only leaves
    # expired copies behind (the repair that was withdrawn); a delete that names the expired version does neither
    # a Get that overlaps a table move: this node first, then the previous owner (as found, D37 repaired) misses the key
    vlib.design_expect_violation(ctx, "ReadMove", "ReadMove.cfg", "Found", "D37 (the lookup order before the repair)", name="ReadMove-local-first")
    # a Delete on the new owner that overlaps a table move: fragment lock first, previous owner second (as found, D38 repaired)
    vlib.design_expect_violation(ctx, "DeleteMove", "DeleteMove.cfg", "Gone", "D38 (the lock order before the repair)", name="DeleteMove-lock-first")
    vlib.design_expect_violation(ctx, "EvictRace", "EvictRace.cfg", "BackupKept", "D32", name="EvictRace-as-is")
    vlib.design_expect_violation(ctx, "EvictRace", "EvictRace_local.cfg", "NoLeftover", "D32 (withdrawn repair)", name="EvictRace-local")
    return ledger_run(ctx, "TestC03", "c03.ndjson", "c03.summary.json", {"VERIF_SCENARIOS": 12 if quick else 300}, design, rule, "rebalancing")


@register("C02")
def c02(ctx):
    quick = ctx.tier == "quick"
    ctx.assumptions += ["every asserted key is written after the cluster reached its final size; before each stop a key stays asserted only if its newest version is on R distinct live members",
                        "keys operated on while a member is stopping are not asserted (they were not acknowledged in a healthy cluster); all other keys must be unaffected",
                        "abrupt stop = memberlist shut down without the leave broadcast followed by shutdown, inside the test process",
                        "re-stabilisation is a precondition; a time-out waiting for it is inconclusive"]
    rule = ("seeded scenarios: N in R..R+2 (3..5), R in {2,3}, read-repair on/off, 13 partitions; 90 Put/Delete operations on 30 keys through random members in the healthy "
            "cluster; then 1..R-1 members stop one after the other (random member or the coordinator, graceful or abrupt, at a quiescent point or while a workload runs on "
            "other keys); after each re-stabilisation every key is read from every survivor; then 40 more operations and reads; non-trivial = a stopped member held a copy "
            "of an asserted key")
    design = [("Rebalance", "Rebalance_quick.cfg" if quick else "Rebalance_thorough.cfg", {"timeout": 2400}),
              ("Failover", "Failover_promote.cfg", {})]
    # the copies of a partition across failures: the balancer's rules as they are lose (or hide) the last copy with N = R members and
    # R-1 failures (D27); so does, even with the repair that was tried, a failure inside the hand-over window (the failover twin of D26)
    vlib.design_expect_violation(ctx, "Failover", "Failover.cfg", "Readable", "D27", name="Failover-as-is")
    vlib.design_expect_violation(ctx, "Failover", "Failover_window.cfg", "Readable", "D26 (its twin after a failover)", name="Failover-window")
    return ledger_run(ctx, "TestC02", "c02.ndjson", "c02.summary.json", {"VERIF_SCENARIOS": 12 if quick else 250}, design, rule, "durability")
