#!/bin/bash
# usage: tools/coverage.sh [checks...]   - runs the quick tier of the checks with statement coverage of olric's packages
# and prints, per olric function, the merged coverage (lowest first).  A map of what the drivers never reach; not a check.
set -u
out=$(mktemp -d /tmp/verif-cover-XXXX)
cd /verif
for c in ${@:-C01 C02 C03 C04 C05 C06 C07 C08 C09 C10 C11 C12 C13 C14 C15 C16 C17 C18 C19 C20}; do
  VERIF_COVER=$out ./check $c --tier quick >/dev/null 2>&1; echo "$c rc=$?" >&2
done
python3 - "$out" <<'PY'
import sys,glob,collections
blocks=collections.defaultdict(int)
for f in glob.glob(sys.argv[1]+'/*.out'):
    for l in open(f):
        if l.startswith('mode:'): continue
        k,n,c=l.rsplit(' ',2)
        blocks[(k,int(n))]=max(blocks[(k,int(n))],int(c))
with open(sys.argv[1]+'/merged.out','w') as w:
    w.write('mode: set\n')
    for (k,n),c in sorted(blocks.items()):
        w.write('%s %d %d\n'%(k,n,1 if c else 0))
print(sys.argv[1]+'/merged.out')
PY
echo "merged profile: $out/merged.out  (cd /repo && go tool cover -func=$out/merged.out)"
