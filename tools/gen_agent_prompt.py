#!/usr/bin/env python3
"""usage: gen_agent_prompt.py <Cxx> [<worktree>]  - prints the complete task of an independent seeding agent: the property
text, its scratch worktree, the conditions of the earlier seeded changes for that property (one line each, so that the agent
produces something different) - nothing else from /verif."""
import json, sys, glob
pid = sys.argv[1]
wt = sys.argv[2] if len(sys.argv) > 2 else "/tmp/wt/" + pid
p = {json.loads(l)["id"]: json.loads(l) for l in open("/verif/properties.jsonl")}[pid]
earlier = [" - " + json.load(open(f))["needs"] for f in sorted(glob.glob("/verif/seeded/S-%s-*/meta.json" % pid))]
print(f"""You are helping to evaluate a verification effort for the Go project buraksezer/olric (module github.com/olric-data/olric,
a distributed in-memory key/value store).  Your job is to play the part of a developer who, with a plausible-looking change,
breaks ONE semantic property of olric without noticing - because the code still compiles and the existing tests still pass.

Your own scratch git worktree of the repository is {wt} (already created; detached HEAD).  Work ONLY inside that directory.
Never read or write /repo or /verif (they are off limits: what you produce must be independent of the verification machinery
there), and do not look at other directories under /tmp/wt.  There is no network.  In every shell call:
  export GOFLAGS=-mod=mod GOPROXY=off GOSUMDB=off GOTOOLCHAIN=local

The property you must break:
---
{pid}: {p['title']}

{p['statement'].strip()}

Quantifier: {p['quantifier']['text'].strip()}
---

What I need from you:

1. A change to the NON-test source of olric (any package; typically 1-30 lines; it should read like a refactoring, an
   optimisation, a "simplification" or a well-meant fix that a reviewer might wave through) that makes the property FALSE.
   Do not touch *_test.go files, and do not touch files guarded by the build tag `verif` or the package internal/verifhook
   (leave every `verifhook.At(...)` line in place; you may move code around them).
2. The change must need something SPECIFIC to manifest: a particular interleaving, a crash or fault at a particular point, a
   multi-step sequence of operations, an unusual input or configuration, or two cooperating sites that each look fine alone.
   NOT something that ordinary use (a Put followed by a Get on a one-member cluster) would expose at once.
3. It must still compile (`go build ./... && go vet ./... 2>/dev/null; go test -count=1 -run '^$' ./...`) and the existing
   test-suite must still pass: run `go test -vet=off -count=1 -timeout 25m ./...` in the worktree WITH your change applied and
   make sure every package is `ok` (the suite takes about two minutes; a test that also fails without your change on a busy
   machine - re-run that package alone to tell - does not count against you).
4. A demonstration: a new test file `zz_demo_test.go` in the most convenient package (it may use the package's own test
   helpers, e.g. testcluster / testutil, and internal APIs) with ONE test function `TestZZDemo` that FAILS with your change and
   PASSES without it (check both: save `git diff > patch.diff`, then `git apply -R patch.diff` / `git apply patch.diff`; NEVER use
   `git stash` - the stash is shared between all worktrees of the repository and other people are working in theirs), deterministically or at least
   in 9 of 10 runs.  Keep it under about a minute.
5. The earlier changes made for this property manifest under these conditions - produce something DIFFERENT (a different
   mechanism at a different place, not a variation of one of these):
{chr(10).join(earlier) if earlier else ' - (none so far)'}

When you are done leave in the worktree root:
  - `patch.diff`   = `git diff` of the non-test source change ONLY (not the demo test, not these files)
  - a copy of the demo test in the worktree root named `zz_demo_test.go.txt` (NOT .go: a second package there breaks the build), and a line in notes.md saying in which package directory it belongs
  - `notes.md`     = what the change is, why it looks harmless, exactly what it needs in order to manifest, which commands you
                     ran and what they printed (suite with the change: ok?, demo with: FAIL?, demo without: PASS?)
Leave the worktree with the change APPLIED and the demo test in its package.  If you notice, while reading, behaviour of the
UNCHANGED code that already contradicts the property, add a short section "Side notes" to notes.md (with how to reproduce).
Your final message: the three file paths and a five-line summary.""")
