#!/usr/bin/env python3
"""Writes /tmp/agent_prompt_<Cxx>.txt: the complete task of an independent seeding agent (property text, scratch
worktree, the conditions of the earlier seeded changes for that property - nothing else from /verif)."""
import json, sys, glob, os, re
pid = sys.argv[1]
props = {json.loads(l)["id"]: json.loads(l) for l in open("/verif/properties.jsonl")}
p = props[pid]
tmpl = open("/tmp/agent_prompt_C16.txt").read()
# the C16 prompt is the template: replace the property block and the list of earlier changes
head, rest = tmpl.split("---\n", 1)
_, tail = rest.split("---\n", 1)
block = "%s: %s\n\n%s\n\nQuantifier: %s\n" % (pid, p["title"], p["statement"].strip(), p["quantifier"]["text"].strip())
out = head + "---\n" + block + "---\n" + tail
out = out.replace("/tmp/wt/C16", "/tmp/wt/" + pid)
earlier = []
for f in sorted(glob.glob("/verif/seeded/S-%s-*/meta.json" % pid)):
    earlier.append(" - " + json.load(open(f))["needs"])
out = re.sub(r"(manifest under these conditions:\n)( - .*\n)+", lambda m: m.group(1) + "\n".join(earlier) + "\n", out)
open("/tmp/agent_prompt_%s.txt" % pid, "w").write(out)
print(pid, len(earlier), "earlier changes listed")
