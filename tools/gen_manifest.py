#!/usr/bin/env python3
"""Writes /verif/MANIFEST.json from the table below (one source of truth, always schema-valid)."""
import json, os, sys
sys.path.insert(0, os.path.dirname(os.path.abspath(__file__)))
V = os.path.dirname(os.path.dirname(os.path.abspath(__file__)))

MC = "model_checking"
TRUST = ("TLC and the TLA+ semantics of the specification; the Go driver's recording (harness/), whose events are "
         "taken from the public/engine API results and the verif-tagged accessors; bounded constants as stated in the evidence")

CHECKS = {
 "C11": dict(
    text="KVStore.tla (tables, compaction, transfer, scan cursors) is model-checked against the abstract map within small bounds; "
         "every distinct model state's operation path plus seeded random/churn programs are executed on the real internal/kvstore and the "
         "complete read-back after every call is validated by TLC against KVStoreAbs (KVStoreTrace.tla).",
    ref="DESIGN.md 5.1, 8 (C11)",
    technique="TLC model checking of KVStore.tla + spec->code replay of TLC-exported paths + TLC trace validation against KVStoreAbs"),
 "C20": dict(
    text="Accounting, BoundedAfterCompaction and CompactionProgress are invariants/action properties of KVStore.tla checked by TLC; "
         "churn programs on the real store log Stats after compaction rounds and TLC validates inuse = live bytes, allocated = tables x size and the bound.",
    ref="DESIGN.md 5.1, 8 (C20)",
    technique="TLC model checking of KVStore.tla + TLC trace validation of Stats from real churn runs"),
}

CHECKS["C01"] = dict(
    text="DMapKey.tla (owner + backups, fragment lock, step-by-step put/get/delete) is model-checked for linearizability of every interleaving of "
         "small client programs; concurrent histories recorded from real clusters (all entry paths, R in 1..3, single/multi-table fragments) are "
         "accepted by TLC iff some placement of internal linearization steps explains every reply by Register.tla's Apply (RegisterTrace.tla).",
    ref="DESIGN.md 5.2, 5.3, 8 (C01)",
    technique="TLC model checking of DMapKey.tla + TLC trace validation (linearizability search) of real concurrent histories against Register.tla")

REG_NOTE = TRUST + "; time is the process clock in whole milliseconds (all members and clients live in one process)"
CHECKS["C07"] = dict(
    text="Concurrent Incr/Decr/IncrByFloat/GetPut histories from callers spread over every entry path are accepted by TLC iff they are linearizable "
         "with respect to Register.tla's counter / swap semantics (no lost update, GetPut results form one chain, final Get = sum; a key that sees integer and fractional "
         "operations: an integer operation on a number with a fraction is refused and changes nothing).",
    ref="DESIGN.md 5.2, 8 (C07)", note=REG_NOTE,
    technique="TLC trace validation (linearizability search) of real concurrent histories against Register.tla")
CHECKS["C08"] = dict(
    text="Lock/Unlock/Lease are operations of Register.tla (token = value, timeout = deadline interval); histories of competing lockers with timeouts, "
         "leases, stale and forged tokens on every entry path are accepted by TLC iff some linearization explains every grant, refusal and its timing.",
    ref="DESIGN.md 5.2, 8 (C08)", note=REG_NOTE,
    technique="TLC trace validation of real lock histories against the time-aware Register.tla (interval arithmetic on deadlines)")
CHECKS["C09"] = dict(
    text="Expiry is part of Register.tla: a deadline is an interval derived from the invocation/response times; micro-scenarios place operations just "
         "before and after the deadline for every way of setting a ttl and every entry path; TLC accepts a history iff every reply (and every reported ttl) "
         "is consistent with some instant inside each operation's interval.",
    ref="DESIGN.md 5.2, 8 (C09)", note=REG_NOTE,
    technique="TLC trace validation of real timed histories against the time-aware Register.tla")
CHECKS["C15"] = dict(
    text="Every operation x option combination x initial state is executed through every client path (embedded on each member, raw RESP to each member, "
         "cluster client, pipeline) on a key of its own; TLC validates each path's replies and follow-up reads against Register.tla, so every path is shown "
         "to mean what the specification says - and therefore the same thing.",
    ref="DESIGN.md 5.2, 8 (C15)", note=REG_NOTE,
    technique="exhaustive case enumeration + TLC trace validation of every case against Register.tla")

CHECKS["C04"] = dict(
    text="DMapKey.tla's MirrorAtQuiescence is model-checked; on real clusters every reply of random sequences of mutating operations (all kinds, all entry "
         "paths, R in {2,3}) is followed by a white-box dump of the key's copy in every member's primary and backup fragment, and TLC (ReplicaTrace.tla) "
         "checks that backup copies equal the primary in value, expiry and timestamp, that no other fragment holds the key, and that presence matches the reply.",
    ref="DESIGN.md 5.3, 8 (C04)",
    technique="TLC model checking of DMapKey.tla + TLC trace validation of white-box copy dumps (ReplicaTrace.tla)")
CHECKS["C05"] = dict(
    text="Quorum.tla states the abstract quorum rules and the code's counting algorithm; TLC enumerates every (R,W,RQ), unreachable set and copy placement. "
         "On real clusters every configuration is probed (Get/Put through three paths, unreachable backups, shaped copy sets, member-count quorum while members "
         "leave) and TLC (QuorumTrace.tla) judges each reply against the white-box number of copies using the same abstract rules.",
    ref="DESIGN.md 8 (C05)",
    technique="exhaustive TLC enumeration of Quorum.tla + TLC trace validation of quorum probes (QuorumTrace.tla)")

CHECKS["C14"] = dict(
    text="PubSub.tla is the abstract subscription set with written-out glob matching; TLC explores every subscription state within the bound and exports "
         "one operation path per state plus every short path; the Go driver replays them on a real two-member cluster over raw RESP connections, probes "
         "with PUBLISH through both members and the PUBSUB introspection commands, reads every connection up to a PING barrier, and TLC (PubSubTrace.tla) "
         "checks counts, exact deliveries, duplicates, introspection and per-publisher order under concurrent publishers.  PubSubImpl.tla models one member's service at the "
         "grain of its reader/writer lock (writes under the read lock; writing after the lock was released must violate NoMessageAfterAck); that counterexample's schedule - "
         "an UNSUBSCRIBE while a publication is under way - is forced on a real member by a subscriber that stops reading.",
    ref="DESIGN.md 5.5, 8 (C14)",
    technique="TLC model checking of PubSub.tla + replay of TLC-exported paths on the real cluster + TLC trace validation (PubSubTrace.tla)")

CHECKS["C16"] = dict(
    text="Protocol.tla is the abstract serving machine (every request is answered, the member stays alive) with the minimum arity of every registered command; "
         "the driver enumerates argument vectors over a token alphabet for every command, seeded random vectors and raw byte streams, sends each over TCP to a real "
         "two-member cluster in a child process followed by PING, and TLC (ProtocolTrace.tla) accepts the trace only if every step is a reply step, malformed vectors "
         "got error replies and the member kept serving.",
    ref="DESIGN.md 5.5, 8 (C16), 9",
    note=TRUST + "; TLA+ contributes the acceptance condition and the arity grammar, the byte-level inputs come from the Go driver (DESIGN.md section 9)",
    technique="bounded exhaustive + random input enumeration against a real member process, outcomes validated by TLC against Protocol.tla")

CHECKS["C12"] = dict(
    text="Three layers: (1) KVStore.tla's ScanComplete is model-checked and every exported table layout is scanned on the real engine for several page sizes and a "
         "pattern; (2) Iterator.tla models the client iterator (working copy of owners, cursors, de-duplication, periodic routing-table refresh, Go slice aliasing) and TLC "
         "checks ExactlyOnce/termination; every initial state x refresh position is exported and rebuilt on a real cluster whose partitions have a previous owner, and "
         "iterated; (3) complete iterations (both client iterators, raw DM.SCAN walks of every fragment) on real clusters after inserts, churn, compaction and during "
         "hand-over; TLC (ScanTrace.tla) compares yielded and present keys; (4) iterations whose pages alternate with compaction, writes and deletes - cursor walks on the real "
         "engine inside the programs (KVStoreTrace WBegin/WEnd) and client iterators / DM.SCAN walks on real clusters (ScanTrace BusyScan): every key present all the time is yielded.",
    ref="DESIGN.md 5.1, 5.5, 8 (C12)",
    technique="TLC model checking of KVStore.tla and Iterator.tla + replay of TLC-exported layouts/scenarios on real code + TLC trace validation")

CHECKS["C13"] = dict(
    text="Routing.tla transcribes distributePrimaryCopies/distributeBackups, the push, left-over-data reports and fragment moves; TLC checks ValidTable in every "
         "stable state and exports the membership/write events that lead to each distinct state. The Go driver applies these and seeded random join/leave/crash/re-join "
         "sequences to real clusters, stabilises, and logs every member's and a client's table, data holders, coordinator and key placements; TLC (RoutingTrace.tla) "
         "evaluates agreement, validity, the data-holding rule for extra owners, the load bound, the coordinator rule and key placement.",
    ref="DESIGN.md 5.4, 8 (C13)",
    technique="TLC model checking of Routing.tla + replay of TLC-exported membership sequences on real clusters + TLC trace validation (RoutingTrace.tla)")

CHECKS["C10"] = dict(
    text="Eviction.tla models a member's fragments with their share of MaxKeys and sampled LRU; TLC checks the bound, that Put never fails and that the key just written is "
         "present for every put/touch sequence within the bound. On real clusters every MaxKeys/MaxInuse/LRUSamples/partition-count combination is driven with three key "
         "patterns; every Put logs its result, an immediate Get and all fragment sizes; idle-window probes and the disappearance of untouched keys are logged; TLC "
         "(EvictionTrace.tla) evaluates the bounds and the idle rule.",
    ref="DESIGN.md 5.5, 8 (C10)",
    technique="TLC model checking of Eviction.tla + TLC trace validation of white-box fragment statistics (EvictionTrace.tla)")

CHECKS["C17"] = dict(
    text="CodecTrace.tla holds the size-class machine (key-too-large / entry-too-large / stored) and equality of canonical renderings; the driver writes boundary and "
         "random values of every supported type through four client paths and reads them back into the same type directly, after migration and after the loss of a member, "
         "and probes key lengths and entry sizes around the limits with a white-box search for truncated copies.",
    ref="DESIGN.md 8 (C17), 9",
    note=TRUST + "; TLA+ judges opaque renderings and the size classes only - the concrete values are the driver's (DESIGN.md section 9)",
    technique="boundary/random value enumeration on real clusters, TLC trace validation of renderings and size classes (CodecTrace.tla)")
CHECKS["C18"] = dict(
    text="SnapshotTrace.tla keeps the abstract map and the caller's handles: only the caller's own mutation changes a handle and no caller mutation changes the map. The "
         "driver keeps every value handed out (bytes and strings, Get and GetPut, embedded and cluster client), applies overwrites, deletes, churn with compaction and table "
         "reuse, caller-side mutations of returned values and of Put buffers, and re-observes every handle and the stored value after each step.",
    ref="DESIGN.md 8 (C18)",
    technique="TLC trace validation of handle observations against SnapshotTrace.tla")

CHECKS["C19"] = dict(
    text="Isolation.tla: per-DMap abstract maps over two DMaps whose name+key concatenations collide; TLC checks that an operation changes only the DMap it names and exports "
         "one operation path per distinct state. The driver replays them and random sequences (Incr, GetPut, Lock, Expire, Destroy through three client kinds) on clusters "
         "N in 1..3, R in 1..2 and after every operation reads both DMaps completely: every key, a full scan, every member's primary and backup fragments (white box).  "
         "FragLife.tla models the life of a fragment slot (creation on demand, the janitor, Destroy without the fragment lock); its counterexample for the code as found "
         "(map entry removed by name) is forced on a real member with a gate: a Put acknowledged after a completed Destroy must stay readable.",
    ref="DESIGN.md 5.5, 8 (C19)",
    technique="TLC model checking of Isolation.tla + replay of TLC-exported paths + TLC trace validation of complete read-backs (IsolationTrace.tla)")

CHECKS["C06"] = dict(
    text="Conflict.tla states newest-wins for reads, read-repair targets and merges; TLC enumerates all 256 copy layouts and all delivery orders (with re-delivery) of up to three "
         "fragments against the code-shaped algorithms. On a real 4-member cluster with a fragmented partition every layout is planted white box, read through a random client "
         "path with read-repair off and on, and read back; fragments are delivered to a real member in every order; TLC (ConflictTrace.tla) judges with the same abstract rules.",
    ref="DESIGN.md 5.4, 8 (C06)",
    technique="exhaustive TLC enumeration of Conflict.tla / ConflictMerge.tla + exhaustive replay on a real cluster + TLC trace validation")

LEDGER_NOTE = TRUST + "; membership steps (push, balancer runs, stops) are driven by the harness; failure detection uses memberlist with probe interval 250 ms"
CHECKS["C03"] = dict(
    text="Rebalance.tla (keys, tables, stale views, table-by-table moves, deletes) is model-checked for AgreesWithLedger / ReadFindsFragmented / NoDuplicatePrimary. On real "
         "clusters joins (and leaves for R=2) are applied with Put/Delete operations and reads from every member placed after the push but before any move, between single-table "
         "balancer runs, at stabilisation (with white-box copy counts) and after; TLC (LedgerTrace.tla) checks every read against the ledger of acknowledged operations and the "
         "copy-count rules.",
    ref="DESIGN.md 5.4, 8 (C03), appendix F", note=LEDGER_NOTE,
    technique="TLC model checking of Rebalance.tla + TLC trace validation of ledger traces from harness-driven hand-overs (LedgerTrace.tla)")
CHECKS["C02"] = dict(
    text="Same ledger specification: after a healthy phase 1..R-1 members are stopped (random member or coordinator, graceful or abrupt, quiescent or under a workload on other keys); "
         "after each re-stabilisation every asserted key is read from every survivor, then plain operations continue; TLC (LedgerTrace.tla) rejects any read outside the set of "
         "admissible values (lost write, rolled-back value, resurrected delete). Design level: Rebalance.tla with leaves.",
    ref="DESIGN.md 5.4, 8 (C02)", note=LEDGER_NOTE,
    technique="TLC model checking of Rebalance.tla (with leaves) + TLC trace validation of ledger traces from fault-injection runs (LedgerTrace.tla)")

NOT_YET = {}

def main():
    props = [json.loads(l) for l in open(os.path.join(V, "properties.jsonl"))]
    checks, na = [], []
    for p in props:
        pid = p["id"]
        if pid in CHECKS:
            c = CHECKS[pid]
            checks.append({
                "property_id": pid,
                "quick_cmd": "./check %s --tier quick" % pid,
                "thorough_cmd": "./check %s --tier thorough" % pid,
                "evidence_file": "/verif/evidence/%s.json" % pid,
                "replay_cmd_template": "./check %s --replay {path}" % pid,
                "engine": "tlc",
                "level_claimed": {"category": MC, "text": c["text"], "design_ref": c["ref"]},
                "level_note": c.get("note", TRUST),
                "technique": c["technique"],
            })
        else:
            na.append({"property_id": pid, "reason": NOT_YET.get(pid, "check not built yet in this round; planned per DESIGN.md section 8 (same TLA+ technique), not claimed until it runs")})
    m = {
        "version": 1,
        "setup_cmd": "./tools/setup.sh",
        "hooks": {
            "guard": "verif",
            "enable": "go test -tags verif (the harness module replaces github.com/olric-data/olric with /repo)",
            "baseline_off_cmd": "cd /repo && GOFLAGS=-mod=mod go test -vet=off -count=1 -timeout 25m ./...",
            "source_commits": json.load(open(os.path.join(V, "tools", "hook_commits.json"))) if os.path.exists(os.path.join(V, "tools", "hook_commits.json")) else [],
            "add_only": True,
        },
        "engines": [{"name": "tlc", "path": "/verif/check", "serves_properties": [c["property_id"] for c in checks],
                     "kind_free_text": "explicit TLA+ specifications (spec/) checked with TLC; Go drivers (harness/) replay TLC-generated behaviours on the real code and record traces that TLC validates"}],
        "checks": checks,
        "not_applicable": na,
        "notes": "See DESIGN.md. known_findings.json lists repaired (fix: commits) and open findings.",
    }
    json.dump(m, open(os.path.join(V, "MANIFEST.json"), "w"), indent=1)
    try:
        import jsonschema
        jsonschema.validate(m, json.load(open("/root/.vp/MANIFEST.schema.json")))
    except ImportError:
        pass
    print("MANIFEST.json: %d checks, %d not claimed" % (len(checks), len(na)))

main()
