#!/usr/bin/env python3
"""Rewrites the table of seeded changes in DESIGN.md (between the markers) from seeded/*/meta.json."""
import json, os, re
root = os.path.dirname(os.path.dirname(os.path.abspath(__file__)))
rows, n, nm, nund = [], 0, 0, 0
for d in sorted(os.listdir(os.path.join(root, "seeded"))):
    m = json.load(open(os.path.join(root, "seeded", d, "meta.json")))
    n += 1
    cut = lambda s, k: (s[:k - 3] + "...") if len(s) > k else s
    needs = cut(m["needs"].replace("|", "/"), 240)
    caught = "; ".join(m["caught_by"]).replace("|", "/") or "**not detected** (see last column)"
    missed = "; ".join(m.get("missed_initially") or []).replace("|", "/")
    if missed:
        nm += 1
    if not m["caught_by"]:
        nund += 1
    rows.append("| %s | %s | %s | %s |" % (d, needs, cut(caught, 300), cut(missed, 420) or "caught"))
table = "| id | what it needs | caught by | first attempt |\n|---|---|---|---|\n" + "\n".join(rows) + "\n"
p = os.path.join(root, "DESIGN.md")
s = open(p).read()
a, b = s.index("<!-- seeded-table-begin -->"), s.index("<!-- seeded-table-end -->")
s = s[:a] + "<!-- seeded-table-begin -->\n" + ("%d changes; %d were missed by the targeted check at first; %d cannot be told apart from a known finding and stay undetected.\n\n" % (n, nm, nund)) + table + s[b:]
open(p, "w").write(s)
print(n, nm, nund)
