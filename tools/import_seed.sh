#!/bin/bash
# usage: tools/import_seed.sh <Cxx> [<worktree>]  - takes an agent's result (patch.diff, zz_demo_test.go, notes.md in the worktree
# root, the demo test also in its package) into seeded/S-<Cxx>-<n>/, and confirms in that scratch worktree: the patch is the
# only source change, it builds, the demonstration fails with it and passes without it.  Prints the new id.
set -u
export GOFLAGS=-mod=mod GOPROXY=off GOSUMDB=off GOTOOLCHAIN=local
p=$1; wt=${2:-/tmp/wt/$p}
n=$(( $(ls -d /verif/seeded/S-$p-* 2>/dev/null | wc -l) + 1 )); id=S-$p-$n; d=/verif/seeded/$id
demo=$(cd $wt && find . -name zz_demo_test.go -not -path ./zz_demo_test.go | head -1)
rootpkg=0
if [ -z "$demo" ] && grep -q '^package olric' $wt/zz_demo_test.go 2>/dev/null; then demo=./zz_demo_test.go; rootpkg=1; fi
[ -z "$demo" ] && { echo "no demo test in a package"; exit 2; }
pkg=$(dirname $demo)
cd $wt || exit 2
[ $rootpkg = 0 ] && [ -f zz_demo_test.go ] && mv zz_demo_test.go zz_demo_test.go.txt
git diff > /tmp/wt/$p.cur.diff
if ! diff -q <(grep -v '^index ' /tmp/wt/$p.cur.diff) <(grep -v '^index ' patch.diff) >/dev/null; then echo "WARNING: applied change differs from patch.diff"; fi
go build ./... || { echo "build fails"; exit 2; }
with=$(go test -vet=off -count=1 -run 'TestZZDemo$' -timeout 300s $pkg 2>&1 | grep -E '^(ok|FAIL|---|panic)' | tr '\n' ' ')
git apply -R patch.diff || { echo "cannot revert"; exit 2; }
without=$(go test -vet=off -count=1 -run 'TestZZDemo$' -timeout 300s $pkg 2>&1 | grep -E '^(ok|FAIL|---|panic)' | tr '\n' ' ')
git apply patch.diff
echo "$id demo-with: $with"
echo "$id demo-without: $without"
mkdir -p $d && cp patch.diff notes.md $d/ && cp $demo $d/zz_demo_test.go && echo "$pkg" > $d/demo_pkg.txt
if git -C /repo apply --check $d/patch.diff 2>/dev/null; then echo "$id applies to /repo HEAD"; else echo "$id DOES NOT apply to /repo HEAD"; fi
