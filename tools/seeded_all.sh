#!/bin/bash
# usage: tools/seeded_all.sh [seed-id...]  - every seeded change (or the named ones) against the check(s) named first in its
# meta.json "caught_by", in a scratch worktree of /repo and from a snapshot of /verif taken at the start (so /repo, the
# evidence files and the harness can be worked on meanwhile).
set -u
W=$(mktemp -d /tmp/seeded-repo-XXXX)
git -C /repo worktree add -q --detach $W/repo HEAD || exit 2
trap 'git -C /repo worktree remove --force $W/repo; rm -rf $W' EXIT
rsync -a --exclude .git --exclude evidence/replays /verif/ $W/verif/
cd $W/verif
ids=${@:-$(ls seeded)}
for id in $ids; do
  checks=$(python3 - "$id" <<'PY'
import json,sys,re
m=json.load(open('/verif/seeded/%s/meta.json'%sys.argv[1]))
cs=[]
for c in m['caught_by'] or [m['property']]:
    k=re.match(r'(C\d\d)',c)
    if k and k.group(1) not in cs: cs.append(k.group(1))
print(' '.join(cs[:2]))
PY
)
  git -C $W/repo checkout -q -- . 2>/dev/null
  if ! git -C $W/repo apply /verif/seeded/$id/patch.diff 2>/dev/null; then echo "$id: patch does not apply"; continue; fi
  for chk in $checks; do
    out=$(VERIF_REPO=$W/repo VERIF_SEED=${VERIF_SEED:-1} ./check $chk --tier quick 2>&1); rc=$?
    echo "$id $chk rc=$rc violations=$(echo "$out" | grep -c '^VIOLATION')"
  done
done
