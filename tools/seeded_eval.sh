#!/bin/bash
# usage: seeded_eval.sh <seed-id> <check-id>...   : applies /verif/seeded/<seed-id>/patch.diff to /repo, runs the checks
# (quick tier), reverts the patch.  Prints, per check, whether a VIOLATION was reported.
set -u
id=$1; shift
cd /repo || exit 2
if ! git diff --quiet; then echo "/repo is dirty"; exit 2; fi
if ! git apply --check /verif/seeded/$id/patch.diff 2>/dev/null; then echo "patch does not apply to current /repo"; exit 3; fi
git apply /verif/seeded/$id/patch.diff
trap 'git -C /repo checkout -- . ' EXIT
for chk in "$@"; do
  out=$(cd /verif && VERIF_SEED=${VERIF_SEED:-1} ./check $chk --tier ${TIER:-quick} 2>&1); rc=$?
  nv=$(echo "$out" | grep -c '^VIOLATION')
  echo "seed=$id check=$chk rc=$rc violations=$nv"
  echo "$out" | grep -A1 '^VIOLATION' | head -4
done
