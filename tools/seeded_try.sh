#!/bin/bash
# usage: tools/seeded_try.sh <seed-id> <check-id>...   - like seeded_eval.sh, but in a scratch worktree of /repo's HEAD and
# from a snapshot of /verif (neither /repo nor /verif/evidence is touched; several can run side by side).  TIER=quick|thorough.
set -u
id=$1; shift
W=$(mktemp -d /tmp/seedtry-XXXX)
git -C /repo worktree add -q --detach $W/repo HEAD || exit 2
trap 'git -C /repo worktree remove --force $W/repo; rm -rf $W' EXIT
rsync -a --exclude .git --exclude evidence/replays /verif/ $W/verif/
if ! git -C $W/repo apply /verif/seeded/$id/patch.diff 2>/dev/null; then echo "$id: patch does not apply"; exit 3; fi
cd $W/verif
for chk in "$@"; do
  out=$(VERIF_REPO=$W/repo VERIF_SEED=${VERIF_SEED:-1} ./check $chk --tier ${TIER:-quick} 2>&1); rc=$?
  echo "seed=$id check=$chk rc=$rc violations=$(echo "$out" | grep -c '^VIOLATION')"
  echo "$out" | grep -A1 '^VIOLATION' | head -4
  [ $rc -eq 2 ] && echo "$out" | tail -5
done
