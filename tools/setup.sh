#!/bin/sh
# Run once after a fresh restore: warms the Go build cache for the harness and parses the specs.
# Nothing it produces is needed for correctness.
set -e
cd "$(dirname "$0")/.."
export GOFLAGS=-mod=mod GOPROXY=off GOSUMDB=off GOTOOLCHAIN=local CGO_ENABLED=0
T=$(mktemp -d)
trap 'rm -rf "$T"' EXIT
cp -r harness "$T/harness"
cp /repo/go.sum "$T/harness/go.sum"
(cd "$T/harness" && go vet -tags verif ./... >/dev/null 2>&1 || go test -tags verif -count=1 -run '^$' ./... >/dev/null)
echo "setup ok"
