"""Shared machinery of ./check: scratch space, harness build/run, TLC runs, behaviour export,
trace validation, known findings, evidence.

Exit codes of a check: 0 property held on everything explored; 1 violation (VIOLATION line);
2 the check could not do its job (never a violation)."""
import json, os, re, shutil, subprocess, sys, tempfile, time, hashlib

VERIF = os.path.dirname(os.path.dirname(os.path.abspath(__file__)))
SPEC = os.path.join(VERIF, "spec")
HARNESS = os.path.join(VERIF, "harness")
EVID = os.path.join(VERIF, "evidence")
REPLAYS = os.path.join(EVID, "replays")
REPO = os.environ.get("VERIF_REPO", "/repo")
TLA_JAR = "/opt/veriftools/tla/tla2tools.jar:/opt/veriftools/tla/CommunityModules-deps.jar"
NCPU = min(16, os.cpu_count() or 4)

GOENV = {"GOFLAGS": "-mod=mod", "GOPROXY": "off", "GOSUMDB": "off", "GOTOOLCHAIN": "local",
         "CGO_ENABLED": "0"}


class Inconclusive(Exception):
    """The machinery failed (build, TLC crash, timeout): exit 2."""


def log(*a):
    print(*a, file=sys.stderr, flush=True)


class Ctx:
    def __init__(self, prop, tier, seed):
        self.prop, self.tier, self.seed = prop, tier, seed
        self.t0 = time.time()
        self.scratch = tempfile.mkdtemp(prefix="verif-%s-" % prop)
        self.tlc_cmds = []
        self.states = 0
        self.transitions = 0
        self.traces = 0
        self.assumptions = []
        self.cov = {}
        self.violations = []     # (what, replay_path)
        self.known = []          # (finding id, what)
        self.selftest = 0        # number of corrupted sequences per trace (binding demonstration)
        self.selftest_results = {}
        self._in_selftest = False
        shutil.rmtree(os.path.join(REPLAYS, prop), ignore_errors=True)   # replays belong to one run

    def dir(self, name):
        d = os.path.join(self.scratch, name)
        os.makedirs(d, exist_ok=True)
        return d

    def cleanup(self):
        shutil.rmtree(self.scratch, ignore_errors=True)


# ---------------------------------------------------------------- harness
def harness_dir(ctx):
    """A private copy of the harness module (go.mod is rewritten by -mod=mod; several checks
    may run side by side).  `replace` points at /repo's working tree, so every run compiles the
    current sources."""
    d = os.path.join(ctx.scratch, "harness")
    if not os.path.isdir(d):
        shutil.copytree(HARNESS, d)
        mod = open(os.path.join(d, "go.mod")).read()
        mod = re.sub(r"replace github.com/olric-data/olric => \S+",
                     "replace github.com/olric-data/olric => " + REPO, mod)
        open(os.path.join(d, "go.mod"), "w").write(mod)
        shutil.copy(os.path.join(REPO, "go.sum"), os.path.join(d, "go.sum"))
    return d


PANIC_RE = re.compile(r"^(panic: |fatal error: |unexpected fault address|SIGSEGV)", re.M)


def go_test(ctx, pkg, run, env=None, timeout=600, tags="verif", race=False):
    """Runs one driver (`go test -tags verif -run <run> ./<pkg>/`).  Returns (rc, output)."""
    d = harness_dir(ctx)
    e = dict(os.environ)
    e.update(GOENV)
    e["VERIF_SEED"] = str(ctx.seed)
    e["VERIF_TIER"] = ctx.tier
    gotmp = os.path.join(ctx.scratch, "gotmp")
    os.makedirs(gotmp, exist_ok=True)
    e["GOTMPDIR"] = gotmp
    e["TMPDIR"] = gotmp
    if env:
        e.update({k: str(v) for k, v in env.items()})
    cmd = ["go", "test", "-count=1", "-tags", tags, "-run", run, "-timeout", "%ds" % timeout]
    if race:
        cmd.append("-race")
        e["CGO_ENABLED"] = "1"
    cov = os.environ.get("VERIF_COVER")
    if cov:
        # statement coverage of olric's own packages by this driver (tools/coverage.sh): a map of what the drivers never reach
        os.makedirs(cov, exist_ok=True)
        cmd += ["-coverpkg=github.com/olric-data/olric/...", "-coverprofile=%s/%s-%s-%s.out" % (cov, ctx.prop, pkg, run)]
    cmd.append("./" + pkg + "/")
    t0 = time.time()
    try:
        p = subprocess.run(cmd, cwd=d, env=e, stdout=subprocess.PIPE, stderr=subprocess.STDOUT,
                           timeout=timeout + 60, text=True, errors="replace")
    except subprocess.TimeoutExpired as ex:
        raise Inconclusive("driver %s/%s did not finish in %ds" % (pkg, run, timeout + 60))
    log("[go] %s -run %s rc=%d %.1fs" % (pkg, run, p.returncode, time.time() - t0))
    return p.returncode, p.stdout


def build_failed(out):
    return "[build failed]" in out or "[setup failed]" in out or re.search(r"^# ", out, re.M) is not None and "FAIL" in out and "--- FAIL" not in out and "panic:" not in out


def olric_crash(out):
    """A Go run-time fatal error or a panic whose stack runs through olric's own packages is
    behaviour of the code under test (DESIGN section 10)."""
    m = PANIC_RE.search(out)
    if not m:
        return None
    tail = out[m.start():]
    if tail.startswith("panic: test timed out"):
        # the driver as a whole ran out of time: that is not a verdict (drivers that look for hangs have their own watchdogs)
        return None
    if "github.com/olric-data/olric/" in tail.replace("github.com/olric-data/olric/verifharness", ""):
        return tail[:4000]
    return None


# ---------------------------------------------------------------- TLC
def tlc(ctx, module, cfg, files=(), workers=None, timeout=600, extra=(), dfs=False, name=None,
        consts=None):
    """Runs TLC on spec/<module>.tla with spec/<cfg> in a scratch copy.  `files`: extra files
    copied next to the spec (traces).  `consts`: textual substitutions applied to the cfg
    (NAME = value).  Returns a dict with output, states, distinct, error kind."""
    name = name or (module + "-" + os.path.splitext(os.path.basename(cfg))[0])
    d = ctx.dir("tlc-" + name)
    for f in os.listdir(SPEC):
        if f.endswith(".tla"):
            shutil.copy(os.path.join(SPEC, f), d)
    cfgtxt = open(os.path.join(SPEC, cfg)).read()
    for k, v in (consts or {}).items():
        cfgtxt, n = re.subn(r"(?m)^(\s*%s\s*=\s*).*$" % re.escape(k), lambda mm: mm.group(1) + str(v), cfgtxt)
        if n == 0:
            raise Inconclusive("cfg %s has no constant %s" % (cfg, k))
    open(os.path.join(d, "run.cfg"), "w").write(cfgtxt)
    for f in files:
        shutil.copy(f, d)
    w = workers or NCPU
    jtmp = os.path.join(d, "jtmp")
    os.makedirs(jtmp, exist_ok=True)
    jopts = ["-XX:+UseParallelGC", "-Xss64m", "-Djava.io.tmpdir=" + jtmp]
    if dfs:
        jopts.append("-Dtlc2.tool.queue.IStateQueue=StateDeque")
    cmd = ["java"] + jopts + ["-cp", TLA_JAR, "tlc2.TLC", "-workers", str(w), "-metadir",
                              os.path.join(d, "meta"), "-config", "run.cfg"] + list(extra) + [module + ".tla"]
    ctx.tlc_cmds.append("tlc -workers %d -config %s %s %s" % (w, cfg, " ".join(extra), module + ".tla"))
    t0 = time.time()
    try:
        p = subprocess.run(cmd, cwd=d, stdout=subprocess.PIPE, stderr=subprocess.STDOUT,
                           timeout=timeout, text=True, errors="replace")
    except subprocess.TimeoutExpired:
        subprocess.run(["pkill", "-f", d], check=False)
        raise Inconclusive("TLC %s timed out after %ds" % (name, timeout))
    out = p.stdout
    open(os.path.join(d, "tlc.out"), "w").write(out)
    res = {"out": out, "rc": p.returncode, "dir": d, "wall": time.time() - t0}
    m = re.findall(r"(\d+) states generated, (\d+) distinct states found", out)
    if m:
        res["generated"], res["distinct"] = int(m[-1][0]), int(m[-1][1])
    else:
        res["generated"], res["distinct"] = 0, 0
    m = re.search(r"The depth of the complete state graph search is (\d+)", out)
    res["depth"] = int(m.group(1)) if m else 0
    res["violated"] = None
    m = re.search(r"Error: Invariant (\S+) is violated", out)
    if m:
        res["violated"] = m.group(1)
    m2 = re.search(r"Error: Action property (\S+) is violated", out)
    if m2:
        res["violated"] = m2.group(1)
    if "Temporal properties were violated" in out:
        res["violated"] = "temporal"
    res["ok"] = ("Model checking completed. No error has been found" in out)
    errs = [l for l in out.splitlines() if l.startswith("Error:")]
    res["errors"] = errs
    log("[tlc] %s: %d generated / %d distinct, depth %d, %.1fs%s" % (
        name, res["generated"], res["distinct"], res["depth"], res["wall"],
        "" if res["ok"] else " -> " + (res["violated"] or (errs[0] if errs else "rc=%d" % p.returncode))))
    return res


def design_check(ctx, module, cfg, timeout=900, workers=None, consts=None, extra=(), name=None):
    """TLC on a design config: must complete without error; adds to states/transitions.  A
    failure is a spec/design finding, never a VIOLATION of the code: exit 2."""
    r = tlc(ctx, module, cfg, timeout=timeout, workers=workers, consts=consts, extra=extra, name=name)
    if not r["ok"]:
        tail = "\n".join(r["out"].splitlines()[-40:])
        raise Inconclusive("design config %s/%s did not pass TLC:\n%s" % (module, cfg, tail))
    ctx.states += r["distinct"]
    ctx.transitions += r["generated"]
    return r


def design_expect_violation(ctx, module, cfg, invariant, finding, timeout=900, workers=None, consts=None, name=None):
    """TLC on a design configuration that documents a known finding: the specification of the code AS IT IS
    must violate `invariant` (TLC's counterexample is the finding at the design level).  If TLC passes, the
    specification no longer explains the finding: exit 2 (the spec or the findings file is out of date)."""
    r = tlc(ctx, module, cfg, timeout=timeout, workers=workers, consts=consts, name=name)
    if r["ok"] or (("Invariant %s is violated" % invariant) not in r["out"] and ("Action property %s is violated" % invariant) not in r["out"]
                   and ("Temporal property %s was violated" % invariant) not in r["out"]):
        tail = "\n".join(r["out"].splitlines()[-25:])
        raise Inconclusive("design config %s/%s was expected to violate %s (known finding %s) but did not:\n%s"
                           % (module, cfg, invariant, finding, tail))
    ctx.states += r.get("distinct", 0)
    ctx.transitions += r.get("generated", 0)
    log("[design] %s/%s: TLC finds the violation of %s that known finding %s describes (expected)" % (module, cfg, invariant, finding))
    return r


def printed(out, tag):
    """Strings printed by a spec with PrintT("<tag>..."): TLC prints a string value on one line, in
    quotes, with \\ and \" escaped.  (Tuples are wrapped over several lines when long - never
    print those.)  Returns the texts after the tag."""
    res = []
    pre = '"' + tag
    for l in out.splitlines():
        if l.startswith(pre) and l.rstrip().endswith('"'):
            try:
                res.append(json.loads(l.rstrip())[len(tag):])
            except Exception:
                raise Inconclusive("cannot parse TLC output line: " + l[:200])
    if len(res) != sum(1 for l in out.splitlines() if l.lstrip('<" ').startswith(tag)):
        raise Inconclusive("TLC printed %s lines in an unexpected layout" % tag)
    return res


def behaviours(tlc_result, tag="BEH "):
    """Operation paths printed by a spec's export invariant (JSON texts)."""
    return printed(tlc_result["out"], tag)


def state_field(out, name):
    """Value of variable `name` in the last state of a TLC error trace (text)."""
    m = re.findall(r"(?ms)^/\\ %s = (.*?)(?=^/\\ |^\s*$|^State |^\d+ states)" % re.escape(name), out)
    return m[-1].strip() if m else None


def validate_det(ctx, module, cfg, trace_path, consts=None, timeout=900, name=None):
    """Validates a deterministic, fully logged trace (many sequences separated by `reset` lines):
    the trace spec consumes every line, records the first disagreement of each sequence and prints
    <<"FAIL", seq, line, msg>>.  Returns [(seq, line, msg)].  Anything else is Inconclusive."""
    nlines = sum(1 for _ in open(trace_path))
    c = dict(consts or {})
    c["TraceFile"] = '"%s"' % os.path.basename(trace_path)
    r = tlc(ctx, module, cfg, files=[trace_path], workers=1, timeout=timeout, consts=c, name=name)
    ctx.trace_states = getattr(ctx, "trace_states", 0) + r["distinct"]
    ctx.trace_transitions = getattr(ctx, "trace_transitions", 0) + r["generated"]
    if not r["ok"]:
        raise Inconclusive("trace validation failed to run:\n" + "\n".join(r["out"].splitlines()[-40:]))
    if r["depth"] != nlines + 1:
        raise Inconclusive("trace spec stopped at line %d of %d (unknown event?)\n%s" % (
            r["depth"], nlines, "\n".join(r["out"].splitlines()[-15:])))
    fails = []
    for t in printed(r["out"], "FAIL|"):
        seq, line, msg = t.split("|", 2)
        f = (int(seq), int(line), msg)
        if f not in fails:
            fails.append(f)
    return fails


def split_sequences(trace_path, marker="reset"):
    """Splits an NDJSON trace into its sequences (each starts with a `reset` line).  Returns a list
    of (first_line_index_1based, [lines])."""
    seqs, cur, start = [], None, 0
    for n, l in enumerate(open(trace_path), 1):
        if l.startswith("{") and '"t":"%s"' % marker in l:
            if cur is not None:
                seqs.append((start, cur))
            cur, start = [], n
        if cur is None:
            cur, start = [], n
        cur.append(l)
    if cur:
        seqs.append((start, cur))
    return seqs


def validate_chunks(ctx, module, cfg, trace_path, consts, chunk_lines=40000, name="trace", timeout=1200):
    """Splits a trace into chunks of whole sequences and validates them in parallel (one TLC per
    chunk).  Returns (accepted_sequences, failures) with failures = [(seq_lines, line_in_seq, msg)]."""
    import concurrent.futures as cf
    seqs = split_sequences(trace_path)
    chunks, cur, n = [], [], 0
    for s in seqs:
        cur.append(s)
        n += len(s[1])
        if n >= chunk_lines:
            chunks.append(cur)
            cur, n = [], 0
    if cur:
        chunks.append(cur)
    paths = []
    for i, ch in enumerate(chunks):
        p = os.path.join(ctx.dir("chunks-" + name), "%s-c%d.ndjson" % (name, i))
        with open(p, "w") as f:
            for _, ls in ch:
                f.writelines(ls)
        paths.append(p)
    failures = []

    def one(i):
        return validate_det(ctx, module, cfg, paths[i], consts=consts, timeout=timeout, name="%s-c%d" % (name, i))
    with cf.ThreadPoolExecutor(max_workers=max(1, NCPU // 2)) as ex:
        for i, fails in enumerate(ex.map(one, range(len(paths)))):
            for seq, line, msg in fails:
                acc = 0
                for _, ls in chunks[i]:
                    if acc + len(ls) >= line:
                        failures.append((ls, line - acc, msg))
                        break
                    acc += len(ls)
    run_selftest(ctx, "det", module, cfg, trace_path, consts, name)
    return len(seqs) - len(failures), failures


JUDGED = ("ret", "v", "val", "n", "count", "present", "scan", "gets", "stored", "result", "got", "list", "readback", "copies",
          "primaries", "backups", "gone", "applied", "outv", "after", "before", "views", "holds", "msgs", "yielded", "keys", "obs",
          "get", "range", "stats", "check", "ttl", "ttlms", "raw", "neighbours", "names", "coordinators", "lists")


def _corrupt_value(x, rng):
    if isinstance(x, bool):
        return not x
    if isinstance(x, int):
        return x + 1 + rng.randrange(3)
    if isinstance(x, str):
        swaps = {"ok": "notfound", "notfound": "val", "val": "notfound", "found": "ok", "none": "val", "num": "notfound", "nil": "zz"}
        return swaps.get(x, x + "~")
    if isinstance(x, list):
        if x and rng.random() < 0.5:
            return x[:-1]
        if x and isinstance(x[0], (dict, list)):
            y = json.loads(json.dumps(x))
            i = rng.randrange(len(y))
            y[i] = _corrupt_in(y[i], rng)
            return y
        return x + ["bogus~"]
    if isinstance(x, dict):
        return _corrupt_in(x, rng)
    return x


def _corrupt_in(obj, rng):
    """Changes one judged field somewhere in a JSON value; returns the changed copy (or the same value)."""
    if isinstance(obj, dict):
        keys = [k for k in obj if k in JUDGED]
        if not keys:
            return obj
        k = rng.choice(keys)
        o = dict(obj)
        o[k] = _corrupt_value(obj[k], rng)
        return o
    if isinstance(obj, list) and obj:
        y = list(obj)
        i = rng.randrange(len(y))
        y[i] = _corrupt_in(y[i], rng)
        return y
    return obj


def corrupted_copy(ctx, trace_path, n, name, only_types=None):
    """Writes a trace made of n sequences of `trace_path`, each with ONE judged field of ONE line changed."""
    import random
    rng = random.Random(ctx.seed * 7919 + 13)
    seqs = [s for s in split_sequences(trace_path) if len(s[1]) >= 2]
    if not seqs:
        return None, 0
    p = os.path.join(ctx.dir("selftest"), name + ".corrupted.ndjson")
    made = 0
    with open(p, "w") as f:
        for attempt in range(n * 6):
            if made >= n:
                break
            _, ls = seqs[rng.randrange(len(seqs))]
            cand = [i for i in range(1, len(ls)) if any(('"%s":' % k) in ls[i] for k in JUDGED)
                    and (only_types is None or any(('"t":"%s"' % t) in ls[i] for t in only_types))]
            if not cand:
                continue
            i = rng.choice(cand)
            ev = json.loads(ls[i])
            ev2 = _corrupt_in(ev, rng)
            if ev2 == ev:
                continue
            out = list(ls)
            out[i] = json.dumps(ev2, separators=(",", ":"), sort_keys=True) + "\n"
            f.writelines(out)
            made += 1
    return p, made


def run_selftest(ctx, kind, module, cfg, trace_path, consts, name):
    """Binding demonstration: the validator must reject recorded sequences in which one judged field was changed."""
    if not ctx.selftest or ctx._in_selftest:
        return
    ctx._in_selftest = True
    try:
        only = ["res"] if kind == "search" else None
        p, made = corrupted_copy(ctx, trace_path, ctx.selftest, name, only_types=only)
        if not made:
            return
        states, trans = getattr(ctx, "trace_states", 0), getattr(ctx, "trace_transitions", 0)
        try:
            if kind == "search":
                _, fails = validate_histories(ctx, module, cfg, p, consts=consts, name=name + "-selftest", max_failures=made + 5)
            else:
                _, fails = validate_chunks(ctx, module, cfg, p, consts=consts, name=name + "-selftest")
        except Inconclusive as e:
            # a corrupted field of the wrong type makes TLC stop with an evaluation error: the trace is not accepted either,
            # but nothing can be counted
            ctx.selftest_results[name] = {"corrupted_sequences": made, "rejected": None, "note": "TLC stopped with an evaluation error on the corrupted trace"}
            log("[selftest] %s: TLC stopped with an evaluation error on the corrupted trace (not accepted, not counted)" % name)
            return
        ctx.trace_states, ctx.trace_transitions = states, trans      # not part of the run's coverage numbers
        ctx.selftest_results[name] = {"corrupted_sequences": made, "rejected": len(fails)}
        log("[selftest] %s: %d of %d sequences with one corrupted field rejected by %s" % (name, len(fails), made, module))
        if not fails:
            raise Inconclusive("selftest: %s rejected none of %d corrupted sequences - the trace specification does not bind" % (module, made))
    finally:
        ctx._in_selftest = False


def validate_search(ctx, module, cfg, trace_path, consts=None, timeout=900, name=None):
    """Validates concurrent histories (sequences separated by `reset`) with a trace spec that
    searches for an explanation (internal linearization steps).  Acceptance = the position passes
    the end of the file (inverted invariant NotDone); the spec reports the highest line reached
    ("MAXI|n").  Returns the 1-based index of the line that could not be consumed, or None."""
    nlines = sum(1 for _ in open(trace_path))
    c = dict(consts or {})
    c["TraceFile"] = '"%s"' % os.path.basename(trace_path)
    r = tlc(ctx, module, cfg, files=[trace_path], workers=1, timeout=timeout, consts=c, name=name, dfs=True,
            extra=["-noGenerateSpecTE"])
    ctx.trace_states = getattr(ctx, "trace_states", 0) + r["distinct"]
    ctx.trace_transitions = getattr(ctx, "trace_transitions", 0) + r["generated"]
    mx = [int(x) for x in printed(r["out"], "MAXI|")]
    if r["violated"] == "NotDone":
        return None
    if r["ok"] and mx:
        if mx[-1] > nlines:
            return None
        return mx[-1]
    raise Inconclusive("trace validation failed to run:\n" + "\n".join(r["out"].splitlines()[-40:]))


def validate_histories(ctx, module, cfg, trace_path, consts=None, timeout=900, name="hist", max_failures=20,
                       chunk_lines=30000):
    """Validates every history of a trace; a rejected history is recorded and validation resumes
    with the history after it.  Returns (accepted, failures[(seq_lines, line_in_seq, msg)])."""
    import concurrent.futures as cf
    seqs = split_sequences(trace_path)
    chunks, cur, n = [], [], 0
    for s in seqs:
        cur.append(s)
        n += len(s[1])
        if n >= chunk_lines:
            chunks.append(cur)
            cur, n = [], 0
    if cur:
        chunks.append(cur)

    def one(ci):
        remaining = list(chunks[ci])
        fails, rnd = [], 0
        while remaining and len(fails) < max_failures:
            rnd += 1
            p = os.path.join(ctx.dir("chunks-" + name), "%s-c%d-r%d.ndjson" % (name, ci, rnd))
            with open(p, "w") as f:
                for _, ls in remaining:
                    f.writelines(ls)
            bad = validate_search(ctx, module, cfg, p, consts=consts, timeout=timeout, name="%s-c%d-r%d" % (name, ci, rnd))
            if bad is None:
                break
            acc = 0
            for idx, (_, ls) in enumerate(remaining):
                if acc + len(ls) >= bad:
                    fails.append((ls, bad - acc, "no linearization explains the reply at this line"))
                    remaining = remaining[idx + 1:]
                    break
                acc += len(ls)
            else:
                raise Inconclusive("rejected line %d is outside of the batch" % bad)
        return fails
    failures = []
    with cf.ThreadPoolExecutor(max_workers=max(1, NCPU // 2)) as ex:
        for fails in ex.map(one, range(len(chunks))):
            failures += fails
    run_selftest(ctx, "search", module, cfg, trace_path, consts, name)
    return len(seqs) - len(failures), failures


# ---------------------------------------------------------------- findings, verdict, evidence
def load_known():
    p = os.path.join(VERIF, "known_findings.json")
    if not os.path.exists(p):
        return []
    return json.load(open(p)).get("findings", [])


def match_known(prop, tags):
    """A known finding matches a failure iff it is for this property, is not marked fixed, and all
    of its `match` items equal the failure's tags (call site / input class)."""
    for f in load_known():
        if f.get("property") != prop or f.get("status") != "open":
            continue
        m = f.get("match", {})
        if m and all(tags.get(k) == v for k, v in m.items()):
            return f
    return None


def save_replay(ctx, payload):
    d = os.path.join(REPLAYS, ctx.prop)
    os.makedirs(d, exist_ok=True)
    n = len([x for x in os.listdir(d) if x.endswith(".json")]) + 1
    h = hashlib.sha1(json.dumps(payload, sort_keys=True, default=str).encode()).hexdigest()[:8]
    p = os.path.join(d, "%03d-%s.json" % (n, h))
    json.dump(payload, open(p, "w"), indent=1, default=str)
    return p


MAX_REPLAYS = 12


def report_failure(ctx, what, tags, payload):
    """Classifies one rejected trace: listed known finding -> KNOWN-FINDING line, else VIOLATION.
    Every violation is counted; replay files are written for the first MAX_REPLAYS."""
    k = match_known(ctx.prop, tags)
    if k:
        key = (k["id"], k["what"])
        if key not in ctx.known:
            ctx.known.append(key)
        return
    ctx.nviol = getattr(ctx, "nviol", 0) + 1
    if len(ctx.violations) >= MAX_REPLAYS:
        return
    payload = dict(payload)
    payload.update({"property": ctx.prop, "what": what, "tags": tags, "seed": ctx.seed, "tier": ctx.tier})
    ctx.violations.append((what, save_replay(ctx, payload)))


def write_evidence(ctx, coverage, level="model_checking"):
    os.makedirs(EVID, exist_ok=True)
    cov = dict(coverage)
    # states/transitions: TLC's numbers for the design configs of this run plus the states TLC explored
    # while validating the recorded traces (reported separately as well)
    ts, tt = getattr(ctx, "trace_states", 0), getattr(ctx, "trace_transitions", 0)
    cov.setdefault("design_states", ctx.states)
    cov.setdefault("design_transitions", ctx.transitions)
    cov.setdefault("trace_validation_states", ts)
    cov.setdefault("states", ctx.states + ts)
    cov.setdefault("transitions", ctx.transitions + tt)
    cov.setdefault("traces_validated_against_impl", ctx.traces)
    cov.setdefault("tlc_cmds", ctx.tlc_cmds)
    cov.setdefault("known_findings_seen", [k[0] for k in ctx.known])
    if ctx.selftest_results:
        cov["selftest"] = ctx.selftest_results
    ev = {"property_id": ctx.prop, "tier": ctx.tier, "seed": ctx.seed, "level": level,
          "coverage": cov, "assumptions": ctx.assumptions,
          "wall_s": round(time.time() - ctx.t0, 1), "violations": getattr(ctx, "nviol", 0)}
    p = os.path.join(EVID, ctx.prop + ".json")
    tmp = p + ".tmp"
    json.dump(ev, open(tmp, "w"), indent=1, default=str)
    os.replace(tmp, p)
    return p


def finish(ctx, coverage):
    write_evidence(ctx, coverage)
    # every open listed finding of this property is announced, observed in this run or not
    seen = {k for k, _ in ctx.known}
    for f in load_known():
        if f.get("property") == ctx.prop and f.get("status") == "open":
            print("KNOWN-FINDING: property=%s %s %s [%s in this run]" % (ctx.prop, f["id"], f["what"],
                  "observed" if f["id"] in seen else "not observed"))
    for what, replay in ctx.violations:
        print("VIOLATION property=%s replay=%s" % (ctx.prop, replay))
        log("  " + what)
    sys.stdout.flush()
    return 1 if ctx.violations else 0
